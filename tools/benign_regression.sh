#!/bin/bash
# Runs the quick checks that concern each stored behaviour-preserving refactoring (benign/<id>/patch.diff) against a scratch copy of
# /repo with the patch applied: every check must exit 0 without a VIOLATION line (a harness error or a violation is a false alarm).
cd /verif
declare -A CHECKS=( [B01]="C01 C03 C04 C07 C11 C12 C13 C17 C20" [B02]="C02 C10 C06 C19 C18 C20 C13 C09" [B03]="C05 C14 C15 C01 C07 C08 C09"
  [B04]="C09 C14 C03" [B05]="C08 C16 C17 C03" [B06]="C20 C13 C11" [B07]="C18 C01 C04 C12 C13 C03" [B08]="C17 C04 C13 C03 C20"
  [B09]="C06 C19 C02 C03" [B10]="C03"
  [B11]="C02 C10 C06 C19 C20 C09" [B12]="C16 C08" [B13]="C01 C17 C07 C04 C13" [B14]="C09 C14 C03 C17" [B15]="C15 C05 C01 C14" )
for k in ${1:-B01 B02 B03 B04 B05 B06 B07 B08 B09 B10 B11 B12 B13 B14 B15}; do
  echo "--- $k: ${CHECKS[$k]}"; DIFFLINES=0 tools/mutrun.sh /verif/benign/$k/patch.diff -- ${CHECKS[$k]} 2>&1 | grep "^==\|HARNESS" | cut -c1-200
done
