ENGINES = [
 {'name': 'E1-mesh-explorer', 'path': 'mc/meshmc.py', 'serves_properties': ['C02', 'C10', 'C06', 'C19', 'C18'],
  'kind_free_text': 'hand-written explicit-state BFS over operation histories of the real Mesh objects, half-edge fingerprint dedup, refinement horizon, 16-way parallel frontier'},
 {'name': 'E2-reference-mesh', 'path': 'mc/refmesh.py', 'serves_properties': ['C02', 'C10', 'C06', 'C19'],
  'kind_free_text': 'reference model: set of rectangles + geometric adjacency + least-fixpoint closure, stepped in lock-step with the implementation'},
]
NOTES = 'All checks: ./check <ID> --tier quick|thorough; evidence in evidence/<ID>.json; known findings in known_findings.json.'

chk('C02', 'model_checking',
    'Every bisection history up to a per-configuration depth on 16 initial meshes (open/glued, irregular grids, the five shipped curves) is executed on the real Mesh; every transition is compared with the reference least-1-irregular closure and every distinct state with the exact tiling/descent/bookkeeping invariants; refine/uniform_refine/uniform_refine_space are applied as leaf transitions at every state.',
    'Trusted: the 120-line reference model (mc/refmesh.py); bisection defined as the IEEE double midpoint; depth bounds per configuration in the evidence; longer histories only via seeded random walks (supplementary).',
    'explicit-state model checking of the implementation (BFS over operation histories, lock-step reference model)', 'DESIGN.md 4/C02', 'E1-mesh-explorer')
chk('C10', 'model_checking',
    'Same state graph as C02: in every reachable state, for every edge of every leaf, neighbour_elements() is compared with the geometric neighbour set of the reference (seam identified), with the <=2, leaf-only, symmetry and boundary/glued-flag clauses.',
    'Trusted: geometric adjacency predicate of mc/refmesh.py; depth bounds as reported.',
    'explicit-state model checking of the implementation (BFS over operation histories, geometric oracle per edge)', 'DESIGN.md 4/C10', 'E1-mesh-explorer')
