ENGINES = [
 {'name': 'E1-mesh-explorer', 'path': 'mc/meshmc.py', 'serves_properties': ['C02', 'C10', 'C06', 'C19', 'C18'],
  'kind_free_text': 'hand-written explicit-state BFS over operation histories of the real Mesh objects, half-edge fingerprint dedup, refinement horizon, 16-way parallel frontier'},
 {'name': 'E2-reference-mesh', 'path': 'mc/refmesh.py', 'serves_properties': ['C02', 'C10', 'C06', 'C19'],
  'kind_free_text': 'reference model: set of rectangles + geometric adjacency + least-fixpoint closure, stepped in lock-step with the implementation'},
]
NOTES = 'All checks: ./check <ID> --tier quick|thorough; evidence in evidence/<ID>.json; known findings in known_findings.json.'

chk('C02', 'model_checking',
    'Every bisection history up to a per-configuration depth on 16 initial meshes (open/glued, irregular grids, the five shipped curves) is executed on the real Mesh; every transition is compared with the reference least-1-irregular closure and every distinct state with the exact tiling/descent/bookkeeping invariants; refine/uniform_refine/uniform_refine_space are applied as leaf transitions at every state.',
    'Trusted: the 120-line reference model (mc/refmesh.py); bisection defined as the IEEE double midpoint; depth bounds per configuration in the evidence; longer histories only via seeded random walks (supplementary).',
    'explicit-state model checking of the implementation (BFS over operation histories, lock-step reference model)', 'DESIGN.md 4/C02', 'E1-mesh-explorer')
chk('C10', 'model_checking',
    'Same state graph as C02: in every reachable state, for every edge of every leaf, neighbour_elements() is compared with the geometric neighbour set of the reference (seam identified), with the <=2, leaf-only, symmetry and boundary/glued-flag clauses.',
    'Trusted: geometric adjacency predicate of mc/refmesh.py; depth bounds as reported.',
    'explicit-state model checking of the implementation (BFS over operation histories, geometric oracle per edge)', 'DESIGN.md 4/C10', 'E1-mesh-explorer')
chk('C06', 'model_checking',
    'On every fingerprint-distinct mesh state of the listed BFS graphs: every indicator vector over {0,1,2} (isotropic 3^N, anisotropic 3^(2N) / <=3 non-zeros) x theta in {1/4,1/2,3/4,0.9}, every subset (pair of subsets) as marked set, and two-step sequences (thorough) are executed on a fresh replay of the real mesh; marks observed at the top-level refine calls are checked to be an admissible shortest prefix and the final leaf set to equal the reference two-phase closure; no call may fail.',
    'Trusted: reference model; indicator alphabet {0,1,2} realises all weak orders on small meshes; theta alphabet; mesh sizes N<=9 (quick) / 12 (thorough) for subsets.',
    'explicit-state model checking of the implementation (every state x every input of a bounded alphabet, reference marking rule + closure)', 'DESIGN.md 4/C06', 'E1-mesh-explorer')
chk('C19', 'model_checking',
    'refine_grading(sigma in {1,1.5,2}, K=4) is applied, on a fresh replay, at every fingerprint-distinct state of the BFS graphs rooted at the shipped curves (depth 2-4 quick, up to 6 thorough) and at shallow graphs rooted at directed deep histories; it must return within a rigorous bisection bound, only refine, put every leaf in the window (exact rational comparison) and keep all C02/C10 invariants.',
    'Trusted: reference invariants; the bisection bound derivation in props/C19.py; custom anisotropic root grids excluded (documented non-goal).',
    'explicit-state model checking of the implementation (grading as a leaf transition at every reachable state, termination by rigorous horizon)', 'DESIGN.md 4/C19', 'E1-mesh-explorer')
chk('C18', 'exploration',
    'Complete enumeration of three finite spaces: (1) the five shipped curves on a parameter alphabet (break points, +-1 ulp, dyadic points, all in-piece pairs) for piece lengths, arc length, continuity, closedness, eval vs piece; (2) every simple rectilinear lattice polygon in {0..3}^2 with <= 6/8 vertices, all start vertices and orientations, through the polygon constructor (reject or satisfy everything); (3) MeshParametrized for every curve x 8 time grids (1..6 slabs, irregular) x 3 space grids x every leaf-set-distinct state of the bisection BFS to depth 1/2: piece identity of every element, >=3 elements per slab, two elements never touch twice.',
    'Continuous parameters are represented by the alphabet; polygons by the lattice family; mesh histories by the depth bound.',
    'exhaustive enumeration of bounded configuration spaces and BFS over bisection histories on the real objects', 'DESIGN.md 4/C18', 'E1-mesh-explorer')
ENGINES += [
 {'name': 'E4-oracles', 'path': 'mc/oracle.py', 'serves_properties': ['C01', 'C04', 'C07', 'C11', 'C12', 'C13', 'C03'],
  'kind_free_text': 'independent reference integrals (analytic double time integral + graded Gauss in space), validated against mpmath'},
 {'name': 'E5-universe', 'path': 'mc/universe.py', 'serves_properties': ['C01', 'C04', 'C07', 'C11', 'C12', 'C13'],
  'kind_free_text': 'complete dyadic rectangle universes R(Lt,Lx) built by real bisection; geometric class labelling; vacuity guards'},
 {'name': 'tables', 'path': 'mc/tab_rules.py', 'serves_properties': ['C05', 'C14', 'C15'],
  'kind_free_text': 'ast parser of the rule tables with exact rational literals and exact moments; rational closed forms for the seminorms'},
]
chk('C01', 'model_checking',
    'Layer A: the panel-splitting recursion SingleLayerOperator.__integrate is executed, with recording proxies for its six rule objects, on every ordered pair of dyadic parameter intervals up to level 3 (quick) / 5 (thorough) under every root of the five curves; each execution must terminate, tile the integration rectangle exactly with its terminal panels and place every rule on the geometric singularity of its panel; bilform variable order observed through recording parametrisations. Layer B: every ordered pair of the dyadic rectangle universes (real elements; five curves, four time grids; aspect <= 32), both switch values, compared with the independent entry oracle at the property tolerance 1e-7*sqrt(D D\'); class histogram with vacuity guard.',
    'Trusted: mc/oracle.py (validated to 4e-13 against 25-digit mpmath on straight pieces), scipy exp1; universes bounded by (Lt,Lx) per evidence.',
    'exhaustive exploration of the recursion state graph of the real code with recording proxies (layer A) + exhaustive enumeration of the dyadic pair universe against a reference model (layer B)', 'DESIGN.md 4/C01', 'E5-universe')
chk('C05', 'exploration',
    'Complete enumeration of the finite space: all 103 table keys of the seven families x every function of the advertised class, in 100-digit interval arithmetic on the literals parsed from the source text (1e-30) and on the doubles (1e-13); structure clauses; every exported (degree,degree) pair; every scheme constructor x every degree mapping to a present key.',
    'Trusted: mpmath.iv, the ast parser (cross-checked: parsed literals rounded to double equal what the real functions return). Known finding F7 (gauss_log N=15,31 source precision) listed in known_findings.json.',
    'exhaustive enumeration of a finite table space with interval arithmetic', 'DESIGN.md 4/C05', 'tables')
chk('C14', 'exploration',
    'All orders 1..21 (23 for H^1/4) x 18 intervals x the polynomial set {x^i, x^i+x^j} against exact rational closed forms; non-negativity, constants, quadratic scaling, translation, curve-aware == flat on rigid placements, two-piece variant on every corner of UnitSquare and LShape against a graded reference.',
    'Tolerances as in the property where doubles can represent the data; an explicit round-off allowance for offset >> length (counted in the evidence); corner clause with an a-priori Gauss envelope (see DESIGN).',
    'exhaustive enumeration of a finite configuration space against exact closed forms', 'DESIGN.md 4/C14', 'tables')
chk('C15', 'exploration',
    '115 base rules x every derived-scheme constructor x mirror words x box alphabet x all monomials up to the stated exactness (5.3 M comparisons quick, 17.9 M thorough): weight sums, monomial exactness, mirror involution, symmetric vs non-symmetric Duffy, monotone log-convergence to closed forms.',
    'Trusted: exact monomial integrals; mirror involution demanded to 1 ulp on the mirrored coordinate (bitwise is false on correct code because 1-(1-p) != p in binary floating point).',
    'exhaustive enumeration of a finite configuration space against exact monomial integrals', 'DESIGN.md 4/C15', 'tables')
chk('C04', 'exploration',
    'Every ordered element pair of the dyadic rectangle universes (no aspect filter, incl. a 2^-10 time grid where entries underflow towards 1e-122), both switch values: acausal => exactly 0.0, causal => >= -1e-15 sqrt(DD\') and > 0 whenever a rigorous mpmath lower bound of the exact entry exceeds 1e-250; every (trial element, time alphabet incl. start/end +-1 ulp, point alphabet) for evaluate / evaluate_exact / potential / evaluate_vector; every leaf-set-distinct mesh of the BFS graphs: bilform_matrix (inline and serial) block lower-triangular with rows = test.',
    'Known finding F9 (closed-form path returns -7e-22 where the exact entry is 1e-122) keyed by call site in known_findings.json; pool path covered by C17.',
    'exhaustive enumeration of bounded configuration spaces (pair universe, time/point alphabets, BFS mesh states) with exact-zero / sign oracles', 'DESIGN.md 4/C04', 'E5-universe')
chk('C07', 'exploration',
    'Every trial element of the universes x time alphabet (parabolic ratio <= 16) x point alphabet (end points, 0, L, relative distances 1e-5..1 outside either end through seam/corners, interior, d_a=d_b flip points, Gauss nodes of all other leaves) against the independent pointwise oracle with the class tolerances of the property; evaluate_exact on the own straight side (1e-7); evaluate_vector bitwise; graded integral of evaluate over test elements vs bilform within the bound implied by the pointwise tolerances.',
    'Continuous t, x_hat represented by alphabets built from the comparison points of the code; oracle trusted after validation.',
    'exhaustive enumeration over finite alphabets against a reference model', 'DESIGN.md 4/C07', 'E5-universe')
chk('C11', 'exploration',
    'Every ordered causal pair (incl. diagonal) of the universes x all 15 non-trivial combinations of {whole, time halves, space halves, quarters} on both sides x both switch values, pieces being real children from real bisection; sum of pieces vs whole at 1e-7 sqrt(DD\'); virtual children of DummyElement.uniform_refinement give bitwise the same entries as real children.',
    'D from the entry oracle; aspect <= 32 for every piece.', 'exhaustive enumeration of the pair universe with a self-consistency (additivity) oracle', 'DESIGN.md 4/C11', 'E5-universe')
chk('C12', 'exploration',
    'Every ordered causal pair of the universes: exchange of space intervals (bitwise), every admissible common time shift (bitwise), every element of the symmetry group of the squares (8) and of the circle (rotations by the finest element, reflection) whose image exists (1e-7 sqrt(DD\')); orbits mixing interior and seam-crossing members counted.',
    'L-shape: exchange and time shift only (no symmetry group used).', 'exhaustive enumeration of the pair universe x symmetry group with an invariance oracle', 'DESIGN.md 4/C12', 'E5-universe')
chk('C13', 'exploration',
    'Every leaf-set-distinct mesh state of the BFS graphs on the closed curves, uniform refinements and deep roots (aspect <= 32): lambda_min of the diagonally scaled symmetric part of bilform_matrix > 0.01, every 4x4 child block and its three scalings positive, both switch values.',
    'Mesh sizes bounded by the listed depths (largest mesh in the evidence).', 'exhaustive enumeration of BFS mesh states with an eigenvalue oracle', 'DESIGN.md 4/C13', 'E1-mesh-explorer')
ENGINES += [{'name': 'E1q-quadtree-explorer', 'path': 'mc/quadmc.py', 'serves_properties': ['C16'],
             'kind_free_text': 'explicit-state BFS over InitialMesh.refine histories on the real objects with a reference quadtree (mc/refquad.py) in lock-step'}]
chk('C16', 'model_checking',
    'All histories of InitialMesh.refine up to depth 5 (squares) / 4 (L-shape) quick, 6 / 5 thorough, on the real objects in lock-step with a reference quadtree (tiling in exact arithmetic, 2:1 balance, unique vertices, bookkeeping, gmsh); uniform_refine in three iteration orders as a leaf transition; the complete set of boundary-targeting calls: every boundary piece x every dyadic segment l <= 6 (quick) / 10 (thorough) x both orientations x tuple/list/2x1-array/production-gamma realisations, on fresh meshes and on every shallow BFS state.',
    'Trusted: mc/refquad.py; bisection = IEEE double midpoint; on the pi square given end points within 1e-12*pi of the model points. Observation (not claimed): uniform_refine raises on non-uniform meshes in native set order while leaving a valid mesh.',
    'explicit-state model checking of the implementation (BFS over refinement histories + exhaustive enumeration of targeting calls, lock-step reference model)', 'DESIGN.md 4/C16', 'E1q-quadtree-explorer')
chk('C09', 'exploration',
    'Four closed curves x every leaf-set-distinct mesh state of the BFS graph (depth 1 quick / 2 thorough) x every element x 8 residuals (polynomial in t, x_hat; exponential/trigonometric in the embedded coordinates) x orders 1..19: every patch contribution returned by sobolev_space / sobolev_time is compared with an independent integral on the geometric union patch (1e-8 inside the exactness range on straight pieces, 1e-4 at order 17 otherwise, seam and corner patches included), the patch set with the geometric neighbour set, weighted L2 with exact integrals; estimate_sobolev shortcut == direct sums; quarter-turn symmetry of squares and circle permutes the indicators.',
    'Trusted: mc/oracle_slobo.py (self-tested against exact rational closed forms on every run). x_hat-polynomial residuals are not used on seam patches (discontinuous there). Pool path: C17.',
    'exhaustive enumeration of BFS mesh states x finite residual/order alphabets against a reference model', 'DESIGN.md 4/C09', 'E1-mesh-explorer')
ENGINES += [{'name': 'driver', 'path': 'mc/driver.py', 'serves_properties': ['C03'],
             'kind_free_text': 'executes the set-up/solve/residual statements of example.py extracted from its AST in a prepared namespace'}]
chk('C03', 'exploration',
    'All 12 problem x domain combinations of the driver x both switch values x every leaf-set-distinct mesh state of the BFS graph from the driver\'s initial mesh (depth 0/1 quick, 1/2 thorough) x every leaf: matrix, load vector, solve and residual are produced by the driver\'s own statements (executed from example.py\'s AST), and int_E r, int_E |r| by an independent graded tensor rule resolving every mesh line; criterion |int_E r| <= 5e-5 int_E |r| + 1e-12 as stated.',
    'Trusted: the graded rule (12 levels in time, 4 in space; converged per DESIGN measurements); process pool replaced by a serial stand-in (schedules are C17).',
    'exhaustive enumeration of BFS mesh states x problem configurations with an independent quadrature oracle', 'DESIGN.md 4/C03', 'driver')
ENGINES += [{'name': 'E3-virtual-pool', 'path': 'mc/vpool.py', 'serves_properties': ['C17', 'C04', 'C20'],
             'kind_free_text': 'fork-faithful virtual process pool with explorer-chosen chunk->worker schedules (set partitions), completion orders for unordered APIs; cache fault injector mc/faultfs.py'}]
chk('C17', 'fault_enumeration',
    'Paths: inline / serial / pool on both sides of the N*M=100 threshold vs entry-wise single evaluations on fresh operators, bitwise. Schedules: ALL set partitions of the chunk sequence into <= cpu blocks for four matrix shapes x cpu 1..16 (bilform_matrix), all partitions of 3..6 elements (linform_vector), of the two estimator maps (estimate_sobolev) and estimate_weighted_l2, on a fork-faithful virtual pool. Crash points: every prefix length of the stored .npy (matrix and vector) and garbage files the reader rejects. Histories: explicit-state search to depth 3 (quick) / 4 (thorough) over {assemble A, B, other curve, serial/pool, truncate, delete, read-only} in lock-step with a dictionary model of the cache directory.',
    'Not intercepted: the OS scheduler, fork failures, worker death, concurrent writers, well-formed cache files with foreign content (nothing short of a checksum could notice). Read-only injected at open() because the harness runs as root.',
    'exhaustive enumeration of worker schedules, crash points and cache-directory histories on the real assembly code under a controlled scheduler / fault injector', 'DESIGN.md 2.3, 4/C17', 'E3-virtual-pool')
chk('C20', 'exploration',
    'Four closed curves x every leaf-set-distinct BFS state (depth 1 quick / 2-3 thorough) x problems (with and without initial data) x densities {0, e_i, e_i+e_j, Galerkin}: both estimators compared (1e-9) with an independent computation on a second real mesh refined by real bisection, assembled from single bilform/linform calls, psi built from geometry; vanishing clause, non-negativity, Prolongate == geometric containment on every nested pair, serial vs pool bits on virtual-pool schedules and two genuine fork pools.',
    'The reference shares the kernel evaluations (bilform/linform) with the code: C20 decides the algebra, ordering, signs and sharing of the estimators; quadrature accuracy is C01/C08.',
    'exhaustive enumeration of BFS mesh states x density basis against an independent reference computation', 'DESIGN.md 4/C20', 'E1-mesh-explorer')
ENGINES += [{'name': 'E4-m0-oracle', 'path': 'mc/oracle_m0.py', 'serves_properties': ['C08'],
             'kind_free_text': 'independent initial-potential reference (closed-form 1-D factors, graded tensor rules), validated against mpmath on every run'}]
chk('C08', 'exploration',
    'Three polygonal domains x every dyadic boundary element (space level <= 3 quick / 5 thorough) x 11 time intervals (incl. those starting at t=0) with aspect <= 32 x u0 in {1, sine product} against the independent oracle (1e-5); linearity (1e-12), additivity under time/space split with real children, independent domain integral for the polynomial/trigonometric family (1e-6), pointwise evaluate / evaluate_mesh for t >= 0.05 side^2 (1e-5), linform_vector bitwise; branch-signature vacuity guard (identical / touching v0 / touching v1 / disjoint cells, a==0 / a>0).',
    'Trusted: mc/oracle_m0.py (validated against 26-30 digit mpmath and against two unrelated rule sets on every deciding load). The closed forms of problems.py are cross-checked pointwise with mpmath as arbiter.',
    'exhaustive enumeration of a bounded element universe against an independent reference model', 'DESIGN.md 4/C08', 'E4-m0-oracle')

# ---- call-history clauses added after the state-dependent seed waves (appended to the level texts)
_HIST = {
 'C01': ' Call histories: every pair is additionally served by a second operator in the reverse order (quick) / by a brand-new operator (thorough) and judged against the oracle at the same tolerance (bitwise differences are only counted); all 20 ordered pairs of curves are served one after the other in fresh processes (values of the second curve against the oracle). Universes with very short end times (2^-9, 2^-11: only seam / corner couples survive).',
 'C03': ' Call histories: ordered pairs of problem/domain combinations set up and solved one after the other in fresh processes (residual means of the second).',
 'C04': ' Call histories: second serial assembly on the same operator with a same-length trial list in another order; square assembly with two different lists of equal length; both orientations entrywise; virtual-pool path.',
 'C06': ' Two marking steps on one mesh object (isotropic/anisotropic first step, every subset for N<=3(5), singletons up to N=6(8)).',
 'C07': ' Call histories: all 20 ordered pairs of curves served one after the other in fresh processes.',
 'C08': ' Call histories: all 6 orders of the three domains served in one process (shared boundary segments). Exact clause also on wide time intervals away from 0 (end/start = 32, 32, 64) and thin late slabs (custom time grids).',
 'C09': ' Custom closed curves (circle of radius 2, stadium, thin rectangle; comparable element sizes); estimators with other order tuples are created before and after the ones under test. Call histories: all ordered pairs of pool-path calls (weighted-L2, Sobolev) on one estimator and one element list object with different residuals (virtual pool, one window).',
 'C10': ' Query-refine-query histories on one mesh object on every transition and along the random walks.',
 'C11': ' Call histories: all 20 ordered pairs of curves served one after the other in fresh processes.',
 'C13': ' Operator histories judged by the eigenvalue criterion: child blocks recomputed with new virtual children and re-assembly on the same operator; the driver lifecycle (operator created and registered on the initial mesh, bisection history applied afterwards, same operator assembles). Alternating-time meshes (spatial neighbours on two time levels); custom non-uniform tensor grids and custom closed curves (circle of radius 2, stadium, thin rectangle).',
 'C15': ' Construction histories on shared tensor schemes (all constructor orders; judged by measure and moments); box alphabets contain translates with identical side lengths, zero bounds and short intervals far from the origin.',
 'C16': ' End points are looked up before the refinement that creates them in the second orientation of every targeting case.',
 'C17': ' Pool call histories with lists mutated in place (reverse / replace / rotate) on the same operator. Square requests with equal test and different trial lists; long-list cache histories (300 / 1100 elements, middle exchanged or replaced) against one directory.',
 'C18': ' Construction histories on one curve object: every ordered pair of six space grids (incl. different grids of the same length) x two time grids. Vectorised eval on every order class of the alphabet (reversed, all rotations, interleaved, piece i - piece j - piece i); open lattice polylines and custom polygons not starting in the origin.',
 'C19': ' Every ordered pair of exponents graded one after the other on one mesh object at every state of depth <= 2 (quick) / 3 (thorough). Time strips of level 8 (quick) / 8, 11, 14 (thorough) at t = 0 (exact window ties for sigma = 1.5); one-element strips that need 17+ sweeps (2^17 leaves).',
 'C20': ' Prolongate is also called on stored element lists after the mesh was refined further and with permuted fine lists. Custom non-uniform tensor grids (equal levels, different sizes), custom closed curves, cross-curve histories in fresh processes.',
}
_HIST['C02'] = ' Deep directed roots: time / space level 22 (30) next to t = T / x = L, staircases of 13 (16) forced bisections.'
_HIST['C14'] = ' Two-order constructor Slobodeckij(N_time, N_space): differential against the single-order objects.'
_HIST['C16'] += ' Deep targets of level 8, 10, 12 (thorough: up to 14).'
_HIST['C07'] += ' Custom thin rectangle with end time 2^-8; deep directed universes (space level 11 / 14 next to both ends of the parameter interval).'
_HIST['C06'] += ' Power-of-two scaled indicator families (2^-30 .. 2^40); mode D: deep directed roots (level 17+) with every ordered pair (deep leaf, any leaf) marked.'
_HIST['C10'] += ' Deep directed roots as in C02.'
_HIST['C11'] += ' Short-end-time universes and a custom grid with size ratio 250 between close panels.'
_HIST['C05'] = ' Constructor clause: every family requested by degree through the scheme constructors in one process (rule returned must be exact to the degree asked for), and again after 120 further schemes were built in the same process.'
_HIST['C12'] = ' Universes with very short end times (2^-9, 2^-11) where only the seam / corner couples survive.'

# ---- wave 13
_HIST['C01'] += ' Virtual-quarters lifecycle: one operator serves the level meshes coarse-to-fine and back; on each, every (leaf, quarter) and (quarter, quarter) pair built with DummyElement.uniform_refinement is judged against the oracle (fresh process per curve and switch value).'
_HIST['C03'] += ' Lifecycle mode 2: the operator created on the first mesh assembles a block of the final shape for other elements before the refined mesh is solved.'
_HIST['C04'] += ' Vector routines (evaluate_vector, potential_vector) at one time on the level meshes one after the other on one operator (exact zero / agreement with the scalar routines); reports cut per tag so that known-finding hits cannot crowd out new violations.'
_HIST['C05'] += ' Request forms: every key of every table also requested by parameter name (all named / first positional), table order and reverse; the rule returned must be the table entry.'
_HIST['C06'] += ' The same indicator values as Fortran-ordered array and as strided view with decoy entries (mode A).'
_HIST['C07'] += ' Sweep order on locally refined meshes: on every BFS state, point fixed and ALL leaves evaluated one after the other on one operator, then evaluate_vector, each value against the oracle at its class tolerance.'
_HIST['C11'] += ' Universes on the time grid (0, 1/2, 2) (slab ratio 1:3: equal lags and equal sum of the two time lengths with different lengths).'
_HIST['C17'] += ' The same mutation history (plus grow / shrink / reverse) on the serial loop of one operator; a repeated identical request is judged against the pairwise reference (a history-dependent result is a violation, not harness non-determinism).'
_HIST['C18'] += ' Cross-curve construction histories: every ordered pair of eight curves meshed in one brand-new process (all grids incl. integer / half-integer grids; first, second, first again).'
for _k, _t in _HIST.items():
    CHECKS[_k]['level_claimed']['text'] += _t
NOTES += ' Thorough-tier wall times measured on this 16-core sandbox (partly under load from other jobs): C01 5 min, C02 6 min, C03 27 min, C04 1 min, C06 53 min, C07 6 min, C08 7 min, C09 3 min, C10 10 min, C11 2.5 min, C12 18 min, C13 56 min, C15 1.5 min, C16 6 min, C17 13 min, C19 14 min, C20 2 min; C05/C14/C18 under 30 s. Quick tier: 3 s (C05) to 80 s (C06, C08, C17), about 12 min for all twenty.'
