#!/bin/bash
# tools/confirm_seed.sh <name> <source-worktree> <property> [checks...]
# Confirms a seeded change independently in a fresh scratch worktree (demo passes without, baseline passes with,
# demo fails with), stores it under seeded/<name>/ and runs the given checks (default: the property's) against it.
set -u
NAME=$1; SRC=$2; PROP=$3; shift 3; CHECKS=${@:-$PROP}
OUT=/verif/seeded/$NAME; mkdir -p $OUT
cp $SRC/patch.diff $OUT/patch.diff
DEMO=$(ls $SRC/demo_*.py | head -1); cp $DEMO $OUT/
W=/tmp/cs_$NAME; git -C /repo worktree remove --force $W 2>/dev/null; git -C /repo worktree add -q --detach $W HEAD || exit 3
cd $W; cp $OUT/$(basename $DEMO) $W/
/venv/bin/python $(basename $DEMO) > $OUT/demo_without.log 2>&1; RC0=$?
git apply $OUT/patch.diff || { echo "patch does not apply"; git -C /repo worktree remove --force $W; exit 3; }
/verif/tools/baseline.sh $W > $OUT/baseline_with.log 2>&1; RCB=$?
/venv/bin/python $(basename $DEMO) > $OUT/demo_with.log 2>&1; RC1=$?
cd /verif; git -C /repo worktree remove --force $W
echo "demo without change: exit $RC0 | baseline with change: exit $RCB ($(tail -1 $OUT/baseline_with.log)) | demo with change: exit $RC1"
RES=""
for c in $CHECKS; do
  R=$(KEEP_REPLAYS=$OUT/replays DIFFLINES=0 tools/mutrun.sh $OUT/patch.diff -- $c 2>&1 | grep "^== $c")
  echo "$R"; RES="$RES$R; "
done
rm -rf $OUT/replays
/venv/bin/python - "$NAME" "$PROP" "$RC0" "$RCB" "$RC1" "$RES" <<'PY'
import json, sys, os
name, prop, rc0, rcb, rc1, res = sys.argv[1:7]
p = '/verif/seeded/%s/meta.json' % name
meta = json.load(open(p)) if os.path.exists(p) else {}
meta.update({'name': name, 'breaks_property': prop, 'demo_exit_without_change': int(rc0), 'baseline_exit_with_change': int(rcb),
             'demo_exit_with_change': int(rc1), 'confirmed': int(rc0) == 0 and int(rcb) == 0 and int(rc1) != 0,
             'checks_run': res.strip(), 'what_i_ran': 'tools/confirm_seed.sh: fresh worktree of /repo HEAD; demo; git apply; /verif/tools/baseline.sh; demo; then tools/mutrun.sh patch.diff -- <checks> (checks run against a scratch copy with the patch applied)'})
meta.setdefault('needs_to_manifest', '')
json.dump(meta, open(p, 'w'), indent=1)
PY
