#!/venv/bin/python
"""Validation panel for the entry / pointwise oracles: against mpmath (30 digits) on straight pieces and against a
refined variant of the oracle itself.  Run: PYTHONPATH=/verif /venv/bin/python tools/validate_oracle.py"""
import sys, time
sys.path.insert(0, '/verif')
import numpy as np
from mc import oracle as O

def line(x):
    x = np.asarray(x, dtype=float)
    return np.vstack([x, 0 * x])

cases = [
    # (test time, trial time, test x, trial x)
    ((0, 1), (0, 1), (0, 1), (0, 1)),
    ((0, 1), (0, 1), (0, .5), (.5, 1)),
    ((0, 1), (0, 1), (0, .25), (.25, 1)),
    ((0, 1), (0, 1), (0, 1), (.25, .5)),
    ((0, 1), (0, 1), (0, .5), (.25, .75)),
    ((0, 1), (0, 1), (0, .25), (.5, 1)),
    ((.5, 1), (0, .5), (0, .5), (0, .5)),
    ((.5, 1), (0, .5), (0, .5), (.5, 1)),
    ((0, 1), (0, .5), (0, .5), (.5, 1)),
    ((0, .5), (0, 1), (0, .5), (0, .25)),
    ((1, 2), (0, .5), (0, 1), (0, .5)),
    ((0, 1/32), (0, 1/32), (0, 1), (0, 1)),
    ((0, 1/32), (0, 1/32), (0, .5), (.5, 1)),
    ((1/32, 2/32), (0, 1/32), (0, .5), (.5, 1)),
    ((0, 1/32), (0, 1/32), (0, .25), (.5, .75)),
]
worst = 0
for (tt, ts, xt, xs) in cases:
    t0 = time.time()
    v = O.entry(tt, ts, xt, xs, line, line, 1.0, False)
    dt = O.entry(tt, tt, xt, xt, line, line, 1.0, False)
    ds = O.entry(ts, ts, xs, xs, line, line, 1.0, False)
    t1 = time.time()
    ref = float(O.mp_entry_straight(tt[0], tt[1], ts[0], ts[1], xt[0], xt[1], xs[0], xs[1], dps=25))
    err = abs(v - ref) / np.sqrt(dt * ds)
    worst = max(worst, err)
    print('%s %s %s %s  oracle=%.15e mp=%.15e  err/sqrt(DD)=%.2e  (%.0f ms / %.0f s)' % (tt, ts, xt, xs, v, ref, err, 1e3 * (t1 - t0), time.time() - t1), flush=True)
print("WORST straight", worst)

# ---- circle (curved geometry): chord distance 2 sin(|x-y|/2) -------------------------------------------------------
import mpmath as mp
mp.mp.dps = 25


def circ(x):
    x = np.asarray(x, dtype=float)
    return np.vstack([np.cos(x), np.sin(x)])


def mp_entry_circle(a, b, c, d, x0, x1, y0, y1):
    def Kmp(z, rho):
        if z <= 0:
            return mp.mpf(0)
        if rho == 0:
            return -z / (4 * mp.pi)
        u = rho / z
        return ((rho + z) * mp.e1(u) - z * mp.exp(-u)) / (4 * mp.pi)

    def f(x, y):
        rho = (2 * mp.sin((x - y) / 2))**2 / 4
        return Kmp(b - c, rho) - Kmp(a - c, rho) - Kmp(b - d, rho) + Kmp(a - d, rho)

    bx = sorted(set([x0, x1] + [p for p in (y0, y1) if x0 < p < x1]))
    tot = mp.mpf(0)
    for xa, xb in zip(bx, bx[1:]):
        def inner(x):
            by = sorted(set([y0, y1] + ([x] if y0 < x < y1 else [])))
            return mp.quad(lambda y: f(x, y), by)
        tot += mp.quad(inner, [xa, xb])
    return tot


P = np.pi
ccases = [((0, 1), (0, 1), (0, P / 2), (0, P / 2)), ((0, 1), (0, .5), (0, P / 2), (P / 2, P)), ((0, 1), (0, 1), (0, P / 4), (P / 2, P)),
          ((.5, 1), (0, .5), (0, P / 2), (P / 4, P / 2)), ((0, 1 / 8), (0, 1 / 8), (0, P / 4), (P / 4, P / 2))]
worstc = 0
for (tt, ts, xt, xs) in ccases:
    v = O.entry(tt, ts, xt, xs, circ, circ, 2 * P, True)
    dt = O.entry(tt, tt, xt, xt, circ, circ, 2 * P, True)
    ds = O.entry(ts, ts, xs, xs, circ, circ, 2 * P, True)
    ref = float(mp_entry_circle(tt[0], tt[1], ts[0], ts[1], xt[0], xt[1], xs[0], xs[1]))
    err = abs(v - ref) / np.sqrt(dt * ds)
    worstc = max(worstc, err)
    print('circle %s %s %s %s oracle=%.15e mp=%.15e err/sqrt(DD)=%.2e' % (tt, ts, xt, xs, v, ref, err), flush=True)
# seam-touching pair through the closing point: compare with the rotated interior pair (rotation invariance of the integral)
v1 = O.entry((0, 1), (0, 1), (0, P / 4), (7 * P / 4, 2 * P), circ, circ, 2 * P, True)
v2 = O.entry((0, 1), (0, 1), (P / 4, P / 2), (0, P / 4), circ, circ, 2 * P, True)
print('circle seam pair vs rotated interior pair: %.3e' % (abs(v1 - v2) / v2))
print('WORST circle', worstc)

# ---- pointwise oracle against mpmath -----------------------------------------------------------------------------
def mp_pointwise(t, c, d, y0, y1, xp, curved):
    def H(tau, rho):
        if tau <= 0:
            return mp.mpf(0)
        return mp.e1(rho / tau) / (4 * mp.pi)

    def f(y):
        if curved:
            q = (mp.cos(y), mp.sin(y))
        else:
            q = (y, mp.mpf(0))
        rho = ((xp[0] - q[0])**2 + (xp[1] - q[1])**2) / 4
        return H(t - c, rho) - H(t - d, rho)
    return mp.quad(f, [y0, y1])


worstp = 0
for (t, c, d, y0, y1, xh, curved) in [(0.5, 0, 1, 0, 1, 0.3, False), (1.5, 0, 1, 0, 1, 1.0, False), (0.5, 0, 1, 0, 1, 1.2, False),
                                      (0.7, 0, 1, 0, P / 2, 0.4, True), (0.7, 0, 1, 0, P / 2, P / 2 + 0.01, True), (1.3, 0, 1, 0, P / 2, 3.0, True)]:
    g = circ if curved else line
    xp = g(np.array([xh]))[:, 0]
    v = O.pointwise(t, (c, d), (y0, y1), g, xp, xhat=xh if y0 < xh < y1 else None)
    if y0 < xh < y1:
        ref = float(mp_pointwise(t, c, d, y0, xh, (mp.mpf(xp[0]), mp.mpf(xp[1])), curved) + mp_pointwise(t, c, d, xh, y1, (mp.mpf(xp[0]), mp.mpf(xp[1])), curved))
    else:
        ref = float(mp_pointwise(t, c, d, y0, y1, (mp.mpf(xp[0]), mp.mpf(xp[1])), curved))
    e = abs(v - ref) / abs(ref)
    worstp = max(worstp, e)
    print('pointwise t=%s elem t(%s,%s) x(%.3f,%.3f) x_hat=%.3f curved=%s oracle=%.15e mp=%.15e rel=%.2e' % (t, c, d, y0, y1, xh, curved, v, ref, e), flush=True)
print('WORST pointwise', worstp)
