#!/venv/bin/python
"""Validation panel for the entry / pointwise oracles: against mpmath (30 digits) on straight pieces and against a
refined variant of the oracle itself.  Run: PYTHONPATH=/verif /venv/bin/python tools/validate_oracle.py"""
import sys, time
sys.path.insert(0, '/verif')
import numpy as np
from mc import oracle as O

def line(x):
    x = np.asarray(x, dtype=float)
    return np.vstack([x, 0 * x])

cases = [
    # (test time, trial time, test x, trial x)
    ((0, 1), (0, 1), (0, 1), (0, 1)),
    ((0, 1), (0, 1), (0, .5), (.5, 1)),
    ((0, 1), (0, 1), (0, .25), (.25, 1)),
    ((0, 1), (0, 1), (0, 1), (.25, .5)),
    ((0, 1), (0, 1), (0, .5), (.25, .75)),
    ((0, 1), (0, 1), (0, .25), (.5, 1)),
    ((.5, 1), (0, .5), (0, .5), (0, .5)),
    ((.5, 1), (0, .5), (0, .5), (.5, 1)),
    ((0, 1), (0, .5), (0, .5), (.5, 1)),
    ((0, .5), (0, 1), (0, .5), (0, .25)),
    ((1, 2), (0, .5), (0, 1), (0, .5)),
    ((0, 1/32), (0, 1/32), (0, 1), (0, 1)),
    ((0, 1/32), (0, 1/32), (0, .5), (.5, 1)),
    ((1/32, 2/32), (0, 1/32), (0, .5), (.5, 1)),
    ((0, 1/32), (0, 1/32), (0, .25), (.5, .75)),
]
worst = 0
for (tt, ts, xt, xs) in cases:
    t0 = time.time()
    v = O.entry(tt, ts, xt, xs, line, line, 1.0, False)
    dt = O.entry(tt, tt, xt, xt, line, line, 1.0, False)
    ds = O.entry(ts, ts, xs, xs, line, line, 1.0, False)
    t1 = time.time()
    ref = float(O.mp_entry_straight(tt[0], tt[1], ts[0], ts[1], xt[0], xt[1], xs[0], xs[1], dps=25))
    err = abs(v - ref) / np.sqrt(dt * ds)
    worst = max(worst, err)
    print('%s %s %s %s  oracle=%.15e mp=%.15e  err/sqrt(DD)=%.2e  (%.0f ms / %.0f s)' % (tt, ts, xt, xs, v, ref, err, 1e3 * (t1 - t0), time.time() - t1), flush=True)
print('WORST', worst)
