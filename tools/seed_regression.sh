#!/bin/bash
# Runs, for every seeded change under seeded/<name>/, the quick check of the property it breaks against a scratch copy of
# /repo with the patch applied, and reports whether a VIOLATION is printed (expected for every seed).
# usage: tools/seed_regression.sh [parallel jobs, default 3] [name filter (grep -E)]
cd /verif
P=${1:-3}; F=${2:-.}
one() {
  d=$1; n=$(basename $d); p=$(python3 -c "import json;print(json.load(open('$d/meta.json'))['breaks_property'])")
  r=$(DIFFLINES=0 tools/mutrun.sh /verif/$d/patch.diff -- $p 2>&1 | grep "^== $p")
  if python3 -c "import json,sys;sys.exit(0 if json.load(open('$d/meta.json')).get('covered', True) is False else 1)"; then echo "UNCOVERED-BY-DECISION $n $r"; return; fi
  case "$r" in *"exit=1: 0 violation"*) echo "CRASHED  $n $r";; *"exit=1"*) echo "DETECTED $n $r";; *) echo "MISSED   $n $r";; esac
}
export -f one
ls -d seeded/*/ | grep -E "$F" | xargs -P $P -I{} bash -c 'one {}' | tee /tmp/seedreg.out
echo "seeds detected: $(grep -c '^DETECTED' /tmp/seedreg.out), missed: $(grep -c '^MISSED' /tmp/seedreg.out), crashed: $(grep -c '^CRASHED' /tmp/seedreg.out)"
