#!/bin/bash
# Runs, for every seeded change under seeded/<name>/, the quick check of the property it breaks against a scratch copy of
# /repo with the patch applied, and reports whether a VIOLATION is printed (expected for every seed).
cd /verif
ok=0; miss=0
for d in seeded/*/; do
  n=$(basename $d); p=$(python3 -c "import json;print(json.load(open('$d/meta.json'))['breaks_property'])")
  r=$(DIFFLINES=0 tools/mutrun.sh /verif/$d/patch.diff -- $p 2>&1 | grep "^== $p")
  case "$r" in *"exit=1"*) ok=$((ok+1)); echo "DETECTED $n $r";; *) miss=$((miss+1)); echo "MISSED   $n $r";; esac
done
echo "seeds detected: $ok, missed: $miss"
