#!/bin/bash
# tools/mutrun.sh <patch.diff | -e 'sed-expr' file> -- <check ids...>
# Applies a change to a scratch copy of /repo (never to /repo), optionally runs the baseline there (BASELINE=1),
# runs the given quick checks against the copy (STBEM_REPO), prints their verdict lines, removes the copy.
set -u
D=$(mktemp -d /dev/shm/stbem_mut.XXXXXX)
cp -r /repo/. $D/ ; rm -rf $D/.git
if [ "$1" = "-e" ]; then sed -i -e "$2" $D/$3 || exit 3; shift 3; else (cd $D && patch -p1 -s < "$(realpath "$1")") || { rm -rf $D; exit 3; }; shift; fi
[ "$1" = "--" ] && shift
if ! diff -rq /repo/src $D/src >/dev/null && [ "${BASELINE:-0}" = 1 ]; then /verif/tools/baseline.sh $D; fi
diff -r /repo/src $D/src | head -${DIFFLINES:-12}
for c in "$@"; do
  STBEM_REPO=$D VERIF_EVIDENCE_DIR=$D/evidence VERIF_REPLAY_DIR=${KEEP_REPLAYS:-$D/replays} /verif/check $c --tier ${TIER:-quick} > $D/out.$c 2>&1; rc=$?
  echo "== $c exit=$rc: $(grep -c '^VIOLATION' $D/out.$c) violation lines"; grep -m2 -A1 '^VIOLATION' $D/out.$c | cut -c1-400; grep HARNESS $D/out.$c | head -3
done
rm -rf $D
