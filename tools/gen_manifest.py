#!/usr/bin/env python3
"""Writes /verif/MANIFEST.json from the table below (single source of truth for the registered checks)."""
import json, os
V = os.path.dirname(os.path.dirname(os.path.abspath(__file__)))
CHECKS = {}
NA = {}


def chk(pid, cat, text, note, technique, ref, engine):
    CHECKS[pid] = dict(property_id=pid, quick_cmd='./check {} --tier quick'.format(pid),
                       thorough_cmd='./check {} --tier thorough'.format(pid),
                       evidence_file='evidence/{}.json'.format(pid),
                       replay_cmd_template='./check {} --replay {{path}}'.format(pid), engine=engine,
                       level_claimed=dict(category=cat, text=text, design_ref=ref), level_note=note,
                       technique=technique)


exec(open(os.path.join(V, 'tools', 'manifest_table.py')).read())
ALL = ['C%02d' % i for i in range(1, 21)]
man = {
    'version': 1,
    'setup_cmd': './setup.sh',
    'hooks': {'guard': 'STBEM_VERIF', 'enable': 'none needed: /repo is imported as is; all observation points are reached by attribute substitution from the harness process (STBEM_VERIF=1 is exported by ./check but no source reads it)',
              'baseline_off_cmd': 'tools/baseline.sh /repo', 'source_commits': [], 'add_only': True},
    'engines': ENGINES,
    'checks': [CHECKS[p] for p in ALL if p in CHECKS],
    'not_applicable': [{'property_id': p, 'reason': NA.get(p, 'check not built yet in this session; see DESIGN.md section 4 for the planned design')} for p in ALL if p not in CHECKS],
    'notes': NOTES,
}
json.dump(man, open(os.path.join(V, 'MANIFEST.json'), 'w'), indent=1)
print('checks:', [c['property_id'] for c in man['checks']])
