#!/bin/bash
# Runs the repository's pinned test suite (guard off) in the given tree (default /repo) and compares the
# set of passing tests with BASELINE.json's stable_pass list.  Exit 0 iff all 43 stable tests pass.
TREE=${1:-/repo}
OUT=$(mktemp /dev/shm/junit.XXXXXX.xml)
cd "$TREE" && env -u STBEM_VERIF /venv/bin/python -m pytest -ra -q -p no:cacheprovider --timeout=900 --continue-on-collection-errors --junitxml=$OUT >/dev/null 2>&1
/venv/bin/python - "$OUT" <<'PY'
import json, sys, xml.etree.ElementTree as ET
base = set(json.load(open('/root/.vp/BASELINE.json'))['stable_pass'])
passed = set()
for tc in ET.parse(sys.argv[1]).getroot().iter('testcase'):
    if not any(c.tag in ('failure', 'error', 'skipped') for c in tc):
        passed.add(tc.get('classname') + '::' + tc.get('name'))
missing = sorted(base - passed)
print('baseline: {} of {} stable tests pass; {} pass in total'.format(len(base & passed), len(base), len(passed)))
for m in missing: print('  MISSING', m)
sys.exit(1 if missing else 0)
PY
rc=$?; rm -f $OUT; exit $rc
