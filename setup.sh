#!/bin/bash
# Offline sanity check of the tooling the checks rely on; nothing is built (pure Python, /repo imported as is).
set -e
cd "$(dirname "$0")"
mkdir -p evidence replays
/venv/bin/python -c "import numpy, scipy, mpmath, sympy; print('ok numpy', numpy.__version__, 'scipy', scipy.__version__)"
test -d /repo/src
echo setup ok
