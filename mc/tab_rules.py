"""Shared by C05 / C14 / C15: the rule tables of src/quadrature_rules.py read from the SOURCE TEXT.

parse_tables() walks the if/elif chains of the seven `*_quadrature_rule` functions with `ast` and returns, per
(function name, key), the node / weight literals as exact rationals (Fraction of the printed decimal string, full
printed precision - never through float), and whether the branch actually `return`s its value.

function_class() lists the advertised function class of a table entry as (kind, degree, exact moment) triples with
exact rational moments:
    poly      x^k                    1/(k+1)
    xlog      x^k log x              -1/(k+1)^2
    xlog1m    x^k log(1-x)           -H_{k+1}/(k+1)
    xsqrt     x^k sqrt x             1/(k+3/2)
    xsqrtinv  x^k / sqrt x           1/(k+1/2)
    w         x^k against the family weight (1/sqrt x, x, log x): 1/(k+1/2), 1/(k+2), -1/(k+1)^2
"""
import ast
import os
from decimal import Decimal
from fractions import Fraction

from . import common

PAIR_FAMILIES = ('log_quadrature_rule', 'log_log_quadrature_rule', 'sqrt_quadrature_rule', 'sqrtinv_quadrature_rule')
GAUSS_FAMILIES = ('gauss_sqrtinv_quadrature_rule', 'gauss_x_quadrature_rule', 'gauss_log_quadrature_rule')
FAMILIES = PAIR_FAMILIES + GAUSS_FAMILIES
EXPORTED_LISTS = {'LOG_QUAD_RULES': 'log_quadrature_rule', 'LOG_LOG_QUAD_RULES': 'log_log_quadrature_rule',
                  'SQRT_QUAD_RULES': 'sqrt_quadrature_rule', 'SQRTINV_QUAD_RULES': 'sqrtinv_quadrature_rule'}
# constructor in src/quadrature.py -> rule function it reads
CONSTRUCTORS = {'gauss_sqrtinv_quadrature_scheme': 'gauss_sqrtinv_quadrature_rule',
                'gauss_x_quadrature_scheme': 'gauss_x_quadrature_rule',
                'gauss_log_quadrature_scheme': 'gauss_log_quadrature_rule',
                'log_quadrature_scheme': 'log_quadrature_rule',
                'log_log_quadrature_scheme': 'log_log_quadrature_rule',
                'sqrt_quadrature_scheme': 'sqrt_quadrature_rule',
                'sqrtinv_quadrature_scheme': 'sqrtinv_quadrature_rule'}


def rules_path():
    return os.path.join(common.REPO, 'src', 'quadrature_rules.py')


class Entry:
    __slots__ = ('fn', 'key', 'nodes', 'weights', 'nodes_txt', 'weights_txt', 'returned', 'lineno', 'dead')

    def __init__(self, fn, key, nodes, weights, nodes_txt, weights_txt, returned, lineno):
        self.fn, self.key, self.nodes, self.weights = fn, key, nodes, weights
        self.nodes_txt, self.weights_txt = nodes_txt, weights_txt
        self.returned, self.lineno = returned, lineno
        self.dead = False


def _literal(src, node):
    """Exact Fraction of one numeric literal as printed (handles unary sign, exponent, trailing dot)."""
    sign = 1
    while isinstance(node, ast.UnaryOp) and isinstance(node.op, (ast.USub, ast.UAdd)):
        if isinstance(node.op, ast.USub):
            sign = -sign
        node = node.operand
    if not (isinstance(node, ast.Constant) and isinstance(node.value, (int, float)) and not isinstance(node.value, bool)):
        raise common.HarnessError('table element at line {} is not a numeric literal: {}'.format(
            getattr(node, 'lineno', '?'), ast.dump(node)[:80]))
    txt = ast.get_source_segment(src, node)
    try:
        val = Fraction(Decimal(txt.replace('_', '')))
    except Exception as ex:
        raise common.HarnessError('cannot read literal {!r} (line {}): {}'.format(txt, node.lineno, ex))
    # cross-check against what the Python compiler made of the same text
    if float(val) != float(node.value):
        raise common.HarnessError('literal {!r} parsed inconsistently'.format(txt))
    return sign * val, ('-' if sign < 0 else '') + txt


def _seq(src, node):
    if isinstance(node, (ast.Tuple, ast.List)):
        pairs = [_literal(src, e) for e in node.elts]
    else:
        pairs = [_literal(src, node)]
    return [p[0] for p in pairs], [p[1] for p in pairs]


PROBED = [False]  # set when the tables could not be read from the source text and were probed at run time instead


def probe_tables():
    """Fallback when the rule functions are no longer if/elif chains of literals (e.g. tables moved into dictionaries): call every
    rule function on a box of keys and take what it returns.  The values are then the DOUBLES the code works with; the clause about
    the literals as written (1e-30) cannot be decided in this mode and is skipped by the callers (PROBED[0] is True)."""
    import numpy as np
    import src.quadrature_rules as qr
    entries, order = {}, []
    for fn in FAMILIES:
        f = getattr(qr, fn, None)
        if f is None:
            raise common.HarnessError('src.quadrature_rules has no ' + fn)
        keys = [(n, ) for n in range(-2, 130)] if fn in GAUSS_FAMILIES else [(p_, l_) for p_ in range(-2, 26) for l_ in range(-2, 26)]
        for k in keys:
            try:
                val = f(*k)
            except BaseException:  # noqa: BLE001 - an absent key
                continue
            if val is None:
                continue
            try:
                nodes = [Fraction(float(x)) for x in np.ravel(np.asarray(val[0], dtype=float))]
                weights = [Fraction(float(x)) for x in np.ravel(np.asarray(val[1], dtype=float))]
            except Exception:  # noqa: BLE001
                continue
            key = k[0] if fn in GAUSS_FAMILIES else k
            e = Entry(fn, key, nodes, weights, [repr(float(x)) for x in nodes], [repr(float(x)) for x in weights], True, 0)
            entries[(fn, key)] = e
            order.append((fn, key))
    if len(entries) < 20:
        raise common.HarnessError('probing the rule functions found only {} entries'.format(len(entries)))
    PROBED[0] = True
    return entries, order, []


def parse_tables(path=None):
    """-> (entries: dict (fn, key) -> Entry, order: list of (fn, key) in source order, dead: list of Entry)"""
    try:
        return _parse_tables_source(path)
    except common.HarnessError:
        return probe_tables()


def _parse_tables_source(path=None):
    path = path or rules_path()
    with open(path) as fh:
        src = fh.read()
    tree = ast.parse(src)
    entries, order, dead = {}, [], []
    for fn in tree.body:
        if not (isinstance(fn, ast.FunctionDef) and fn.name.endswith('_quadrature_rule')):
            continue
        chains = [st for st in fn.body if isinstance(st, ast.If)]
        if len(chains) != 1:
            raise common.HarnessError('{}: expected one if/elif chain, found {}'.format(fn.name, len(chains)))
        node = chains[0]
        while True:
            t = node.test
            if not (isinstance(t, ast.Compare) and len(t.ops) == 1 and isinstance(t.ops[0], ast.Eq)):
                raise common.HarnessError('{} line {}: unexpected branch test'.format(fn.name, node.lineno))
            try:
                key = ast.literal_eval(t.comparators[0])
            except Exception:
                raise common.HarnessError('{} line {}: key is not a literal'.format(fn.name, node.lineno))
            body = node.body[0]
            if isinstance(body, ast.Return):
                val, returned = body.value, True
            elif isinstance(body, ast.Expr):
                val, returned = body.value, False
            else:
                raise common.HarnessError('{} key {} line {}: unexpected branch body {}'.format(
                    fn.name, key, node.lineno, type(body).__name__))
            if not (isinstance(val, (ast.Tuple, ast.List)) and len(val.elts) == 2):
                raise common.HarnessError('{} key {}: branch value is not a (nodes, weights) pair'.format(fn.name, key))
            nodes, ntxt = _seq(src, val.elts[0])
            weights, wtxt = _seq(src, val.elts[1])
            e = Entry(fn.name, key, nodes, weights, ntxt, wtxt, returned, node.lineno)
            if (fn.name, key) in entries:
                e.dead = True  # a second branch with the same key is unreachable
                dead.append(e)
            else:
                entries[(fn.name, key)] = e
                order.append((fn.name, key))
            if node.orelse and len(node.orelse) == 1 and isinstance(node.orelse[0], ast.If):
                node = node.orelse[0]
            else:
                break
    return entries, order, dead


def harmonic(n):
    return sum(Fraction(1, i) for i in range(1, n + 1))


def moment(kind, k, fn=None):
    if kind == 'poly':
        return Fraction(1, k + 1)
    if kind == 'xlog':
        return Fraction(-1, (k + 1) ** 2)
    if kind == 'xlog1m':
        return -harmonic(k + 1) / (k + 1)
    if kind == 'xsqrt':
        return 1 / (k + Fraction(3, 2))
    if kind == 'xsqrtinv':
        return 1 / (k + Fraction(1, 2))
    if kind == 'w':
        if fn == 'gauss_sqrtinv_quadrature_rule':
            return 1 / (k + Fraction(1, 2))
        if fn == 'gauss_x_quadrature_rule':
            return Fraction(1, k + 2)
        if fn == 'gauss_log_quadrature_rule':
            return Fraction(-1, (k + 1) ** 2)
    raise common.HarnessError('no moment for {} {}'.format(kind, fn))


def function_class(fn, key):
    """Advertised class (docstring of the rule function): list of (kind, k)."""
    out = []
    if fn in PAIR_FAMILIES:
        P, L = key
        out += [('poly', k) for k in range(P + 1)]
        second = {'log_quadrature_rule': 'xlog', 'log_log_quadrature_rule': 'xlog', 'sqrt_quadrature_rule': 'xsqrt',
                  'sqrtinv_quadrature_rule': 'xsqrtinv'}[fn]
        out += [(second, k) for k in range(L + 1)]
        if fn == 'log_log_quadrature_rule':
            out += [('xlog1m', k) for k in range(L + 1)]
    else:
        # "Gauss rule of N pts that is exact ... with weight w": degree 2N-1
        out += [('w', k) for k in range(2 * key)]
    return out


def label(kind, k, fn=None):
    w = {'gauss_sqrtinv_quadrature_rule': 'x^-1/2', 'gauss_x_quadrature_rule': 'x', 'gauss_log_quadrature_rule': 'log x'}
    return {'poly': 'x^{}', 'xlog': 'x^{} log x', 'xlog1m': 'x^{} log(1-x)', 'xsqrt': 'x^{} sqrt x',
            'xsqrtinv': 'x^{} / sqrt x', 'w': 'x^{} against weight ' + w.get(fn, '?')}[kind].format(k)


def base_rules_double(entries=None):
    """Every returned table entry as double arrays: list of (fn, key, nodes, weights) (for C15)."""
    import numpy as np
    if entries is None:
        entries = parse_tables()[0]
    out = []
    for (fn, key), e in entries.items():
        out.append((fn, key, np.array([float(x) for x in e.nodes]), np.array([float(x) for x in e.weights])))
    return out
