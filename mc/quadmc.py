"""E1 for the domain quadtree: explicit-state exploration of the real src.initial_mesh.InitialMesh objects.

A state is a history of cell refinements, each naming the leaf by its geometry (x0, y0, x1, y1), replayed on a fresh
real object (UnitSquare() / PiSquare() / LShape()).  States are merged on a structural fingerprint (see fingerprint()).
The state oracles (exact tiling, squares, descent, bookkeeping, balance, vertices, gmsh) live here as well."""
import hashlib
import random
import time
from array import array
from fractions import Fraction

from . import common
from .common import digest, pmap
from .refquad import DOMAINS, DYADIC, RefQuad, mid, quadrants, ref_from_history

import src.initial_mesh as IM  # noqa: E402  (path set up by common)
from src.initial_mesh import InitialMesh  # noqa: E402

DOMS = ('UnitSquare', 'PiSquare', 'LShape')


# ---------------------------------------------------------------------------------------------------
# Horizon: a call-count cap around InitialMesh.refine (class attribute, so the recursion through self.refine and the
# loop of refine_msh_bdr are counted too).  Every iteration of the loop in refine_msh_bdr returns, asserts or calls
# refine, so a refinement-count horizon bounds it.
class Horizon(BaseException):
    pass


class _H:
    count = 0
    limit = 10**9


_orig_refine = InitialMesh.refine


def _counted_refine(self, element):
    _H.count += 1
    if _H.count > _H.limit:
        raise Horizon()
    return _orig_refine(self, element)


InitialMesh.refine = _counted_refine


class horizon:
    def __init__(self, limit):
        self.limit = limit

    def __enter__(self):
        self.saved = (_H.count, _H.limit)
        _H.count, _H.limit = 0, self.limit
        return self

    def __exit__(self, *a):
        self.used = _H.count
        _H.count, _H.limit = self.saved
        return False


# ---------------------------------------------------------------------------------------------------
def fresh(dom):
    return getattr(IM, dom)()


def xy(v):
    return (float(v.x), float(v.y))


def rect_of(e):
    a, c = e.vertices[0], e.vertices[2]
    return (float(a.x), float(a.y), float(c.x), float(c.y))


def leaf5(e):
    return rect_of(e) + (e.level, )


def leafset(m):
    return frozenset(leaf5(e) for e in m.leaf_elements)


def find_leaf(m, rect):
    rect = tuple(rect)
    for e in m.leaf_elements:
        if rect_of(e) == rect:
            return e
    raise KeyError(rect)


def build(dom, hist):
    m = fresh(dom)
    for rect in hist:
        m.refine(find_leaf(m, rect))
    return m


def build_ref(dom, hist):
    return ref_from_history(dom, hist)


def vertex_ids(m):
    """Vertex object -> canonical name: its coordinates; if two vertex objects share coordinates (a violation of
    uniqueness) the index is added so that they stay distinguishable (identity matters for the dict keys)."""
    by = {}
    for v in m.vertices:
        by.setdefault(xy(v), []).append(v)
    ids = {}
    for c, vs in by.items():
        if len(vs) == 1:
            ids[id(vs[0])] = c
        else:
            for v in vs:
                ids[id(v)] = c + (v.idx, )
    return ids


FOREST_MODE = [False]


def fingerprint(m):
    """Structural fingerprint = canonical serialisation of everything refinement reads, with vertex objects replaced
    by their coordinates:
      * the leaves (four vertex names, level),
      * the multiset of vertex names,
      * nbrs: directed edge -> element (named by vertex names, level, leaf flag) - this covers every element ever
        created because each element registers its four directed edges,
      * parent_edge: directed edge -> directed edge,
      * the private midpoint table _InitialMesh__bisect_edge: directed edge -> vertex.
    Why merging on it is sound: refine() decides only through `(b,a) in nbrs`, `(a,b) in parent_edge`,
    `nbrs[...]`, `.level`, `element.edges` (order fixed per element) and the midpoint table; bisect_edge reads the
    table and vertex coordinates; `len(self.vertices)` is read only to *assign* Vertex.idx, which no refinement
    decision reads.  Two states with equal fingerprints are therefore isomorphic under the bijection
    vertex <-> coordinates, and have the same futures up to the numbering/order of `vertices` and `elements`.  The
    oracles that do depend on that numbering (idx == position, gmsh, bookkeeping) are evaluated on the post-state of
    *every transition*, before merging.  The iteration order of the set `leaf_elements` (address dependent, not part
    of any state) is read by uniform_refine, refine_msh_bdr and gmsh only; it is treated as nondeterminism and
    explored separately (ordered_leaves)."""
    ids = vertex_ids(m)
    names = sorted(set(ids.values()))
    rank = {n: i for i, n in enumerate(names)}
    vr = {k: rank[n] for k, n in ids.items()}
    extra = []  # vertices that occur in the structures but not in m.vertices (never on intact code)

    def vid(v):
        r = vr.get(id(v))
        if r is None:
            r = vr[id(v)] = len(names) + len(extra)
            extra.append(xy(v))
        return r

    leafids = set(map(id, m.leaf_elements))
    elc = {}

    def elid(e):
        r = elc.get(id(e))
        if r is None:
            r = elc[id(e)] = (tuple(vid(v) for v in e.vertices), e.level, id(e) in leafids)
        return r

    bis = getattr(m, '_InitialMesh__bisect_edge', None)
    if bis is None or not hasattr(m, 'nbrs') or not hasattr(m, 'parent_edge'):
        # the private tables were renamed / restructured: fall back to the public element FOREST (every element ever created with
        # its vertices, level, parent and leaf flag).  Assumption of this mode (stated in the evidence): the private edge tables are
        # functions of the forest, as they are in the code this was written against.
        FOREST_MODE[0] = True
        out = (sorted((elid(e), None if e.parent is None else elid(e.parent)) for e in m.elements),
               sorted(vid(v) for v in m.vertices), names, extra)
        return digest(out)
    out = (
        sorted(elid(e) for e in m.leaf_elements),
        sorted(vid(v) for v in m.vertices),
        sorted(((vid(a), vid(b)), elid(e)) for (a, b), e in m.nbrs.items()),
        sorted(((vid(a), vid(b)), (vid(c), vid(d))) for (a, b), (c, d) in m.parent_edge.items()),
        sorted(((vid(a), vid(b)), vid(c)) for (a, b), c in bis.items()),
        names, extra,
    )
    return digest(out)


def check_signature(m):
    """Everything check_state reads (vertex list with coordinates and idx, element list with vertices, levels and
    parent pointers, the leaf set), in list order: equal signatures => equal check_state verdicts."""
    vpos = {}
    for i, v in enumerate(m.vertices):
        vpos.setdefault(id(v), i)
    epos = {}
    for i, e in enumerate(m.elements):
        epos.setdefault(id(e), i)
    fl = []
    it = [len(m.vertices), len(m.elements), len(m.leaf_elements)]
    for v in m.vertices:
        fl.append(v.x)
        fl.append(v.y)
        it.append(v.idx)
    for e in m.elements:
        it.append(len(e.vertices))
        for v in e.vertices:
            p = vpos.get(id(v), -1)
            it.append(p)
            if p < 0:
                fl.append(v.x)
                fl.append(v.y)
        it.append(e.level)
        it.append(-1 if e.parent is None else epos.get(id(e.parent), -2))
    leafpos = sorted(epos.get(id(e), -1) for e in m.leaf_elements)
    if leafpos and leafpos[0] < 0:
        return digest(('foreign leaf', id(m)))  # never equal to another signature: forces the full check
    it.extend(leafpos)
    try:
        blob = array('d', fl).tobytes() + array('q', it).tobytes()
    except (TypeError, OverflowError):
        return digest((fl, it))
    return hashlib.blake2b(blob, digest_size=16).digest()


class ordered_leaves(set):
    """A set whose iteration order is chosen by the harness: used to explore the address-dependent iteration order
    of `leaf_elements` (uniform_refine iterates a snapshot of it)."""
    key = None

    def __iter__(self):
        return iter(sorted(set.__iter__(self), key=self.key))


def with_order(m, order):
    """Replace m.leaf_elements by an ordered set. order: 'coarse-first' | 'fine-first'."""
    s = ordered_leaves(m.leaf_elements)
    if order == 'coarse-first':
        s.key = lambda e: (e.level, rect_of(e))
    elif order == 'fine-first':
        s.key = lambda e: (-e.level, rect_of(e))
    else:
        raise ValueError(order)
    m.leaf_elements = s
    return m


# ---------------------------------------------------------------------------------------------------
# State oracles
PI_TOL = 2.0**-40  # relative to the domain size, only used for 'square' on the pi square (see check_state)


def check_numbering(m):
    """The oracles that depend on the order / numbering of `vertices` and `elements` (evaluated on every transition)."""
    errs = []
    seen = {}
    for i, v in enumerate(m.vertices):
        c = xy(v)
        if c in seen:
            errs.append(('dup-vertex', {'xy': c, 'positions': (seen[c], i)}))
        seen[c] = i
        if v.idx != i:
            errs.append(('vertex-idx', {'position': i, 'idx': v.idx}))
    for e in m.leaf_elements:
        for v in e.vertices:
            i = v.idx
            if not (isinstance(i, int) and 0 <= i < len(m.vertices) and m.vertices[i] is v):
                errs.append(('vertex-not-registered', {'xy': xy(v), 'leaf': leaf5(e)}))
    # leaf_elements == childless elements, found independently from the elements list and the parent pointers
    els = list(m.elements)
    if len(set(map(id, els))) != len(els):
        errs.append(('elements-dup', None))
    parents = set(id(e.parent) for e in els if e.parent is not None)
    childless = [e for e in els if id(e) not in parents]
    if set(map(id, childless)) != set(map(id, m.leaf_elements)) or len(childless) != len(m.leaf_elements):
        errs.append(('leafbook', {'childless': len(childless), 'leaf_elements': len(m.leaf_elements)}))
    return errs


def check_gmsh(m):
    errs = []
    try:
        lines = m.gmsh().split('\n')
        i = lines.index('$Nodes')
        nv = int(lines[i + 1])
        nodes = {}
        for ln in lines[i + 2:i + 2 + nv]:
            a = ln.split()
            nodes[int(a[0])] = (float(a[1]), float(a[2]))
            if float(a[3]) != 0:
                errs.append(('gmsh-z', ln))
        if nv != len(m.vertices) or len(nodes) != nv or lines[i + 2 + nv] != '$EndNodes':
            errs.append(('gmsh-nodes', nv))
        j = lines.index('$Elements')
        ne = int(lines[j + 1])
        if ne != len(m.leaf_elements) or lines[j + 2 + ne] != '$EndElements':
            errs.append(('gmsh-elements', ne))
        got = []
        for ln in lines[j + 2:j + 2 + ne]:
            a = ln.split()
            if a[1] != '3':
                errs.append(('gmsh-type', ln))
            got.append(tuple(nodes[int(k)] for k in a[5:9]))
        exp = []
        for e in m.leaf_elements:
            x0, y0, x1, y1 = rect_of(e)
            exp.append(((x0, y0), (x1, y0), (x1, y1), (x0, y1)))
        if sorted(got) != sorted(exp):
            errs.append(('gmsh-elem', None))
    except Exception as ex:  # parse failure
        errs.append(('gmsh-parse', repr(ex)))
    return errs


def check_state(dom, m, ref=None):
    """All state invariants of C16 on the real object m.  `ref` (optional) = reference mesh for the same history:
    the leaf sets must be equal.  Returns a list of (tag, detail)."""
    errs = []
    model = RefQuad(dom)  # for the domain description only
    leaves = list(m.leaf_elements)
    L5 = [leaf5(e) for e in leaves]
    S5 = set(L5)
    if len(S5) != len(L5):
        errs.append(('dup-leaf', 'two leaves with the same square'))
    if ref is not None and S5 != ref.leaves:
        errs.append(('leafset', {'only_impl': sorted(S5 - ref.leaves)[:3], 'only_ref': sorted(ref.leaves - S5)[:3]}))
    # every leaf is an axis-parallel square, counter-clockwise from the lower left corner
    size = max(r[2] for r in model.roots) - min(r[0] for r in model.roots)
    fcache = {}

    def fr(x):
        f = fcache.get(x)
        if f is None:
            f = fcache[x] = Fraction(x)
        return f

    area = Fraction(0)
    tolF = Fraction(PI_TOL) * Fraction(size)
    for e, l5 in zip(leaves, L5):
        x0, y0, x1, y1, _ = l5
        vs = [xy(v) for v in e.vertices]
        if len(vs) != 4 or vs != [(x0, y0), (x1, y0), (x1, y1), (x0, y1)] or not (x0 < x1 and y0 < y1):
            errs.append(('not-axis-parallel', l5))
            continue
        w, h = fr(x1) - fr(x0), fr(y1) - fr(y0)
        area += w * h
        # dyadic domains: exactly square.  pi square: the double midpoints make width and height differ in the last
        # bits of the *coordinates* (the precise statement there is 'descent' below); a genuine non-square differs
        # by at least half a cell.
        if (w != h) if DYADIC[dom] else (abs(w - h) > tolF):
            errs.append(('not-square', l5))
    # exact tiling: inside the domain, areas add up, interiors pairwise disjoint
    for l5 in L5:
        if not model.inside(l5):
            errs.append(('outside', l5))
    if area != model.domain_area() and not any(t == 'not-axis-parallel' for t, _ in errs):
        errs.append(('area', {'sum': str(area), 'domain': str(model.domain_area())}))
    Ls = sorted(L5)
    for i, a in enumerate(Ls):
        for b in Ls[i + 1:]:
            if b[0] >= a[2]:
                break
            # sorted by x0 and not yet past a's right end: the open x-ranges intersect iff b is not degenerate
            if b[2] > a[0] and b[2] > b[0] and a[3] > b[1] and b[3] > a[1]:
                errs.append(('overlap', (a, b)))
    # descent: every element is the quadrant of its parent that the double midpoints prescribe, one level deeper; the
    # parentless elements are exactly the level-0 cells of the domain; every refined element has its four quadrants
    kids = {}
    rootsfound = []
    for e in m.elements:
        if e.parent is None:
            rootsfound.append(leaf5(e))
        else:
            kids.setdefault(id(e.parent), []).append(leaf5(e))
            if leaf5(e) not in quadrants(leaf5(e.parent)):
                errs.append(('descent', {'elem': leaf5(e), 'parent': leaf5(e.parent)}))
    if sorted(rootsfound) != sorted(r + (0, ) for r in model.roots):
        errs.append(('roots', rootsfound))
    byid = {id(e): e for e in m.elements}
    for pid, ks in kids.items():
        p = byid.get(pid)
        if p is None or sorted(ks) != sorted(quadrants(leaf5(p))):
            errs.append(('children', {'parent': None if p is None else leaf5(p), 'children': ks}))
    for e in leaves:
        if id(e) not in byid:
            errs.append(('leaf-not-in-elements', leaf5(e)))
    # 2:1 balance across every shared edge piece (geometric neighbours from the reference, on the real leaves)
    geo = RefQuad.from_leaves(dom, S5)
    for a, b in geo.unbalanced():
        errs.append(('unbalanced', {'coarse': a, 'fine': b}))
    errs += check_numbering(m)
    errs += check_gmsh(m)
    return errs


# ---------------------------------------------------------------------------------------------------
# BFS engine (two-phase per level: expand all frontier states, dedupe, then visit the new states)
_G = {}


def trans_check(dom, h, op, m2, ref_before):
    """Transition oracle: post-state leaf set == reference refine (least balanced refinement containing the request),
    the model's fixpoint being computed in three orders at shallow depth."""
    r = ref_before.copy()
    r.refine_rect(op, lifo=True)
    got = leafset(m2)
    if got != r.leaves:
        return ('transition', {'only_impl': sorted(got - r.leaves)[:4], 'only_ref': sorted(r.leaves - got)[:4]})
    if len(h) <= 2:
        r2 = ref_before.copy()
        r2.refine_naive(r2.find(op))
        r3 = ref_before.copy()
        r3.refine_rect(op, lifo=False)
        if r2.leaves != r.leaves or r3.leaves != r.leaves:
            raise common.HarnessError('reference quadtree closure depends on the processing order')
    return None


def _expand(h):
    dom = _G['dom']
    m = build(dom, h)
    ref = build_ref(dom, h)
    res = []
    for op in sorted(rect_of(e) for e in m.leaf_elements):
        h2 = h + (op, )
        try:
            with horizon(_G['hlimit']):
                m2 = build(dom, h2)
        except (Exception, Horizon) as ex:
            res.append((op, None, None, [('refine-raised', repr(ex))]))
            continue
        viols = []
        v = trans_check(dom, h, op, m2, ref)
        if v is not None:
            viols.append(v)
        viols += check_numbering(m2)
        res.append((op, fingerprint(m2), digest(sorted(leafset(m2))), viols))
    return res


def _visit(h):
    dom = _G['dom']
    m = build(dom, h)
    ref = build_ref(dom, h)
    return _G['state_fn'](dom, h, m, ref)


class Stats:
    def __init__(self):
        self.states = 0
        self.transitions = 0
        self.leafsets = 0
        self.per_dom = {}
        self.extra = {}
        self.samples = []

    def add_extra(self, d):
        for k, v in (d or {}).items():
            if isinstance(v, (int, float)):
                self.extra[k] = self.extra.get(k, 0) + v
            elif isinstance(v, dict):
                t = self.extra.setdefault(k, {})
                for kk, vv in v.items():
                    t[kk] = t.get(kk, 0) + vv
            elif isinstance(v, list):
                self.extra.setdefault(k, []).extend(v)


def explore(ctx, dom, depth, state_fn, on_violation, hlimit=5000, stats=None, collect=None):
    """BFS over all refine-histories of domain `dom` up to `depth`.
    state_fn(dom, hist, mesh, ref) -> (violations, extra) once per distinct state; the transition oracle and the
    numbering-dependent oracles on every transition.  on_violation(dom, hist, (tag, detail))."""
    st = stats or Stats()
    _G.update(dom=dom, state_fn=state_fn, hlimit=hlimit)
    t0 = time.time()
    m0 = build(dom, ())
    seen = {fingerprint(m0)}
    leafsets = {digest(sorted(leafset(m0)))}
    if fingerprint(build(dom, ())) != fingerprint(m0):
        raise common.HarnessError('non-deterministic build of ' + dom)
    viols, extra = _visit(())
    st.add_extra(extra)
    for v in viols:
        on_violation(dom, (), v)
    if collect is not None:
        collect.append(())
    frontier = [()]
    n_states, n_trans = 1, 0
    per_depth = {0: (1, 0)}
    reached = 0
    for d in range(depth):
        if not frontier:
            break
        rng = random.Random(ctx.seed * 1000003 + d)
        fr = list(frontier)
        rng.shuffle(fr)  # processing order must not matter for any count
        results = pmap(_expand, fr, ctx.jobs)
        new = {}
        for h, res in zip(fr, results):
            for op, fpd, lkd, viols in res:
                n_trans += 1
                for v in viols:
                    on_violation(dom, h + (op, ), v)
                if fpd is None:
                    continue
                leafsets.add(lkd)
                if fpd not in seen:
                    h2 = h + (op, )
                    if fpd not in new or h2 < new[fpd]:
                        new[fpd] = h2  # representative independent of the shuffle
        seen.update(new)
        newl = sorted(new.values())
        # determinism self-check: a representative rebuilt in another process must give the same fingerprint
        if d < 3 and newl:
            probe = newl[::max(1, len(newl) // 64)]
            fps = pmap(_fp_of, probe, ctx.jobs)
            inv = {v: k for k, v in new.items()}
            if any(inv[h] != f for h, f in zip(probe, fps)):
                raise common.HarnessError('non-deterministic fingerprint on ' + dom)
        vres = pmap(_visit, newl, ctx.jobs)
        for h, (viols, extra) in zip(newl, vres):
            st.add_extra(extra)
            for v in viols:
                on_violation(dom, h, v)
        n_states += len(newl)
        if collect is not None:
            collect.extend(newl)
        frontier = newl
        reached = d + 1
        per_depth[d + 1] = (n_states, n_trans)
    st.states += n_states
    st.transitions += n_trans
    st.leafsets += len(leafsets)
    st.per_dom[dom] = {'depth': reached, 'states': n_states, 'transitions': n_trans, 'leafsets': len(leafsets),
                       'cumulative_states_transitions_per_depth': {str(k): list(v) for k, v in per_depth.items()},
                       'wall_s': round(time.time() - t0, 1)}
    if frontier:
        st.samples.append({'domain': dom, 'history': [list(r) for r in frontier[0]]})
        st.samples.append({'domain': dom, 'history': [list(r) for r in frontier[-1]]})
    return st


def _fp_of(h):
    return fingerprint(build(_G['dom'], h))


def random_history(dom, seed, steps, max_leaves=600):
    """Seeded random walk biased towards deep cells (supplementary root; never counted as exhaustive)."""
    rng = random.Random(seed)
    m = fresh(dom)
    h = []
    for _ in range(steps):
        if len(m.leaf_elements) > max_leaves:
            break
        rects = sorted((leaf5(e) for e in m.leaf_elements), key=lambda r: (-r[4], r))
        i = min(int(rng.expovariate(1.0) * len(rects) / 4), len(rects) - 1) if rng.random() < 0.5 \
            else rng.randrange(len(rects))
        r = rects[i][:4]
        h.append(r)
        m.refine(find_leaf(m, r))
    return tuple(h)
