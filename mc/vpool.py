"""E3a: controlled scheduler - a fork-faithful virtual process pool.

`install()` replaces `multiprocessing.Pool` / `multiprocessing.cpu_count` (module attributes, so that code importing them
by name afterwards is controlled too) and the `mp` attribute of the repo modules by a small fake module.  The harness'
own parallelism must use common.REAL_POOL / common.pmap, which were saved before anything is patched here.

Fork-faithful: `Pool(n)` really os.fork()s n worker processes at construction, each connected to the parent by two
pipes, so every worker owns a copy of the parent's memory exactly as of `Pool(...)` - the code under test hands its
operands over through module globals assigned just before the pool is created.  The parent splits the iterable into
chunks exactly as multiprocessing.pool does (chunks of `chunksize` consecutive items; map's default chunk size rule)
and sends chunk k to the worker chosen by the SCHEDULE, a function chunk index -> worker index supplied by the
explorer (chunks are numbered consecutively over all calls made on one pool).  Workers are independent processes
without shared memory, so the interleaving between different workers cannot influence a result; the parent therefore
runs the chunks one after the other (deterministic), each on its scheduled worker.  Results are delivered in
submission order by map/imap/starmap/apply and in the completion order selected by `CTL.unordered_rank` for the
unordered APIs; the log tells the explorer how many completion orders exist so that it can enumerate all of them.

Feasible schedules of the real pool (one shared in-order task queue, identical workers) = functions chunk -> worker
whose per-worker order is the submission order, up to renaming of workers = set partitions of the chunk sequence into
at most `n` blocks = restricted growth strings (`set_partitions`)."""
import itertools
import multiprocessing
import multiprocessing.pool
import os
import pickle
import select
import struct
import sys
import traceback
import types
import weakref

from .common import HarnessError

_REAL_MP_POOL = multiprocessing.Pool
_REAL_MP_CPU_COUNT = multiprocessing.cpu_count
_REAL_POOL_CLASS_INIT = multiprocessing.pool.Pool.__init__

WORKER_TIMEOUT_S = 600.0


# =====================================================================================================
# enumeration helpers
def set_partitions(n, kmax):
    """All restricted growth strings of length n with at most kmax distinct values, in lexicographic order:
    a[0] = 0, a[i] <= max(a[:i]) + 1, max(a) < kmax.  a[k] = worker (block) of chunk k."""
    if n == 0:
        yield ()
        return
    if kmax < 1:
        return
    a = [0] * n

    def rec(i, mx):
        if i == n:
            yield tuple(a)
            return
        for v in range(min(mx + 1, kmax - 1) + 1):
            a[i] = v
            yield from rec(i + 1, max(mx, v))

    yield from rec(1, 0)


def count_set_partitions(n, kmax):
    """Sum of Stirling numbers S(n,1..kmax) (independent count, used to cross-check the enumerator)."""
    if n == 0:
        return 1
    S = [[0] * (n + 1) for _ in range(n + 1)]
    S[0][0] = 1
    for i in range(1, n + 1):
        for k in range(1, i + 1):
            S[i][k] = k * S[i - 1][k] + S[i - 1][k - 1]
    return sum(S[n][1:min(kmax, n) + 1])


def completion_orders(workers):
    """All completion orders (permutations of chunk indices) compatible with a chunk -> worker assignment: the chunks
    of one worker complete in submission order, chunks of different workers in any order.  Lexicographic; the first
    one is the submission order."""
    chains = {}
    for k, w in enumerate(workers):
        chains.setdefault(w, []).append(k)
    chains = [c for _, c in sorted(chains.items())]
    n = len(workers)
    pos = [0] * len(chains)
    cur = []

    def rec():
        if len(cur) == n:
            yield tuple(cur)
            return
        heads = sorted((c[pos[i]], i) for i, c in enumerate(chains) if pos[i] < len(c))
        for k, i in heads:
            pos[i] += 1
            cur.append(k)
            yield from rec()
            cur.pop()
            pos[i] -= 1

    yield from rec()


def count_completion_orders(workers):
    from math import factorial
    cnt = {}
    for w in workers:
        cnt[w] = cnt.get(w, 0) + 1
    r = factorial(len(workers))
    for c in cnt.values():
        r //= factorial(c)
    return r


def split_chunks(items, chunksize):
    """multiprocessing.pool.Pool._get_tasks: consecutive runs of `chunksize` items."""
    it = iter(items)
    out = []
    while True:
        x = tuple(itertools.islice(it, chunksize))
        if not x:
            return out
        out.append(x)


def map_default_chunksize(n_items, n_workers):
    """Pool._map_async: chunksize, extra = divmod(len(iterable), len(pool) * 4); if extra: chunksize += 1."""
    if n_items == 0:
        return 0
    chunksize, extra = divmod(n_items, n_workers * 4)
    if extra:
        chunksize += 1
    return chunksize


# =====================================================================================================
# controller
class Controller:
    def __init__(self):
        self.installed = False
        self.reset()
        self.forks = 0
        self.reaped = 0
        self.bad_exit = 0
        self.pools = 0
        self.uncontrolled = 0  # genuine multiprocessing pools created inside a window
        self.in_window = 0
        self.live = {}  # id -> weakref of live pools of this process
        self.parent_fds = set()  # parent-side pipe ends of live pools (closed in freshly forked workers)
        self.patched_modules = []

    def reset(self):
        self.cpu = 1
        self.assign = None  # None: round robin; sequence or callable(k, n) otherwise
        self.unordered_rank = 0
        self.record_results = False
        self.log = []

    def configure(self, cpu, assign=None, unordered_rank=0, record_results=False):
        self.cpu = int(cpu)
        self.assign = assign
        self.unordered_rank = unordered_rank
        self.record_results = record_results
        self.log = []

    def cpu_count(self):
        return self.cpu

    def worker_of(self, k, n):
        a = self.assign
        if a is None:
            w = k % n
        elif callable(a):
            w = a(k, n)
        else:
            if k >= len(a):
                raise HarnessError('schedule has {} entries but chunk {} was submitted'.format(len(a), k))
            w = a[k]
        if not (0 <= w < n):
            raise HarnessError('schedule sends chunk {} to worker {} of a pool of {}'.format(k, w, n))
        return w

    def reap(self):
        """Shut down every pool of this process that is still alive (leaked references, pools never closed)."""
        for ref in list(self.live.values()):
            p = ref()
            if p is not None:
                p._shutdown()
        self.live = {k: r for k, r in self.live.items() if r() is not None and r()._workers}

    class _Window:
        def __init__(self, ctl):
            self.ctl = ctl

        def __enter__(self):
            self.ctl.in_window += 1
            return self.ctl

        def __exit__(self, *a):
            self.ctl.in_window -= 1
            self.ctl.reap()
            return False

    def window(self):
        """with CTL.window(): <call into the code under test>  - counts uncontrolled pools, reaps afterwards."""
        return Controller._Window(self)


CTL = Controller()


# =====================================================================================================
# wire protocol (raw fds, length-prefixed pickles; no buffered file objects, hence nothing to flush or to leak)
def _send(fd, data):
    data = struct.pack('<Q', len(data)) + data
    mv = memoryview(data)
    while mv:
        n = os.write(fd, mv)
        mv = mv[n:]


def _recv_exact(fd, n):
    parts = []
    while n:
        b = os.read(fd, min(n, 1 << 20))
        if not b:
            return None
        parts.append(b)
        n -= len(b)
    return b''.join(parts)


def _recv(fd):
    h = _recv_exact(fd, 8)
    if h is None:
        return None
    return _recv_exact(fd, struct.unpack('<Q', h)[0])


class RemoteTraceback(Exception):
    def __init__(self, tb):
        self.tb = tb

    def __str__(self):
        return self.tb


def _worker_main(rfd, wfd, initializer, initargs):
    code = 0
    try:
        if initializer is not None:
            initializer(*initargs)
        while True:
            msg = _recv(rfd)
            if msg is None:
                break
            if msg == b'':  # explicit shutdown message
                break
            try:
                kind, func, payload = pickle.loads(msg)
                if kind == 'map':
                    res = list(map(func, payload))
                elif kind == 'starmap':
                    res = list(itertools.starmap(func, payload))
                else:
                    args, kwds = payload
                    res = func(*args, **kwds)
                out = (True, res)
            except BaseException as ex:  # noqa: BLE001 - everything is reported to the parent, nothing hangs
                out = (False, ex, traceback.format_exc())
            try:
                data = pickle.dumps(out, pickle.HIGHEST_PROTOCOL)
            except BaseException as ex2:  # noqa: BLE001
                tb = out[2] if not out[0] else traceback.format_exc()
                data = pickle.dumps((False, RuntimeError('worker result cannot be pickled: {!r}'.format(ex2)), tb))
            _send(wfd, data)
    except BaseException:  # noqa: BLE001
        code = 1
    finally:
        os._exit(code)


class _Worker:
    __slots__ = ('pid', 'wfd', 'rfd', 'ntasks')


# =====================================================================================================
class _Result:
    """AsyncResult / MapResult stand-in (everything is computed eagerly)."""
    def __init__(self, ok, value, callback=None, error_callback=None):
        self._ok, self._value = ok, value
        if ok and callback is not None:
            callback(value)
        if not ok and error_callback is not None:
            error_callback(value)

    def ready(self):
        return True

    def successful(self):
        return self._ok

    def wait(self, timeout=None):
        return None

    def get(self, timeout=None):
        if self._ok:
            return self._value
        raise self._value


class _Iter:
    """IMapIterator stand-in: yields the items of the chunks; a failed chunk raises when it is reached."""
    def __init__(self, chunk_results):
        self._it = self._gen(chunk_results)

    @staticmethod
    def _gen(chunk_results):
        for ok, val in chunk_results:
            if not ok:
                raise val
            yield from val

    def __iter__(self):
        return self

    def __next__(self):
        return next(self._it)

    def next(self, timeout=None):
        return next(self._it)


class VPool:
    """Drop-in for multiprocessing.Pool, see module docstring."""
    def __init__(self, processes=None, initializer=None, initargs=(), maxtasksperchild=None, context=None):
        if processes is None:
            processes = CTL.cpu_count()
        if processes < 1:
            raise ValueError('Number of processes must be at least 1')
        if initializer is not None and not callable(initializer):
            raise TypeError('initializer must be a callable')
        self._owner = os.getpid()
        self._n = int(processes)
        self._workers = []
        self._state = 'RUN'
        self._next_chunk = 0
        self._rec = {'n': self._n, 'calls': [], 'maxtasksperchild_ignored': maxtasksperchild is not None}
        CTL.log.append(self._rec)
        CTL.pools += 1
        CTL.live[id(self)] = weakref.ref(self)
        try:
            sys.stdout.flush()
            sys.stderr.flush()
        except Exception:  # pragma: no cover
            pass
        try:
            for _ in range(self._n):
                self._fork_one(initializer, initargs)
        except BaseException:
            self._shutdown()
            raise

    # ---- processes ---------------------------------------------------------------------------------
    def _fork_one(self, initializer, initargs):
        c_r, p_w = os.pipe()  # parent -> worker
        p_r, c_w = os.pipe()  # worker -> parent
        pid = os.fork()
        if pid == 0:
            try:
                os.close(p_w)
                os.close(p_r)
                # pipe ends of earlier workers / other live pools were inherited: close them, so that a worker never
                # keeps another worker's pipe open (EOF detection, no fd growth inside long-lived workers)
                for fd in list(CTL.parent_fds):
                    try:
                        os.close(fd)
                    except OSError:
                        pass
            except BaseException:  # noqa: BLE001
                os._exit(1)
            _worker_main(c_r, c_w, initializer, initargs)
            os._exit(1)  # not reached
        os.close(c_r)
        os.close(c_w)
        w = _Worker()
        w.pid, w.wfd, w.rfd, w.ntasks = pid, p_w, p_r, 0
        CTL.parent_fds.add(p_w)
        CTL.parent_fds.add(p_r)
        CTL.forks += 1
        self._workers.append(w)

    def _shutdown(self):
        """Explicit stop message to every worker, close the pipes, reap.  Idempotent; a no-op in forked copies."""
        if os.getpid() != self._owner:
            return
        ws, self._workers = self._workers, []
        for w in ws:
            try:
                _send(w.wfd, b'')
            except OSError:
                pass
        for w in ws:
            for fd in (w.wfd, w.rfd):
                try:
                    os.close(fd)
                except OSError:
                    pass
                CTL.parent_fds.discard(fd)
        for w in ws:
            try:
                _, st = os.waitpid(w.pid, 0)
                CTL.reaped += 1
                if st != 0:
                    CTL.bad_exit += 1
            except ChildProcessError:  # pragma: no cover
                pass
        CTL.live.pop(id(self), None)
        if self._state == 'RUN':
            self._state = 'CLOSE'

    def close(self):
        # the real close() lets the workers drain and exit; all our work is synchronous, so they can stop right away
        self._state = 'CLOSE'
        self._shutdown()

    def terminate(self):
        self._state = 'TERMINATE'
        self._shutdown()

    def join(self):
        if self._state == 'RUN':
            raise ValueError('Pool is still running')
        self._shutdown()

    def __enter__(self):
        self._check_running()
        return self

    def __exit__(self, *a):
        self.terminate()

    def __del__(self):
        try:
            self._shutdown()
        except BaseException:  # noqa: BLE001
            pass

    def _check_running(self):
        if self._state != 'RUN':
            raise ValueError('Pool not running')

    # ---- execution ---------------------------------------------------------------------------------
    def _run_chunk(self, w, kind, func, payload):
        """Returns (True, value) or (False, exception)."""
        try:
            msg = pickle.dumps((kind, func, payload), pickle.HIGHEST_PROTOCOL)
        except Exception as ex:  # the real task handler reports a put() failure as the job's error
            return (False, ex)
        wk = self._workers[w]
        wk.ntasks += 1
        try:
            _send(wk.wfd, msg)
            po = select.poll()  # not select(): descriptors may exceed FD_SETSIZE when many pools are alive
            po.register(wk.rfd, select.POLLIN | select.POLLHUP | select.POLLERR)
            if not po.poll(WORKER_TIMEOUT_S * 1000):
                try:
                    os.kill(wk.pid, 9)
                except OSError:
                    pass
                raise HarnessError('virtual pool worker {} did not answer within {} s'.format(w, WORKER_TIMEOUT_S))
            data = _recv(wk.rfd)
        except OSError as ex:
            return (False, RuntimeError('virtual pool: worker {} is gone ({!r})'.format(w, ex)))
        if data is None:
            return (False, RuntimeError('virtual pool: worker {} died while executing a task'.format(w)))
        out = pickle.loads(data)
        if out[0]:
            return (True, out[1])
        ex = out[1]
        try:
            ex.__cause__ = RemoteTraceback(out[2])
        except Exception:  # pragma: no cover
            pass
        return (False, ex)

    def _dispatch(self, api, kind, func, chunks, chunksize, unordered=False):
        self._check_running()
        if os.getpid() != self._owner:
            raise HarnessError('virtual pool used from a forked copy')
        call = {'api': api, 'chunksize': chunksize, 'chunks': [list(c) if kind != 'apply' else None for c in chunks],
                'first_chunk': self._next_chunk, 'workers': [], 'fresh': [], 'unordered': unordered}
        self._rec['calls'].append(call)
        results = []
        for c in chunks:
            k = self._next_chunk
            self._next_chunk += 1
            w = CTL.worker_of(k, self._n)
            call['workers'].append(w)
            call['fresh'].append(self._workers[w].ntasks == 0)
            results.append(self._run_chunk(w, kind, func, c))
        if CTL.record_results:
            call['results'] = [r[1] if r[0] else ('raised', repr(r[1])) for r in results]
        if unordered:
            call['n_orders'] = count_completion_orders(call['workers'])
            rank = CTL.unordered_rank
            if rank >= call['n_orders']:
                raise HarnessError('completion order {} requested, only {} exist'.format(rank, call['n_orders']))
            order = next(itertools.islice(completion_orders(call['workers']), rank, None))
            call['order'] = list(order)
            results = [results[i] for i in order]
        return results

    @staticmethod
    def _first_error(results):
        for r in results:
            if not r[0]:
                return r[1]
        return None

    def _map(self, api, kind, func, iterable, chunksize):
        if not hasattr(iterable, '__len__'):
            iterable = list(iterable)
        if chunksize is None:
            chunksize = map_default_chunksize(len(iterable), self._n)
        if len(iterable) == 0:
            chunksize = 0
        chunks = split_chunks(iterable, chunksize) if chunksize else []
        results = self._dispatch(api, kind, func, chunks, chunksize)
        err = self._first_error(results)
        if err is not None:
            return (False, err)
        return (True, [x for _, val in results for x in val])

    def map(self, func, iterable, chunksize=None):
        ok, val = self._map('map', 'map', func, iterable, chunksize)
        if not ok:
            raise val
        return val

    def starmap(self, func, iterable, chunksize=None):
        ok, val = self._map('starmap', 'starmap', func, iterable, chunksize)
        if not ok:
            raise val
        return val

    def map_async(self, func, iterable, chunksize=None, callback=None, error_callback=None):
        ok, val = self._map('map_async', 'map', func, iterable, chunksize)
        return _Result(ok, val, callback, error_callback)

    def starmap_async(self, func, iterable, chunksize=None, callback=None, error_callback=None):
        ok, val = self._map('starmap_async', 'starmap', func, iterable, chunksize)
        return _Result(ok, val, callback, error_callback)

    def _imap(self, api, func, iterable, chunksize, unordered):
        self._check_running()
        if chunksize < 1:
            raise ValueError('Chunksize must be 1+, not {0:n}'.format(chunksize))
        chunks = split_chunks(iterable, chunksize)
        return _Iter(self._dispatch(api, 'map', func, chunks, chunksize, unordered=unordered))

    def imap(self, func, iterable, chunksize=1):
        return self._imap('imap', func, iterable, chunksize, False)

    def imap_unordered(self, func, iterable, chunksize=1):
        return self._imap('imap_unordered', func, iterable, chunksize, True)

    def apply_async(self, func, args=(), kwds={}, callback=None, error_callback=None):  # noqa: B006
        (ok, val), = self._dispatch('apply_async', 'apply', func, [(tuple(args), dict(kwds))], 1)
        return _Result(ok, val, callback, error_callback)

    def apply(self, func, args=(), kwds={}):  # noqa: B006
        (ok, val), = self._dispatch('apply', 'apply', func, [(tuple(args), dict(kwds))], 1)
        if not ok:
            raise val
        return val


# =====================================================================================================
# installation
class FakeMP(types.ModuleType):
    """Stand-in for the `multiprocessing` module as seen by the code under test: Pool and cpu_count are the
    controlled ones, every other attribute is the genuine one."""
    def __init__(self):
        super().__init__('multiprocessing')
        self.Pool = VPool
        self.cpu_count = CTL.cpu_count

    def __getattr__(self, name):
        return getattr(multiprocessing, name)


FAKE_MP = FakeMP()

REPO_MODULES = ('src.single_layer', 'src.initial_potential', 'src.error_estimator')


def _counting_pool_init(self, *a, **k):
    if CTL.in_window:
        CTL.uncontrolled += 1
    return _REAL_POOL_CLASS_INIT(self, *a, **k)


def install(module_names=REPO_MODULES, import_modules=True):
    """Patch multiprocessing globally (this process and everything forked from it afterwards) and the repo modules.
    Safe to call repeatedly (e.g. again after further repo modules were imported)."""
    import importlib
    multiprocessing.Pool = VPool
    multiprocessing.cpu_count = CTL.cpu_count
    multiprocessing.pool.Pool.__init__ = _counting_pool_init
    CTL.installed = True
    for name in module_names:
        if import_modules:
            mod = importlib.import_module(name)
        else:
            mod = sys.modules.get(name)
            if mod is None:
                continue
        patch_module(mod)
    return CTL


def patch_module(mod):
    for attr, val in list(vars(mod).items()):
        if val is multiprocessing or isinstance(val, FakeMP):
            setattr(mod, attr, FAKE_MP)
        elif val is _REAL_MP_POOL or val is multiprocessing.pool.Pool:
            setattr(mod, attr, VPool)
        elif val is _REAL_MP_CPU_COUNT or val is os.cpu_count:
            setattr(mod, attr, CTL.cpu_count)
    if mod.__name__ not in CTL.patched_modules:
        CTL.patched_modules.append(mod.__name__)


def uninstall():
    multiprocessing.Pool = _REAL_MP_POOL
    multiprocessing.cpu_count = _REAL_MP_CPU_COUNT
    multiprocessing.pool.Pool.__init__ = _REAL_POOL_CLASS_INIT
    for name in CTL.patched_modules:
        mod = sys.modules.get(name)
        if mod is None:
            continue
        for attr, val in list(vars(mod).items()):
            if isinstance(val, FakeMP):
                setattr(mod, attr, multiprocessing)
    CTL.installed = False


# =====================================================================================================
# resource accounting / self test
def open_fds():
    return len(os.listdir('/proc/self/fd'))


def children_alive():
    """pids of live or zombie children of this process (from /proc)."""
    me = os.getpid()
    out = []
    try:
        with open('/proc/{}/task/{}/children'.format(me, me)) as fh:
            out = [int(x) for x in fh.read().split()]
    except OSError:  # pragma: no cover
        pass
    return out


def _st_sq(x):
    return x * x


def _st_add(a, b):
    return a + b


def _st_fail(x):
    if x == 3:
        raise KeyError('boom')
    return x


def _st_pid_and_global(x):
    return (os.getpid(), _ST_GLOBAL.get('v'), x)


def _st_die(x):
    os._exit(7)


_ST_GLOBAL = {}


def selftest(n_pools=200):
    """Exercises the pool against known answers: chunking, schedule obedience, fork-time snapshot of globals, order
    of unordered results, exception propagation, worker death, shutdown/reaping, fd accounting.  HarnessError on
    any discrepancy.  Returns a dict of counters.  Must run in a process without other children."""
    if not CTL.installed:
        raise HarnessError('virtual pool self-test needs install() first')
    saved = (CTL.cpu, CTL.assign, CTL.unordered_rank, CTL.record_results, CTL.log)
    fds0 = open_fds()
    forks0, reaped0, bad0 = CTL.forks, CTL.reaped, CTL.bad_exit
    kids0 = set(children_alive())

    def fail(msg):
        raise HarnessError('virtual pool self-test: ' + msg)

    try:
        # enumerators
        for n in range(0, 8):
            for k in range(1, 9):
                ps = list(set_partitions(n, k))
                if len(ps) != count_set_partitions(n, k) or len(set(ps)) != len(ps):
                    fail('set partition count n={} k={}'.format(n, k))
        if [len(list(set_partitions(m, 16))) for m in (3, 4, 5, 6)] != [5, 15, 52, 203]:
            fail('Bell numbers')
        for wk in ((0, 0, 0), (0, 1, 0, 1), (0, 1, 2, 0), (0, 1, 2, 3)):
            os_ = list(completion_orders(wk))
            if len(os_) != count_completion_orders(wk) or len(set(os_)) != len(os_) or os_[0] != tuple(range(len(wk))):
                fail('completion orders of {}'.format(wk))
        # chunking against the genuine implementation
        from multiprocessing.pool import Pool as RealPool
        for n in (0, 1, 5, 17, 34):
            for cs in (1, 2, 3, 7, 40):
                real = [t[1] for t in RealPool._get_tasks(_st_sq, range(n), cs)]
                if real != split_chunks(range(n), cs):
                    fail('chunking differs from multiprocessing for n={} chunksize={}'.format(n, cs))
        # schedule obedience + fork snapshot + per-worker persistence
        _ST_GLOBAL['v'] = 'before'
        CTL.configure(cpu=3, assign=(0, 1, 0, 2, 1), record_results=True)
        p = multiprocessing.Pool()
        _ST_GLOBAL['v'] = 'after'  # must not be seen by the workers
        out = p.map(_st_pid_and_global, range(10), 2)
        p.close()
        p.join()
        pids = [o[0] for o in out]
        if [o[2] for o in out] != list(range(10)) or any(o[1] != 'before' for o in out):
            fail('map order / fork-time snapshot')
        if not (pids[0] == pids[1] == pids[4] == pids[5] and pids[2] == pids[3] == pids[8] == pids[9]
                and pids[6] == pids[7] and len(set(pids)) == 3 and os.getpid() not in pids):
            fail('schedule not obeyed: {}'.format(pids))
        call = CTL.log[-1]['calls'][0]
        if call['chunks'] != [[0, 1], [2, 3], [4, 5], [6, 7], [8, 9]] or call['workers'] != [0, 1, 0, 2, 1] \
                or call['fresh'] != [True, True, False, True, False]:
            fail('log')
        # default chunk size of map, imap, two calls on one pool, context manager
        CTL.configure(cpu=2, assign=lambda k, n: k % n)
        with multiprocessing.Pool(2) as p:
            a = p.map(_st_sq, range(11))
            b = list(p.imap(_st_sq, range(5)))
            c = p.starmap(_st_add, [(1, 2), (3, 4)])
            d = p.apply(_st_add, (1, 2))
            e = p.apply_async(_st_add, (5, 6)).get()
            f = p.map_async(_st_sq, [3]).get()
        rec = CTL.log[-1]
        if a != [x * x for x in range(11)] or b != [0, 1, 4, 9, 16] or c != [3, 7] or d != 3 or e != 11 or f != [9]:
            fail('values')
        if rec['calls'][0]['chunksize'] != 2 or len(rec['calls'][0]['chunks']) != 6 or rec['calls'][1]['chunksize'] != 1 \
                or rec['calls'][1]['first_chunk'] != 6:
            fail('default chunk sizes / chunk numbering across calls')
        try:
            p.map(_st_sq, [1])
            fail('map on a terminated pool did not raise')
        except ValueError:
            pass
        # unordered: every completion order is produced
        seen = set()
        CTL.configure(cpu=2, assign=(0, 1, 0, 1))
        p = multiprocessing.Pool(2)
        list(p.imap_unordered(_st_sq, range(4)))
        n_orders = CTL.log[-1]['calls'][0]['n_orders']
        p.terminate()
        for r in range(n_orders):
            CTL.configure(cpu=2, assign=(0, 1, 0, 1), unordered_rank=r)
            seen.add(tuple(multiprocessing.Pool(2).imap_unordered(_st_sq, range(4))))
        if n_orders != 6 or len(seen) != 6 or (0, 1, 4, 9) not in seen or (1, 0, 4, 9) not in seen or (4, 0, 1, 9) in seen:
            fail('completion orders of imap_unordered: {}'.format(sorted(seen)))
        # exceptions propagate (map: raises; imap: raises when the failing chunk is reached); no hang on worker death
        CTL.configure(cpu=2)
        p = multiprocessing.Pool(2)
        try:
            p.map(_st_fail, range(6), 1)
            fail('exception not propagated by map')
        except KeyError as ex:
            if 'boom' not in str(ex) or not isinstance(ex.__cause__, RemoteTraceback):
                fail('exception payload')
        it = p.imap(_st_fail, range(6), 2)
        got = []
        try:
            for x in it:
                got.append(x)
            fail('exception not propagated by imap')
        except KeyError:
            pass
        if got != [0, 1]:
            fail('imap items before the failing chunk: {}'.format(got))
        try:
            p.map(lambda x: x, [1])
            fail('unpicklable function accepted')
        except Exception as ex:  # PicklingError / AttributeError like the genuine pool
            if isinstance(ex, HarnessError):
                raise
        try:
            p.map(_st_die, [1])
            fail('worker death not reported')
        except RuntimeError:
            pass
        p.close()
        died = 1
        # many pools: garbage-collected, closed, terminated, context-managed, leaked into a list and reaped
        leaked = []
        for i in range(n_pools):
            CTL.configure(cpu=1 + i % 5)
            mode = i % 4
            if mode == 0:
                if list(multiprocessing.Pool(CTL.cpu).imap(_st_sq, range(3))) != [0, 1, 4]:
                    fail('values (gc mode)')
            elif mode == 1:
                with multiprocessing.Pool() as p:
                    p.map(_st_sq, range(3))
            elif mode == 2:
                p = multiprocessing.Pool()
                p.map(_st_sq, range(3))
                p.close()
                p.join()
            else:
                p = multiprocessing.Pool()
                leaked.append(p)
        with CTL.window():
            pass  # reaps the leaked ones
        if any(p._workers for p in leaked):
            fail('reap() left workers')
        del leaked, p, it
    finally:
        CTL.cpu, CTL.assign, CTL.unordered_rank, CTL.record_results, CTL.log = saved
    forks, reaped, bad = CTL.forks - forks0, CTL.reaped - reaped0, CTL.bad_exit - bad0
    if forks != reaped:
        fail('{} workers forked, {} reaped'.format(forks, reaped))
    if bad != died:
        fail('{} workers ended with a non-zero status (expected {})'.format(bad, died))
    kids = set(children_alive()) - kids0
    if kids:
        fail('child processes left behind: {}'.format(sorted(kids)))
    fds1 = open_fds()
    if fds1 != fds0:
        fail('file descriptors leaked: {} -> {}'.format(fds0, fds1))
    return {'pools': n_pools + 20, 'forks': forks, 'reaped': reaped, 'fds_before': fds0, 'fds_after': fds1}
