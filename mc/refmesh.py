"""Reference model of the space-time mesh, written from the property text (C02/C10/C06/C19), not from mesh.py.

A mesh is a set of leaves (t0, t1, x0, x1, level_t, level_x).  All coordinates are IEEE doubles and every
comparison below is an exact comparison of doubles; "bisection" is the double midpoint (a+b)/2 (DESIGN 3.2:
on dyadic grids this is the rational midpoint; on grids such as 0.3/0.8 it is what 'the middle' means in
floating point, the two halves still share the end point exactly).  Exact areas use Fractions.

Adjacency: two leaves are neighbours across an edge iff they share a piece of positive length of it; on a
glued mesh the lines x = X0 and x = L are identified.

bisect(e, ax): replace e by its halves, then the least fixpoint of
    "a leaf B with an edge-neighbour N such that level_N[ax] >= level_B[ax] + 2 is bisected in ax".
Forced moves are monotone, so the fixpoint is unique (smallest 1-irregular refinement in direction ax).
"""
from fractions import Fraction


def mid(a, b):
    return (a + b) / 2


class RefMesh:
    def __init__(self, glue, xs, ts):
        self.glue = bool(glue)
        self.xs = tuple(float(x) for x in xs)
        self.ts = tuple(float(t) for t in ts)
        self.X0, self.L = self.xs[0], self.xs[-1]
        self.T0, self.T = self.ts[0], self.ts[-1]
        self.leaves = set()
        self.by = ({}, {}, {}, {})  # index: coordinate value of t0, t1, x0, x1 -> set of leaves
        for j in range(len(self.ts) - 1):
            for i in range(len(self.xs) - 1):
                self._add((self.ts[j], self.ts[j + 1], self.xs[i], self.xs[i + 1], 0, 0))

    # -- bookkeeping
    def _add(self, e):
        self.leaves.add(e)
        for k in range(4):
            self.by[k].setdefault(e[k], set()).add(e)

    def _remove(self, e):
        self.leaves.remove(e)
        for k in range(4):
            self.by[k][e[k]].discard(e)

    def copy(self):
        r = RefMesh.__new__(RefMesh)
        r.glue, r.xs, r.ts = self.glue, self.xs, self.ts
        r.X0, r.L, r.T0, r.T = self.X0, self.L, self.T0, self.T
        r.leaves = set(self.leaves)
        r.by = tuple({k: set(v) for k, v in d.items()} for d in self.by)
        return r

    # -- geometry
    def nbrs(self, e, side):
        """Leaves sharing a positive-length piece of edge `side` of e.
        side 0: t = t0 (bottom), 1: x = x1 (right), 2: t = t1 (top), 3: x = x0 (left)."""
        t0, t1, x0, x1 = e[0], e[1], e[2], e[3]
        out = []
        if side == 0 or side == 2:
            cands = self.by[1].get(t0, ()) if side == 0 else self.by[0].get(t1, ())
            for f in cands:
                if min(x1, f[3]) > max(x0, f[2]):
                    out.append(f)
        else:
            if side == 1:
                cands = list(self.by[2].get(x1, ()))
                if self.glue and x1 == self.L:
                    cands += list(self.by[2].get(self.X0, ()))
            else:
                cands = list(self.by[3].get(x0, ()))
                if self.glue and x0 == self.X0:
                    cands += list(self.by[3].get(self.L, ()))
            for f in cands:
                if min(t1, f[1]) > max(t0, f[0]):
                    out.append(f)
        return out

    def all_nbrs(self, e):
        out = []
        for s in range(4):
            out.extend(self.nbrs(e, s))
        return out

    def geo_boundary(self, e, side):
        return ((side == 0 and e[0] == self.T0) or (side == 2 and e[1] == self.T)
                or (side == 1 and e[3] == self.L) or (side == 3 and e[2] == self.X0))

    def geo_glued(self, e, side):
        return self.glue and ((side == 1 and e[3] == self.L) or (side == 3 and e[2] == self.X0))

    def find(self, rect):
        """Leaf with the given (t0,t1,x0,x1)."""
        for f in self.by[0].get(rect[0], ()):
            if f[1] == rect[1] and f[2] == rect[2] and f[3] == rect[3]:
                return f
        return None

    # -- operations
    def _split(self, e, ax):
        t0, t1, x0, x1, lt, lx = e
        self._remove(e)
        if ax == 0:
            m = mid(t0, t1)
            c = ((t0, m, x0, x1, lt + 1, lx), (m, t1, x0, x1, lt + 1, lx))
        else:
            m = mid(x0, x1)
            c = ((t0, t1, x0, m, lt, lx + 1), (t0, t1, m, x1, lt, lx + 1))
        self._add(c[0])
        self._add(c[1])
        return c

    def bisect(self, e, ax, lifo=True):
        """Requested bisection followed by the forced closure (worklist form)."""
        assert e in self.leaves
        work = list(self._split(e, ax))
        n = 0
        while work:
            c = work.pop() if lifo else work.pop(0)
            if c not in self.leaves:
                continue
            for b in self.all_nbrs(c):
                if b in self.leaves and b[4 + ax] + 2 <= c[4 + ax]:
                    work.extend(self._split(b, ax))
                    work.append(c)
                    n += 1
        return n

    def bisect_naive(self, e, ax):
        """Same fixpoint by repeated global scans (used to cross-validate the worklist form)."""
        self._split(e, ax)
        changed = True
        while changed:
            changed = False
            for b in sorted(self.leaves):
                if b not in self.leaves:
                    continue
                if any(n[4 + ax] >= b[4 + ax] + 2 for n in self.all_nbrs(b)):
                    self._split(b, ax)
                    changed = True

    def close(self, ax):
        """Least fixpoint of the forced rule from an arbitrary leaf set."""
        changed = True
        while changed:
            changed = False
            for b in sorted(self.leaves):
                if b not in self.leaves:
                    continue
                if any(n[4 + ax] >= b[4 + ax] + 2 for n in self.all_nbrs(b)):
                    self._split(b, ax)
                    changed = True

    def bisect_rect(self, rect, ax, lifo=True):
        e = self.find(rect)
        assert e is not None, ('reference has no leaf', rect)
        return self.bisect(e, ax, lifo)

    # -- invariants of the model itself
    def area(self):
        return sum((Fraction(e[1]) - Fraction(e[0])) * (Fraction(e[3]) - Fraction(e[2])) for e in self.leaves)

    def total_area(self):
        return (Fraction(self.T) - Fraction(self.T0)) * (Fraction(self.L) - Fraction(self.X0))

    def irregular_pairs(self):
        bad = []
        for e in self.leaves:
            for n in self.all_nbrs(e):
                if abs(n[4] - e[4]) > 1 or abs(n[5] - e[5]) > 1:
                    bad.append((e, n))
        return bad


def ref_from_history(glue, xs, ts, hist, pre=()):
    r = RefMesh(glue, xs, ts)
    for rect, ax in tuple(pre) + tuple(hist):
        r.bisect_rect(tuple(rect), ax)
    return r


def ref_from_leaves(like, leaves):
    """Reference mesh with the geometry of `like` and an arbitrary leaf set."""
    r = RefMesh.__new__(RefMesh)
    r.glue, r.xs, r.ts = like.glue, like.xs, like.ts
    r.X0, r.L, r.T0, r.T = like.X0, like.L, like.T0, like.T
    r.leaves = set()
    r.by = ({}, {}, {}, {})
    for e in leaves:
        r._add(tuple(e))
    return r


def halves(e, ax):
    t0, t1, x0, x1, lt, lx = e
    if ax == 0:
        m = mid(t0, t1)
        return ((t0, m, x0, x1, lt + 1, lx), (m, t1, x0, x1, lt + 1, lx))
    m = mid(x0, x1)
    return ((t0, t1, x0, m, lt, lx + 1), (t0, t1, m, x1, lt, lx + 1))


def quarters(e):
    return tuple(q for h in halves(e, 0) for q in halves(h, 1))
