"""Executes the statements of /repo/example.py that set up and solve one problem - extracted from the driver's AST,
not re-typed - so that an edit of the driver's signs, argument order or wiring is part of what the checks see.

example.py cannot be imported and run (its body is a 100-round adaptive loop under __main__).  We parse it, pick
  * everything at module level except the __main__ block (imports, helper functions, constants),
  * in the __main__ body: the statement that creates `mesh` (the `if args.domain == ...` chain or a helper call), and every
    assignment / if / with statement before the main loop that assigns data, problem, SL, M0, M0u0, g, g_linform,
    error_estimator, hierarch_error_estimator or h_h2_error_estimator,
  * in the main loop (the for statement that assigns `mat`): the statements that assign elems, N, mat, rhs, Phi and residual,
and execute them in a prepared namespace (args, cache_dir, serial stand-in for multiprocessing).  A driver whose
statements can no longer be located is a HarnessError, never a verdict."""
import ast
import os
import types

import numpy as np

from . import common
from .common import HarnessError


class SerialPool:
    """In-process stand-in for multiprocessing.Pool (schedules are C17's business)."""
    def __init__(self, *a, **k):
        pass

    def map(self, f, it, chunksize=None):
        return [f(x) for x in it]

    def imap(self, f, it, chunksize=1):
        return (f(x) for x in it)

    def imap_unordered(self, f, it, chunksize=1):
        return (f(x) for x in it)

    def starmap(self, f, it, chunksize=None):
        return [f(*x) for x in it]

    def close(self):
        pass

    def join(self):
        pass

    def terminate(self):
        pass

    def __enter__(self):
        return self

    def __exit__(self, *a):
        return False


FAKE_MP = types.SimpleNamespace(Pool=SerialPool, cpu_count=lambda: 1, set_start_method=lambda *a, **k: None)


def install_serial_mp():
    import src.single_layer as a
    import src.initial_potential as b
    import src.error_estimator as c
    for mod in (a, b, c):
        mod.mp = FAKE_MP
        mod.print = lambda *x, **k: None


def _targets(node):
    out = set()
    if isinstance(node, ast.Assign):
        for t in node.targets:
            for n in ast.walk(t):
                if isinstance(n, ast.Name):
                    out.add(n.id)
    return out


def _src(node):
    return ast.unparse(node)


def _deep_targets(node):
    """Names assigned anywhere inside a statement (plain, augmented and tuple assignments; bodies of if / with / for)."""
    out = set()
    for n in ast.walk(node):
        if isinstance(n, ast.Assign):
            out |= _targets(n)
        elif isinstance(n, (ast.AugAssign, ast.AnnAssign)) and isinstance(n.target, ast.Name):
            out.add(n.target.id)
    return out


SETUP_NAMES = {'data', 'problem', 'SL', 'M0', 'M0u0', 'g', 'g_linform', 'error_estimator', 'hierarch_error_estimator', 'h_h2_error_estimator'}
LOOP_NAMES = {'elems', 'N', 'mat', 'rhs', 'Phi', 'residual'}


class Driver:
    def __init__(self, path=None):
        path = path or os.path.join(common.REPO, 'example.py')
        with open(path) as fh:
            tree = ast.parse(fh.read())
        main = [n for n in tree.body if isinstance(n, ast.If) and 'args' not in _src(n.test) and '__main__' in _src(n.test)]
        if len(main) != 1:
            raise HarnessError('example.py: __main__ block not found')
        # everything at module level except the __main__ block: imports, helper functions, constants
        self.imports = [n for n in tree.body if n is not main[0]]
        body = main[0].body
        loop = None
        for n in body:
            if isinstance(n, ast.For) and any(_targets(s) & {'mat'} for s in ast.walk(n) if isinstance(s, ast.Assign)):
                loop = n
                break
        if loop is None:
            raise HarnessError('example.py: main loop (the for statement that assigns mat) not found')
        before = body[:body.index(loop)]
        # the statement that creates the boundary mesh (an `if args.domain == ...` chain, or a call of a helper)
        self.domain_chain = next((n for n in before if 'mesh' in _deep_targets(n) and not isinstance(n, (ast.FunctionDef, ast.ClassDef))), None)
        if self.domain_chain is None:
            raise HarnessError('example.py: the statement that creates `mesh` was not found')
        self.setup = [n for n in before if n is not self.domain_chain and isinstance(n, (ast.Assign, ast.AnnAssign, ast.If, ast.With))
                      and _deep_targets(n) & SETUP_NAMES]
        self.loop = [n for n in loop.body if isinstance(n, (ast.Assign, ast.AugAssign, ast.AnnAssign, ast.If, ast.With))
                     and _deep_targets(n) & LOOP_NAMES]
        # cut the loop statements after the residual (estimators, marking and refinement follow)
        for i, n in enumerate(self.loop):
            if 'residual' in _deep_targets(n):
                self.loop = self.loop[:i + 1]
                break
        found = set()
        for n in self.setup + self.loop:
            found |= _deep_targets(n)
        missing = {'data', 'problem', 'SL', 'M0', 'M0u0', 'g', 'g_linform', 'error_estimator', 'elems', 'mat', 'rhs', 'Phi', 'residual'} - found
        if missing:
            raise HarnessError('example.py: statements assigning {} not found'.format(sorted(missing)))

    def _exec(self, nodes, ns):
        mod = ast.Module(body=list(nodes), type_ignores=[])
        ast.fix_missing_locations(mod)
        exec(compile(mod, 'example.py<extracted>', 'exec'), ns)

    def namespace(self, problem, domain, exact, cache_dir=None, quadrature='5355'):
        install_serial_mp()
        ns = {'__name__': 'example_extracted'}
        self._exec(self.imports, ns)
        ns['mp'] = FAKE_MP
        ns['print'] = lambda *a, **k: None
        ns['args'] = types.SimpleNamespace(problem=problem, domain=domain, single_layer_exact=exact, estimator_quadrature=quadrature,
                                           hierarchical=False, h_h2=False, sobolev=True, l2=True, refinement='uniform', grading=False,
                                           grading_sigma=2, estimator='sobolev', theta=0.9)
        ns['cache_dir'] = cache_dir
        return ns

    def make_mesh(self, ns):
        self._exec([self.domain_chain], ns)
        return ns['mesh']

    def setup_operators(self, ns):
        self._exec(self.setup, ns)

    def solve(self, ns):
        """Runs the loop statements: elems, N, mat, rhs, Phi, residual."""
        self._exec(self.loop, ns)
        return ns


COMBOS = [('Smooth', 'UnitSquare'), ('Smooth', 'PiSquare'), ('Singular', 'UnitSquare'), ('Singular', 'LShape'),
          ('Dirichlet', 'UnitSquare'), ('Dirichlet', 'PiSquare'), ('Dirichlet', 'LShape'), ('Dirichlet', 'Circle'),
          ('MildSingular', 'UnitSquare'), ('MildSingular', 'PiSquare'), ('MildSingular', 'LShape'), ('MildSingular', 'Circle')]
DOMAIN_CFG = {'UnitSquare': 'UnitSquare', 'PiSquare': 'PiSquare', 'LShape': 'LShapeDriver', 'Circle': 'Circle'}
