"""E3b: cache-directory fault injector.

* crash points: every proper prefix of a stored .npy file (`prefix_lengths`, `write_prefix`), the named length classes
  of the property (empty, header only, half, one byte short);
* corruption: same-length garbage variants, each labelled by whether NumPy's reader rejects it;
* deletion;
* read-only directories.  The harness runs as root, for whom permission bits are not enforced, so read-only-ness is
  injected where Python code opens files: builtins.open / io.open / os.open (and os.remove, rename, replace, mkdir)
  raise the errno the kernel would return for a write below a registered directory.  Two modes:
     'dir'  POSIX directory without write permission: creating / deleting entries fails (EACCES), existing writable
            files can still be rewritten;
     'fs'   read-only file system: every write access fails (EROFS).
  The harness' own manipulations use the saved genuine functions.
* canonical directory states for the explicit-state search over cache histories."""
import builtins
import errno
import io
import os
import shutil
import tempfile

import numpy as np

_open = builtins.open
_io_open = io.open
_os_open = os.open
_os_remove = os.remove
_os_unlink = os.unlink
_os_rename = os.rename
_os_replace = os.replace
_os_mkdir = os.mkdir

_RO = {}  # absolute directory -> mode
_INSTALLED = [False]
DENIED = [0]  # number of injected failures (evidence: the fault was actually exercised)


def _lookup(path):
    try:
        ap = os.path.abspath(os.fspath(path))
    except TypeError:
        return None, None
    if isinstance(ap, bytes):
        ap = os.fsdecode(ap)
    d = os.path.dirname(ap)
    for r, mode in _RO.items():
        if d == r or d.startswith(r + os.sep):
            return ap, mode
    return ap, None


def _deny_write(path, creating_or_unlinking):
    if not _RO:
        return
    ap, mode = _lookup(path)
    if mode is None:
        return
    if mode == 'fs':
        DENIED[0] += 1
        raise OSError(errno.EROFS, 'Read-only file system', ap)
    if creating_or_unlinking:
        DENIED[0] += 1
        raise PermissionError(errno.EACCES, 'Permission denied', ap)


def _guarded_open(file, mode='r', *a, **k):
    if _RO and isinstance(file, (str, bytes, os.PathLike)) and isinstance(mode, str) and any(c in mode for c in 'wxa+'):
        _deny_write(file, not os.path.exists(file))
    return _open(file, mode, *a, **k)


def _guarded_os_open(path, flags, *a, **k):
    if _RO and flags & (os.O_WRONLY | os.O_RDWR | os.O_CREAT | os.O_TRUNC | os.O_APPEND):
        _deny_write(path, not os.path.exists(path))
    return _os_open(path, flags, *a, **k)


def _guard1(fn):
    def g(path, *a, **k):
        _deny_write(path, True)
        return fn(path, *a, **k)
    return g


def _guard2(fn):
    def g(src, dst, *a, **k):
        _deny_write(src, True)
        _deny_write(dst, True)
        return fn(src, dst, *a, **k)
    return g


def install():
    if _INSTALLED[0]:
        return
    _INSTALLED[0] = True
    builtins.open = _guarded_open
    io.open = _guarded_open
    os.open = _guarded_os_open
    os.remove = _guard1(_os_remove)
    os.unlink = _guard1(_os_unlink)
    os.mkdir = _guard1(_os_mkdir)
    os.rename = _guard2(_os_rename)
    os.replace = _guard2(_os_replace)


def make_readonly(d, mode='fs'):
    assert mode in ('dir', 'fs')
    if not _INSTALLED[0]:
        install()
    _RO[os.path.abspath(d)] = mode


def make_writable(d):
    _RO.pop(os.path.abspath(d), None)


def readonly_mode(d):
    return _RO.get(os.path.abspath(d))


# ---- temp directories ---------------------------------------------------------------------------------
def tmpdir(prefix='c17_'):
    base = '/dev/shm' if os.path.isdir('/dev/shm') and os.access('/dev/shm', os.W_OK) else None
    return tempfile.mkdtemp(prefix='stbem_verif_' + prefix, dir=base)


def rmtree(d):
    make_writable(d)
    shutil.rmtree(d, ignore_errors=True)


def listing(d):
    return sorted(os.listdir(d))


def read(path):
    with _open(path, 'rb') as fh:
        return fh.read()


def write(path, data):
    with _open(path, 'wb') as fh:
        fh.write(data)


def delete(path):
    _os_remove(path)


# ---- crash points ---------------------------------------------------------------------------------
def npy_header_len(data):
    """Length of magic + version + header-length field + header dict of a .npy byte string."""
    if data[:6] != b'\x93NUMPY':
        raise ValueError('not an npy file')
    major = data[6]
    if major == 1:
        return 10 + int.from_bytes(data[8:10], 'little')
    return 12 + int.from_bytes(data[8:12], 'little')


def prefix_lengths(data):
    """Every proper prefix length of a stored file: what a crashed writer or a concurrent reader can see."""
    return range(len(data))


LENGTH_CLASSES = ('empty', 'header', 'half', 'short1')


def class_length(data, cls):
    h = npy_header_len(data)
    return {'empty': 0, 'header': h, 'half': h + (len(data) - h) // 2, 'short1': len(data) - 1}[cls]


def write_prefix(path, data, n):
    write(path, data[:n])


def loads(data):
    """np.load on a byte string; returns ('ok', array) or ('raises', exception type name)."""
    try:
        return 'ok', np.load(io.BytesIO(data))
    except Exception as ex:  # noqa: BLE001
        return 'raises', type(ex).__name__


def load_file(path):
    try:
        return 'ok', np.load(path)
    except Exception as ex:  # noqa: BLE001
        return 'raises', type(ex).__name__


def garbage_variants(data, seed=0):
    """Same-length (and a few longer) corruptions of a stored file: name -> bytes."""
    import random
    rng = random.Random(seed)
    n = len(data)
    h = npy_header_len(data)
    out = {
        'zeros': bytes(n),
        'random': bytes(rng.randrange(256) for _ in range(n)),
        'magic-destroyed': b'\x00' + data[1:],
        'magic-text': (b'not a numpy file' * (n // 16 + 1))[:n],
        'version-9.0': data[:6] + b'\x09\x00' + data[8:],
        'header-len-too-large': data[:8] + (65535).to_bytes(2, 'little') + data[10:] if data[6] == 1 else data,
        'header-dict-garbled': data[:10] + bytes(b ^ 0x5a for b in data[10:h]) + data[h:],
        'header-key-renamed': data.replace(b"'shape'", b"'shapx'", 1),
        'header-descr-unknown': data.replace(b"'<f8'", b"'<q9'", 1),
        'shape-larger-than-payload': data.replace(b"'shape': (", b"'shape': (9", 1)[:n] if b"'shape': (" in data else data,
        'pickle-payload': __import__('pickle').dumps([1.0] * max(1, (n - 30) // 9))[:n].ljust(n, b'.'),
        'trailing-garbage': data + bytes(rng.randrange(256) for _ in range(64)),
        'payload-bitflip': data[:h] + bytes([data[h] ^ 1]) + data[h + 1:] if n > h else data,
        'valid-other-shape': None,  # filled by the caller (a well-formed file holding another array)
    }
    return {k: v for k, v in out.items() if v is not None and v != data}


# ---- canonical states ---------------------------------------------------------------------------------
def content_class(data, pristine=None):
    """Length/content class of one cache file relative to the pristine bytes the code stored under that name."""
    if pristine is not None and data == pristine:
        return 'intact'
    if len(data) == 0:
        return 'empty'
    if pristine is not None and data == pristine[:len(data)]:
        h = npy_header_len(pristine)
        for cls in LENGTH_CLASSES:
            if len(data) == class_length(pristine, cls):
                return cls
        return 'prefix<header' if len(data) < h else 'prefix'
    st, _ = loads(data)
    return 'loadable-other' if st == 'ok' else 'unreadable-other'
