"""E4 (initial potential): independent reference for (M0 u0)(t,x) = int_Omega G(t, x-y) u0(y) dy and for the load
<M0 u0, 1_elem> = int_elem (M0 u0)(t, gamma(xhat)) dxhat dt, written from the mathematics (nothing is imported from
/repo: neither problems.py nor src/initial_potential.py nor src/parametrization.py).

G(t,z) = exp(-|z|^2/4t)/(4 pi t) = g(t,z1) g(t,z2),  g(t,s) = exp(-s^2/4t)/sqrt(4 pi t).
Omega is a union of axis-parallel rectangles R = [x0,x1]x[y0,y1] with disjoint interiors and u0 is a finite sum of
separable terms c*f(y1)*h(y2), hence
    (M0 u0)(t,(a,b)) = sum_R sum_terms c * F_f(x0,x1;a,t) * F_h(y0,y1;b,t),
    F_f(r0,r1;a,t) = int_r0^r1 f(y) g(t,a-y) dy          (the "1-D factor").
With y = a + 2 sqrt(t) s,  s_j = (r_j-a)/(2 sqrt t):
    f = 1      : F = [erf(s1)-erf(s0)]/2
    f = y^n    : F = sum_j binom(n,j) a^(n-j) (2 sqrt t)^j J_j,  J_j = int_s0^s1 s^j exp(-s^2)/sqrt(pi) ds,
                 J_0 = [erf]/2, J_1 = -[exp(-s^2)]/(2 sqrt pi), J_j = -[s^(j-1) exp(-s^2)]/(2 sqrt pi) + (j-1)/2 J_(j-2)
    f = sin(ky): F = exp(-k^2 t) Im{ exp(ika) [erf(s1 - ik sqrt t) - erf(s0 - ik sqrt t)]/2 }   (complete the square)
    any f      : composite Gauss in s on [max(s0,-S), min(s1,S)], S = 6.5 (exp(-S^2) = 4e-19)  -- `fac_gauss`, used to
                 validate the closed forms and available for arbitrary smooth f.
Load: tensor rule, time x space.  Time: if the element starts at t = 0 the integrand behaves like c0 + c1 sqrt(t) (corner /
boundary layers of width sqrt(t)) -> composite Gauss geometrically graded towards t = 0; otherwise composite Gauss
on equal panels (the integrand is analytic for t > 0).  Space: composite Gauss geometrically graded towards BOTH end
points of the element (polygon corners, where the potential has a layer of width sqrt(t), can only be end points of
an element that lies inside one unit piece of a side) and towards optional interior break points.

Everything is validated in props/C08.py on every run and recorded in the evidence: mpmath adaptive quadrature (26-30
digits; mp_load_fubini / mp_load / mp_M0 / mp_M0_2d below) on a fixed panel of loads and points, the closed forms of
/repo/problems.py pointwise, every deciding reference load with two unrelated parameter sets ('std', 'alt'), u0 = 1
additionally with the space integral in closed form (load_const_semianalytic), closed-form factors against fac_gauss.
Measured (2026-10-03): loads vs mpmath <= 3e-15 relative, points <= 5e-15, std vs alt <= 3e-13 over 34 536 loads,
vs problems.py <= 2e-15."""
import math

import numpy as np
from numpy.polynomial.legendre import leggauss
from scipy.special import erf  # real and complex arguments (Faddeeva package)

SQRTPI = math.sqrt(math.pi)
PI = math.pi

# ---- domains (own description: rectangles with disjoint interiors + boundary polygon, counter-clockwise or not as
#      the code's parametrisation walks it; only used to map a boundary parameter to a point) ----------------------
DOMAINS = {
    'UnitSquare': {'rects': [(0.0, 1.0, 0.0, 1.0)], 'poly': [(0, 0), (1, 0), (1, 1), (0, 1)], 'side': 1.0, 'sine_k': PI},
    'PiSquare': {'rects': [(0.0, PI, 0.0, PI)], 'poly': [(0, 0), (PI, 0), (PI, PI), (0, PI)], 'side': PI, 'sine_k': 1.0},
    'LShape': {'rects': [(-1.0, 1.0, 0.0, 1.0), (0.0, 1.0, -1.0, 0.0)],
               'poly': [(0, 0), (0, -1), (1, -1), (1, 1), (-1, 1), (-1, 0)], 'side': 1.0, 'sine_k': None},
}


def boundary_point(dom, xhat):
    """Point of the boundary polygon at arc length xhat (corners exactly)."""
    P = DOMAINS[dom]['poly']
    s = 0.0
    n = len(P)
    for i in range(n):
        a, b = P[i], P[(i + 1) % n]
        ln = math.hypot(b[0] - a[0], b[1] - a[1])
        if xhat <= s + ln or i == n - 1:
            r = xhat - s
            if r == 0.0:
                return (float(a[0]), float(a[1]))
            if abs(r - ln) <= 4e-16 * max(1.0, s + ln):
                return (float(b[0]), float(b[1]))
            return (a[0] + (b[0] - a[0]) / ln * r, a[1] + (b[1] - a[1]) / ln * r)
        s += ln
    raise ValueError(xhat)


def perimeter(dom):
    P = DOMAINS[dom]['poly']
    return sum(math.hypot(P[(i + 1) % len(P)][0] - P[i][0], P[(i + 1) % len(P)][1] - P[i][1]) for i in range(len(P)))


# ---- initial data: list of separable terms (coef, fx, fy); 1-D descriptors ('m', n) = y^n, ('s', k) = sin(k y) ----
def u0_terms(name, dom=None):
    M = lambda n: ('m', n)
    table = {
        'one': [(1.0, M(0), M(0))], 'x': [(1.0, M(1), M(0))], 'y': [(1.0, M(0), M(1))],
        'xx': [(1.0, M(2), M(0))], 'xy': [(1.0, M(1), M(1))], 'yy': [(1.0, M(0), M(2))],
        'sinx_y': [(1.0, ('s', 1.0), M(1))],
    }
    if name == 'sine':
        k = DOMAINS[dom]['sine_k']
        return [(1.0, ('s', k), ('s', k))]
    return table[name]


def f1d(desc, y):
    if desc[0] == 'm':
        return y**desc[1] if desc[1] else np.ones_like(y)
    return np.sin(desc[1] * y)


def u0_eval(terms, x, y):
    return sum(c * f1d(fx, x) * f1d(fy, y) for c, fx, fy in terms)


# ---- 1-D factors --------------------------------------------------------------------------------------------------
def fac_mono(n, r0, r1, a, t):
    rt = 2.0 * np.sqrt(t)
    s0 = (r0 - a) / rt
    s1 = (r1 - a) / rt
    J0 = 0.5 * (erf(s1) - erf(s0))
    if n == 0:
        return J0
    e0 = np.exp(-s0 * s0)
    e1 = np.exp(-s1 * s1)
    J = [J0, -(e1 - e0) / (2 * SQRTPI)]
    p0, p1 = s0, s1  # s^(j-1)
    for j in range(2, n + 1):
        J.append(-(p1 * e1 - p0 * e0) / (2 * SQRTPI) + (j - 1) / 2.0 * J[j - 2])
        p0, p1 = p0 * s0, p1 * s1
    out = 0.0
    for j in range(n + 1):
        out = out + math.comb(n, j) * a**(n - j) * rt**j * J[j]
    return out


def fac_sin(k, r0, r1, a, t):
    sq = np.sqrt(t)
    rt = 2.0 * sq
    s0 = (r0 - a) / rt
    s1 = (r1 - a) / rt
    beta = k * sq
    D = 0.5 * (erf(s1 - 1j * beta) - erf(s0 - 1j * beta))
    return np.exp(-k * k * t) * (np.sin(k * a) * D.real + np.cos(k * a) * D.imag)


_GS = {}


def _srule(panels, n):
    if (panels, n) not in _GS:
        x, w = leggauss(n)
        x = (x + 1) / 2
        w = w / 2
        xs = np.concatenate([(p + x) / panels for p in range(panels)])
        ws = np.concatenate([w / panels for p in range(panels)])
        _GS[(panels, n)] = (xs, ws)
    return _GS[(panels, n)]


def fac_gauss(fun, r0, r1, a, t, S=6.5, panels=14, n=16):
    """Generic 1-D factor by composite Gauss in the scaled variable s (vectorised over broadcastable a, t)."""
    a, t = np.broadcast_arrays(np.asarray(a, dtype=float), np.asarray(t, dtype=float))
    rt = 2.0 * np.sqrt(t)
    lo = np.maximum((r0 - a) / rt, -S)
    hi = np.minimum((r1 - a) / rt, S)
    ln = np.maximum(hi - lo, 0.0)
    xs, ws = _srule(panels, n)
    s = lo[..., None] + ln[..., None] * xs
    val = fun(a[..., None] + rt[..., None] * s) * np.exp(-s * s) / SQRTPI
    return ln * np.sum(val * ws, axis=-1)


def factor(desc, r0, r1, a, t, generic=False):
    if generic:
        return fac_gauss(lambda y: f1d(desc, y), r0, r1, a, t)
    if desc[0] == 'm':
        return fac_mono(desc[1], r0, r1, a, t)
    return fac_sin(desc[1], r0, r1, a, t)


def M0(dom, terms, t, x, y, generic=False):
    """(M0 u0)(t,(x,y)); t, x, y broadcastable arrays (t > 0)."""
    t = np.asarray(t, dtype=float)
    x = np.asarray(x, dtype=float)
    y = np.asarray(y, dtype=float)
    tot = 0.0
    for (x0, x1, y0, y1) in DOMAINS[dom]['rects']:
        for c, fx, fy in terms:
            tot = tot + c * factor(fx, x0, x1, x, t, generic) * factor(fy, y0, y1, y, t, generic)
    return tot


# ---- quadrature rules -----------------------------------------------------------------------------------------------
def graded(n=16, levels=40, sigma=0.5):
    """Nodes/weights on (0,1]: composite Gauss, geometrically graded towards 0."""
    x, w = leggauss(n)
    x = (x + 1) / 2
    w = w / 2
    xs, ws = [], []
    hi = 1.0
    for l in range(levels):
        lo = hi * sigma if l < levels - 1 else 0.0
        xs.append(lo + (hi - lo) * x)
        ws.append((hi - lo) * w)
        hi = lo
    return np.concatenate(xs), np.concatenate(ws)


def both_ends(n, levels, sigma):
    gx, gw = graded(n, levels, sigma)
    return np.concatenate([gx / 2, 1 - gx / 2]), np.concatenate([gw / 2, gw / 2])


PARAMS = {
    # time: tn-point Gauss on tl levels graded by ts towards t = 0 (elements starting at 0) or on tp equal panels;
    # space: xn-point Gauss on xl levels graded by xs towards both ends.  'std' was chosen as the cheapest set that
    # reproduces 'fine' to <= 1e-15 relative on every element of level <= 3 of the three domains (see C08 evidence:
    # every deciding reference value is computed with 'std' AND 'alt' and the two must agree to 1e-10).
    'std': {'tn': 16, 'tl': 18, 'ts': 0.25, 'tp': 2, 'xn': 16, 'xl': 12, 'xs': 0.25},
    'alt': {'tn': 10, 'tl': 26, 'ts': 0.4, 'tp': 3, 'xn': 10, 'xl': 18, 'xs': 0.4},
    'fine': {'tn': 16, 'tl': 40, 'ts': 0.5, 'tp': 4, 'xn': 16, 'xl': 30, 'xs': 0.5},
}
_RULES = {}


def rules(pname, a_zero):
    key = (pname, a_zero)
    if key not in _RULES:
        p = PARAMS[pname]
        if a_zero:
            tx, tw = graded(p['tn'], p['tl'], p['ts'])
        else:
            tx, tw = _srule(p['tp'], p['tn'])
        sx, sw = both_ends(p['xn'], p['xl'], p['xs'])
        _RULES[key] = (tx, tw, sx, sw)
    return _RULES[key]


def time_pieces(tint):
    """The time rules are tuned for intervals that start at 0 or have end / start <= 2; the integrals are additive in time, so
    wider intervals (custom time grids) are cut into geometric pieces of ratio <= 2."""
    a, b = float(tint[0]), float(tint[1])
    cuts = [a]
    while a > 0 and cuts[-1] * 2 < b:
        cuts.append(cuts[-1] * 2)
    cuts.append(b)
    return list(zip(cuts, cuts[1:]))


def load_segment(dom, terms, tint, p0, p1, pname='std', breaks=(), generic=False):
    return math.fsum(_load_segment(dom, terms, ti, p0, p1, pname, breaks, generic) for ti in time_pieces(tint))


def _load_segment(dom, terms, tint, p0, p1, pname='std', breaks=(), generic=False):
    """int_a^b int_0^1 (M0 u0)(t, p0 + s (p1-p0)) |p1-p0| ds dt for an axis-parallel segment p0 -> p1."""
    a, b = float(tint[0]), float(tint[1])
    tx, tw, sx, sw = rules(pname, a == 0.0)
    t = (a + (b - a) * tx)[:, None]
    wt = (b - a) * tw
    ln = math.hypot(p1[0] - p0[0], p1[1] - p0[1])
    cuts = [0.0] + sorted(c for c in breaks if 0.0 < c < 1.0) + [1.0]
    tot = 0.0
    for c0, c1 in zip(cuts, cuts[1:]):
        s = c0 + (c1 - c0) * sx
        # exploit separability: a coordinate that is constant along the segment is passed with shape (1,1)
        if p0[0] == p1[0]:
            x = np.array([[float(p0[0])]])
        else:
            x = (p0[0] + (p1[0] - p0[0]) * s)[None, :]
        if p0[1] == p1[1]:
            y = np.array([[float(p0[1])]])
        else:
            y = (p0[1] + (p1[1] - p0[1]) * s)[None, :]
        if p0[0] != p1[0] and p0[1] != p1[1]:
            raise ValueError('segment not axis-parallel')
        v = M0(dom, terms, t, x, y, generic)
        v = np.broadcast_to(v, (t.shape[0], s.shape[0]))
        tot += (c1 - c0) * float(wt @ (v @ sw))
    return ln * tot


def load_const_semianalytic(dom, tint, p0, p1, pname='std'):
    return math.fsum(_load_const_semianalytic(dom, ti, p0, p1, pname) for ti in time_pieces(tint))


def _load_const_semianalytic(dom, tint, p0, p1, pname='std'):
    """u0 = 1, space integral in closed form (Phi(z) = z erf z + exp(-z^2)/sqrt(pi) is a primitive of erf), time by the
    graded rule: an independent check of the space rule of load_segment."""
    a, b = float(tint[0]), float(tint[1])
    tx, tw, _, _ = rules(pname, a == 0.0)
    t = a + (b - a) * tx
    wt = (b - a) * tw
    rt = 2.0 * np.sqrt(t)
    horiz = p0[1] == p1[1]
    u0_, u1_ = (p0[0], p1[0]) if horiz else (p0[1], p1[1])
    lo, hi = min(u0_, u1_), max(u0_, u1_)
    fixed = p0[1] if horiz else p0[0]
    Phi = lambda z: z * erf(z) + np.exp(-z * z) / SQRTPI
    tot = 0.0
    for (x0, x1, y0, y1) in DOMAINS[dom]['rects']:
        (r0, r1), (q0, q1) = ((x0, x1), (y0, y1)) if horiz else ((y0, y1), (x0, x1))
        A = 0.5 * (erf((q1 - fixed) / rt) - erf((q0 - fixed) / rt))
        # int_lo^hi 1/2 [erf((r1-x)/rt) - erf((r0-x)/rt)] dx
        B = 0.5 * rt * ((Phi((r1 - lo) / rt) - Phi((r1 - hi) / rt)) - (Phi((r0 - lo) / rt) - Phi((r0 - hi) / rt)))
        tot += float(np.sum(wt * A * B))
    return tot


class M0Oracle:
    """Front end on element-like objects; memoises on (u0, time interval, end points)."""
    def __init__(self, dom, pname='std'):
        self.dom = dom
        self.pname = pname
        self.memo = {}

    def ends(self, xint):
        return boundary_point(self.dom, float(xint[0])), boundary_point(self.dom, float(xint[1]))

    def load(self, u0name, tint, xint):
        k = (u0name, float(tint[0]), float(tint[1]), float(xint[0]), float(xint[1]))
        if k not in self.memo:
            p0, p1 = self.ends(xint)
            self.memo[k] = load_segment(self.dom, u0_terms(u0name, self.dom), tint, p0, p1, self.pname)
        return self.memo[k]

    def point(self, u0name, t, x, y):
        return float(M0(self.dom, u0_terms(u0name, self.dom), t, x, y))


# ---- mpmath references (slow; fixed validation panel only) -------------------------------------------------------------
def mp_factor(desc, r0, r1, a, t, mp):
    """1-D factor by adaptive quadrature (no closed form used), break points at a +- multiples of sqrt(t)."""
    a = mp.mpf(a)
    t = mp.mpf(t)
    r0 = mp.mpf(r0)
    r1 = mp.mpf(r1)
    w = 2 * mp.sqrt(t)
    pts = sorted(set([r0, r1] + [p for p in [a + j * w for j in (-12, -6, -3, -1, 0, 1, 3, 6, 12)] if r0 < p < r1]))
    if desc[0] == 'm':
        f = lambda y: y**desc[1]
    else:
        f = lambda y: mp.sin(mp.mpf(desc[1]) * y) if desc[1] != PI else mp.sin(mp.pi * y)
    return mp.quad(lambda y: f(y) * mp.exp(-(a - y)**2 / (4 * t)) / mp.sqrt(4 * mp.pi * t), pts)


def mp_M0(dom, terms, t, x, y, mp):
    tot = mp.mpf(0)
    for (x0, x1, y0, y1) in mp_rects(dom, mp):
        for c, fx, fy in terms:
            tot += c * mp_factor(fx, x0, x1, x, t, mp) * mp_factor(fy, y0, y1, y, t, mp)
    return tot


def mp_rects(dom, mp):
    if dom == 'PiSquare':
        return [(mp.mpf(0), mp.pi, mp.mpf(0), mp.pi)]
    return [tuple(mp.mpf(v) for v in r) for r in DOMAINS[dom]['rects']]


def mp_M0_2d(dom, terms, t, x, y, mp):
    """Genuinely two-dimensional adaptive quadrature of G(t, x-y) u0(y) over every rectangle (no separation)."""
    t = mp.mpf(t)
    x = mp.mpf(x)
    y = mp.mpf(y)
    w = 2 * mp.sqrt(t)

    def u0(p, q):
        tot = mp.mpf(0)
        for c, fx, fy in terms:
            fa = p**fx[1] if fx[0] == 'm' else mp.sin((mp.pi if fx[1] == PI else mp.mpf(fx[1])) * p)
            fb = q**fy[1] if fy[0] == 'm' else mp.sin((mp.pi if fy[1] == PI else mp.mpf(fy[1])) * q)
            tot += c * fa * fb
        return tot
    tot = mp.mpf(0)
    for (x0, x1, y0, y1) in mp_rects(dom, mp):
        px = sorted(set([x0, x1] + [p for p in [x + j * w for j in (-6, -2, 0, 2, 6)] if x0 < p < x1]))
        py = sorted(set([y0, y1] + [p for p in [y + j * w for j in (-6, -2, 0, 2, 6)] if y0 < p < y1]))
        tot += mp.quad(lambda p, q: u0(p, q) * mp.exp(-((x - p)**2 + (y - q)**2) / (4 * t)) / (4 * mp.pi * t), px, py)
    return tot


def mp_load(dom, u0name, tint, xint, dps=30):
    """Reference load by nested adaptive quadrature (time outer, space inner).  For u0 = 1 the pointwise potential is
    the erf product evaluated in mpmath; for other data the 1-D factors are themselves adaptive quadratures."""
    import mpmath as mp
    mp.mp.dps = dps
    terms = u0_terms(u0name, dom)
    p0, p1 = boundary_point(dom, xint[0]), boundary_point(dom, xint[1])
    if dom == 'PiSquare':
        conv = lambda v: mp.pi * round(v / PI) if abs(v / PI - round(v / PI)) < 1e-14 else mp.mpf(v)
    else:
        conv = lambda v: mp.mpf(v)
    P0 = (conv(p0[0]), conv(p0[1]))
    P1 = (conv(p1[0]), conv(p1[1]))
    ln = mp.sqrt((P1[0] - P0[0])**2 + (P1[1] - P0[1])**2)
    rects = mp_rects(dom, mp)

    def pot(t, x, y):
        if u0name == 'one':
            rt = 2 * mp.sqrt(t)
            return sum((mp.erf((x1 - x) / rt) - mp.erf((x0 - x) / rt)) * (mp.erf((y1 - y) / rt) - mp.erf((y0 - y) / rt)) / 4
                       for (x0, x1, y0, y1) in rects)
        return mp_M0(dom, terms, t, x, y, mp)

    def inner(t):
        return mp.quad(lambda s: pot(t, P0[0] + s * (P1[0] - P0[0]), P0[1] + s * (P1[1] - P0[1])), [0, mp.mpf(1) / 2, 1])
    a, b = mp.mpf(tint[0]), mp.mpf(tint[1])
    val, err = mp.quad(inner, [a, (a + b) / 2, b], error=True)
    return ln * val, err


def mp_load_fubini(dom, u0name, tint, xint, dps=25, inner='tanh-sinh', offs=(-14, -7, -3, -1, 0, 1, 3, 7, 14)):
    """Reference load, organised differently from load_segment: the space integral along the (axis-parallel) element is
    done first, in closed form, on the KERNEL (int_lo^hi g(t,x-y) dx = [erf((hi-y)/2sqrt t) - erf((lo-y)/2sqrt t)]/2),
    so that  load = int_a^b sum_R sum_terms c * A(t) * C(t) dt  with two one-dimensional adaptive quadratures
        A(t) = int f_fixed(y) g(t, fixed - y) dy,   C(t) = int f_var(y) [erf((hi-y)/2sqrt t) - erf((lo-y)/2sqrt t)]/2 dy
    over the sides of the rectangle, inside an adaptive quadrature in time.  No closed form for the data is used."""
    import mpmath as mp
    mp.mp.dps = dps
    terms = u0_terms(u0name, dom)
    p0, p1 = boundary_point(dom, xint[0]), boundary_point(dom, xint[1])
    if dom == 'PiSquare':
        conv = lambda v: mp.pi * round(v / PI * 64) / 64 if abs(v / PI * 64 - round(v / PI * 64)) < 1e-12 else mp.mpf(v)
    else:
        conv = lambda v: mp.mpf(v)
    horiz = p0[1] == p1[1]
    lo, hi = sorted([conv(p0[0]), conv(p1[0])] if horiz else [conv(p0[1]), conv(p1[1])])
    fixed = conv(p0[1] if horiz else p0[0])
    rects = mp_rects(dom, mp)

    def fun(desc):
        if desc[0] == 'm':
            return lambda y: y**desc[1]
        k = mp.pi if desc[1] == PI else mp.mpf(desc[1])
        return lambda y: mp.sin(k * y)

    def bp(r0, r1, centres, w):
        c = [r0, r1]
        for z in centres:
            c += [z + j * w for j in offs]
        return sorted(set(p for p in c if r0 <= p <= r1))

    def integrand(t):
        w = 2 * mp.sqrt(t)
        tot = mp.mpf(0)
        for (x0, x1, y0, y1) in rects:
            (r0, r1), (q0, q1) = ((x0, x1), (y0, y1)) if horiz else ((y0, y1), (x0, x1))
            for c, fx, fy in terms:
                fv, ff = (fun(fx), fun(fy)) if horiz else (fun(fy), fun(fx))
                A = mp.quad(lambda y: ff(y) * mp.exp(-(fixed - y)**2 / (4 * t)) / mp.sqrt(4 * mp.pi * t), bp(q0, q1, [fixed], w), method=inner)
                C = mp.quad(lambda y: fv(y) * (mp.erf((hi - y) / w) - mp.erf((lo - y) / w)) / 2, bp(r0, r1, [lo, hi], w), method=inner)
                tot += c * A * C
        return tot
    a, b = mp.mpf(tint[0]), mp.mpf(tint[1])
    val, err = mp.quad(integrand, [a, a + (b - a) / 16, (a + b) / 2, b], error=True)
    return val, err
