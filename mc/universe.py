"""E5: configuration universes for the numerical kernels.

R(Lt, Lx): all dyadic rectangles with time level <= Lt and (additional) space level <= Lx under every root of a
MeshParametrized(curve, time grid), produced by REAL bisection (one uniformly refined real mesh per level pair), so
every element is a genuine src.mesh.Element with the piece function the mesh assigned to it."""
import numpy as np

from . import meshmc
from .meshmc import curve

from src.mesh import MeshParametrized
from src.single_layer import SingleLayerOperator
import src.single_layer as _SLmod

_SLmod.print = lambda *a, **k: None  # silence timing chatter of the module under test


def level_mesh(cname, tgrid, lt, lx, pre=''):
    cfg = ('param', cname, None, tuple(float(t) for t in tgrid), pre)
    m = meshmc.fresh(cfg)
    for _ in range(lx):
        for e in sorted(list(m.leaf_elements), key=lambda e: e.level_space):
            m.refine_space(e)
    for _ in range(lt):
        for e in sorted(list(m.leaf_elements), key=lambda e: e.level_time):
            m.refine_time(e)
    return m


def rect_universe(cname, tgrid, Lt, Lx, pre=''):
    """dict (lt,lx) -> (mesh, [elements])"""
    out = {}
    for lt in range(Lt + 1):
        for lx in range(Lx + 1):
            m = level_mesh(cname, tgrid, lt, lx, pre)
            out[(lt, lx)] = (m, list(m.leaf_elements))
    return out


def all_elements(U):
    els = []
    for k in sorted(U):
        els.extend(U[k][1])
    return els


def aspect(e):
    return e.h_x**2 / e.h_t


def make_SL(cname, pw_exact=False, tgrid=(0., 1.), quad_order=12):
    m = MeshParametrized(curve(cname), initial_time_mesh=list(tgrid))
    return SingleLayerOperator(m, quad_order=quad_order, pw_exact=pw_exact)


# ---- geometric classification of an ordered pair (for evidence histograms and vacuity guards) ---------------
def space_class(g, test, trial):
    L = float(g.gamma_length)
    a, b = test.space_interval
    c, d = trial.space_interval
    same_piece = test.gamma_space is trial.gamma_space
    if (a, b) == (c, d):
        return 'identical'
    if (a <= c and d <= b) or (c <= a and b <= d):
        return 'nested'
    if min(b, d) > max(a, c):
        return 'overlap'
    if b == c or d == a:
        return 'touching' if (same_piece and len(g.pw_gamma) > 1) or len(g.pw_gamma) == 1 else 'corner'
    if g.closed and ((a == 0 and d == L) or (c == 0 and b == L)):
        return 'seam-touching' if len(g.pw_gamma) == 1 else 'seam-corner'
    direct = max(c - b, a - d)
    seam = L - max(b, d) + min(a, c)
    if g.closed and seam < direct:
        return 'disjoint-nearer-through-seam'
    return 'disjoint-same-side' if same_piece and len(g.pw_gamma) > 1 else ('disjoint' if len(g.pw_gamma) == 1 else 'disjoint-other-side')


def time_class(test, trial):
    a, b = test.time_interval
    c, d = trial.time_interval
    if b <= c:
        return 'acausal'
    if (a, b) == (c, d):
        return 'equal'
    if a == d:
        return 'touching'
    if a > d:
        return 'separated'
    return 'overlapping'


def size_ratio(test, trial):
    r = test.h_x / trial.h_x
    return round(float(np.log2(r))) if r > 0 else 0
