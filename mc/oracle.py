"""E4: independent reference integrals for the single-layer operator (written from the mathematics, not from
src/single_layer*.py; scipy.special.exp1 instead of the code's expi expressions).

Heat kernel G(t,x) = exp(-|x|^2/4t)/(4 pi t).  With rho = |x|^2/4:
    H(tau, rho) = int_0^tau G      = E1(rho/tau)/(4 pi)                       (tau > 0, else 0)
    K(z, rho)   = int_0^z  H       = [(rho+z) E1(rho/z) - z exp(-rho/z)]/(4 pi) (z > 0, else 0)
Galerkin entry for test time (a,b), trial time (c,d):
    int_a^b int_c^d G(t-s) ds dt = K(b-c) - K(a-c) - K(b-d) + K(a-d).
Space integrals: both parameter intervals are cut at the union of their end points; every sub-pair is identical
(two Duffy triangles, geometrically graded), touching in one point directly / through the seam / at a polygon
corner (tensor of two graded rules towards the common point), or separated (recursive halving of the longer
side until the gap is at least half the size, then tensor Gauss)."""
import math

import numpy as np
from numpy.polynomial.legendre import leggauss
from scipy.special import exp1

FPI = 1 / (4 * np.pi)


def Kfun(z, rho):
    if z <= 0:
        return np.zeros_like(rho)
    rho = np.maximum(rho, 1e-280)
    u = rho / z
    with np.errstate(all='ignore'):
        return FPI * ((rho + z) * exp1(u) - z * np.exp(-u))


def Hfun(tau, rho):
    if tau <= 0:
        return np.zeros_like(rho)
    rho = np.maximum(rho, 1e-280)
    with np.errstate(all='ignore'):
        return FPI * exp1(rho / tau)


def Ktot(a, b, c, d, rho):
    return Kfun(b - c, rho) - Kfun(a - c, rho) - Kfun(b - d, rho) + Kfun(a - d, rho)


def graded(n=16, levels=40, sigma=0.5):
    """Nodes/weights on (0,1], composite Gauss geometrically graded towards 0."""
    x, w = leggauss(n)
    x = (x + 1) / 2
    w = w / 2
    xs, ws = [], []
    hi = 1.0
    for l in range(levels):
        lo = hi * sigma if l < levels - 1 else 0.0
        xs.append(lo + (hi - lo) * x)
        ws.append((hi - lo) * w)
        hi = lo
    return np.concatenate(xs), np.concatenate(ws)


def set_rule(fine=False):
    """fast: sigma=1/4, 16 points, 18 levels (Bernstein factor 3 per level box => ~5e-16 per box, cut-off 1.5e-8);
    fine: sigma=1/2, 16 points, 40 levels - used to validate the fast rule."""
    global GX, GW, PX, PW, G2X, G2W
    GX, GW = graded(16, 40, 0.5) if fine else graded(16, 18, 0.25)
    PX, PW = (lambda x, w: ((x + 1) / 2, w / 2))(*leggauss(32 if fine else 24))
    # both-ends graded rule on (0,1)
    G2X = np.concatenate([GX / 2, 1 - GX / 2])
    G2W = np.concatenate([GW / 2, GW / 2])


set_rule(False)


def _corner(f, x0, x1, y0, y1):
    """int of f over [x0,x1]x[y0,y1], singular corner at (x0,y0); x1 < x0 allowed (orientation)."""
    X = x0 + (x1 - x0) * GX
    Y = y0 + (y1 - y0) * GX
    XX, YY = np.meshgrid(X, Y, indexing='ij')
    return abs((x1 - x0) * (y1 - y0)) * np.sum(np.outer(GW, GW) * f(XX, YY))


def _identical(f, a, b):
    """f on [a,b]^2, singular on the diagonal: two triangles, Duffy coordinates graded in both the collapsed
    coordinate u -> 0 and the diagonal distance v -> 0."""
    h = b - a
    U, V = np.meshgrid(GX, GX, indexing='ij')
    WW = np.outer(GW, GW) * U * h * h
    x = a + h * U
    y = a + h * U * (1 - V)
    return np.sum(WW * f(x, y)) + np.sum(WW * f(y, x))


def _smooth(f, x0, x1, y0, y1):
    X = x0 + (x1 - x0) * PX
    Y = y0 + (y1 - y0) * PX
    XX, YY = np.meshgrid(X, Y, indexing='ij')
    return (x1 - x0) * (y1 - y0) * np.sum(np.outer(PW, PW) * f(XX, YY))


def _pair(f, I, J, L, closed, depth=0):
    if I == J:
        return _identical(f, *I)
    if I[1] == J[0]:
        return _corner(f, I[1], I[0], J[0], J[1])
    if J[1] == I[0]:
        return _corner(f, I[0], I[1], J[1], J[0])
    if closed and I[0] == 0 and J[1] == L:
        return _corner(f, I[0], I[1], J[1], J[0])
    if closed and J[0] == 0 and I[1] == L:
        return _corner(f, I[1], I[0], J[0], J[1])
    gap = max(J[0] - I[1], I[0] - J[1])
    if closed:
        gap = min(gap, L - max(I[1], J[1]) + min(I[0], J[0]))
    hI, hJ = I[1] - I[0], J[1] - J[0]
    if gap >= 0.5 * max(hI, hJ) or depth > 14:
        return _smooth(f, *I, *J)
    if hI >= hJ:
        m = (I[0] + I[1]) / 2
        return _pair(f, (I[0], m), J, L, closed, depth + 1) + _pair(f, (m, I[1]), J, L, closed, depth + 1)
    m = (J[0] + J[1]) / 2
    return _pair(f, I, (J[0], m), L, closed, depth + 1) + _pair(f, I, (m, J[1]), L, closed, depth + 1)


def entry(ttest, ttrial, xtest, xtrial, gtest, gtrial, L, closed):
    """Reference value of <V 1_trial, 1_test>; gtest/gtrial map parameter arrays to 2xN points."""
    a, b = ttest
    c, d = ttrial
    if b <= c:
        return 0.0

    def f(x, y):
        sh = x.shape
        p = gtest(x.ravel())
        q = gtrial(y.ravel())
        rho = ((p[0] - q[0])**2 + (p[1] - q[1])**2) / 4
        return Ktot(a, b, c, d, rho).reshape(sh)

    overlap = min(xtest[1], xtrial[1]) > max(xtest[0], xtrial[0])
    xs = sorted(set([xtest[0], xtest[1]] + [p for p in xtrial if xtest[0] < p < xtest[1]])) if overlap else list(xtest)
    ys = sorted(set([xtrial[0], xtrial[1]] + [p for p in xtest if xtrial[0] < p < xtrial[1]])) if overlap else list(xtrial)
    tot = 0.0
    for i in range(len(xs) - 1):
        for j in range(len(ys) - 1):
            tot += _pair(f, (xs[i], xs[i + 1]), (ys[j], ys[j + 1]), L, closed)
    return float(tot)


class EntryOracle:
    """Memoising front end working on element-like objects (time_interval, space_interval, gamma_space)."""
    def __init__(self, gamma):
        self.gamma = gamma
        self.L = float(gamma.gamma_length)
        self.closed = bool(gamma.closed)
        self.memo = {}
        self.diag_memo = {}
        self.piece_idx = {id(p): i for i, p in enumerate(gamma.pw_gamma)}

    def key(self, e):
        return (tuple(map(float, e.time_interval)), tuple(map(float, e.space_interval)))

    def piece(self, e):
        """The piece function for an element, determined from the parameter interval (not from elem.gamma_space)."""
        x0, x1 = e.space_interval
        for i in range(len(self.gamma.pw_gamma)):
            if self.gamma.pw_start[i] <= x0 and x1 <= self.gamma.pw_start[i + 1]:
                return self.gamma.pw_gamma[i]
        raise ValueError('element straddles pieces')

    def value(self, trial, test):
        kt, ks = self.key(test), self.key(trial)
        # invariance under a common time shift is a property of the integral: memoise on time differences
        a, b = kt[0]
        c, d = ks[0]
        k = ((b - a, c - a, d - a), kt[1], ks[1])
        if k not in self.memo:
            self.memo[k] = entry((a, b), (c, d), kt[1], ks[1], self.piece(test), self.piece(trial), self.L, self.closed)
        return self.memo[k]

    def diag(self, e):
        k = self.key(e)
        kk = (k[0][1] - k[0][0], k[1])
        if kk not in self.diag_memo:
            self.diag_memo[kk] = entry(k[0], k[0], k[1], k[1], self.piece(e), self.piece(e), self.L, self.closed)
        return self.diag_memo[kk]


# ---------------------------------------------------------------------------------------------------
def pointwise(t, ttrial, xtrial, gtrial, xpt, xhat=None, L=None, closed=False):
    """Reference (V 1_trial)(t, x): int_{xtrial} [H(t-c) - H(t-d)](|x - gamma(y)|^2/4) dy, both-end graded
    composite rule, additionally split at xhat when xhat lies inside the element."""
    c, d = ttrial
    if t <= c:
        return 0.0
    x = np.asarray(xpt, dtype=float).reshape(2, 1)
    a, b = xtrial
    cuts = [a, b]
    if xhat is not None and a < xhat < b:
        cuts = [a, xhat, b]
    tot = 0.0
    for lo, hi in zip(cuts, cuts[1:]):
        if hi - lo <= 0:
            continue
        y = lo + (hi - lo) * G2X
        q = gtrial(y)
        rho = ((x[0] - q[0])**2 + (x[1] - q[1])**2) / 4
        tot += (hi - lo) * np.sum(G2W * (Hfun(t - c, rho) - Hfun(t - d, rho)))
    return float(tot)


# ---------------------------------------------------------------------------------------------------
def mp_entry_straight(a, b, c, d, x0, x1, y0, y1, dps=30):
    """mpmath reference (slow) for a straight piece: 4-fold integral reduced to 2-fold with the exact K."""
    import mpmath as mp
    mp.mp.dps = dps

    def Kmp(z, rho):
        if z <= 0:
            return mp.mpf(0)
        if rho == 0:
            return -z / (4 * mp.pi)
        u = rho / z
        return ((rho + z) * mp.e1(u) - z * mp.exp(-u)) / (4 * mp.pi)

    def f(x, y):
        rho = (x - y)**2 / 4
        return Kmp(b - c, rho) - Kmp(a - c, rho) - Kmp(b - d, rho) + Kmp(a - d, rho)

    bx = sorted(set([x0, x1] + [p for p in (y0, y1) if x0 < p < x1]))
    tot = mp.mpf(0)
    for xa, xb in zip(bx, bx[1:]):
        def inner(x):
            by = sorted(set([y0, y1] + ([x] if y0 < x < y1 else [])))
            return mp.quad(lambda y: f(x, y), by)
        tot += mp.quad(inner, [xa, xb])
    return tot
