"""Reference model of the domain quadtree (property C16), written from the property text, not from initial_mesh.py.

Domains (closed sets, described by their level-0 cells):
    UnitSquare  [0,1]^2
    PiSquare    [0,P]^2 with P the double nearest to pi
    LShape      [-1,1]^2 minus the quadrant {x<0, y<0}: the three unit squares around the re-entrant corner (0,0)
                (this is the polygon (0,0),(0,-1),(1,-1),(1,1),(-1,1),(-1,0) of the boundary curve 'LShape').

A mesh is a set of leaves (x0, y0, x1, y1, level): axis-parallel squares.  All coordinates are IEEE doubles and
every comparison below is an exact comparison of doubles.  "Bisection" of an interval [a,b] is the double midpoint
(a+b)/2, exactly what 'the middle' means in floating point; on the dyadic domains this is the rational midpoint, on
the pi square it may differ from the rational midpoint in the last bit.  The four quadrants of a cell still share
their common end points exactly, so "no gap, no overlap" remains an exact statement (areas in Fractions).

Edge-adjacency: two leaves are neighbours iff they share a piece of positive length of an edge.

refine(cell): replace the leaf by its four quadrants, then the least fixpoint of the forced rule
    "a leaf B that has an edge-neighbour N with level_N >= level_B + 2 is replaced by its four quadrants"
(2:1 balance).  Forced moves are monotone (a leaf that must be refined stays so until it is), hence the fixpoint is
unique and is the least balanced refinement containing the request; the processing order does not matter, which the
drivers assert by computing the fixpoint in several orders (refine(lifo) / refine(fifo) / refine_naive).

Boundary targeting: a segment of the boundary is described by its two end points in *model coordinates* (the
doubles the midpoint recursion along the unit piece produces).  target(seg) = repeat { the unique leaf that has an
edge containing seg; stop if that edge equals seg; otherwise refine(that leaf) }.  target_by_closure computes the
same mesh as 'split the chain of ancestors of the target cell, then take the closure once'.
"""
import math
from fractions import Fraction

P = math.pi

DOMAINS = {
    'UnitSquare': ((0.0, 0.0, 1.0, 1.0), ),
    'PiSquare': ((0.0, 0.0, P, P), ),
    'LShape': ((0.0, -1.0, 1.0, 0.0), (0.0, 0.0, 1.0, 1.0), (-1.0, 0.0, 0.0, 1.0)),
}
DYADIC = {'UnitSquare': True, 'PiSquare': False, 'LShape': True}


def mid(a, b):
    return (a + b) / 2


def quadrants(e):
    """The four quadrants of the cell e = (x0,y0,x1,y1,level), level + 1."""
    x0, y0, x1, y1, l = e
    mx, my = mid(x0, x1), mid(y0, y1)
    return ((x0, y0, mx, my, l + 1), (mx, y0, x1, my, l + 1), (mx, my, x1, y1, l + 1), (x0, my, mx, y1, l + 1))


def dyadic_coord(a, b, k, l):
    """Model coordinate of the point k/2^l of the interval from a to b: end points for k = 0, 2^l, otherwise the
    double midpoint of its two dyadic neighbours one level up (the recursion a quadtree along [a,b] performs)."""
    if k == 0:
        return a
    if k == (1 << l):
        return b
    while k % 2 == 0:
        k //= 2
        l -= 1
    return mid(dyadic_coord(a, b, (k - 1) // 2, l - 1), dyadic_coord(a, b, (k + 1) // 2, l - 1))


class RefQuad:
    def __init__(self, domain):
        self.domain = domain
        self.roots = tuple(tuple(float(c) for c in r) for r in DOMAINS[domain])
        self.leaves = set()
        self.by = ({}, {}, {}, {})  # coordinate value of x0, y0, x1, y1 -> set of leaves
        for r in self.roots:
            self._add(r + (0, ))

    # -- bookkeeping -----------------------------------------------------------------------------
    def _add(self, e):
        self.leaves.add(e)
        for k in range(4):
            self.by[k].setdefault(e[k], set()).add(e)

    def _remove(self, e):
        self.leaves.remove(e)
        for k in range(4):
            self.by[k][e[k]].discard(e)

    def copy(self):
        r = RefQuad.__new__(RefQuad)
        r.domain, r.roots = self.domain, self.roots
        r.leaves = set(self.leaves)
        r.by = tuple({k: set(v) for k, v in d.items()} for d in self.by)
        return r

    @classmethod
    def from_leaves(cls, domain, leaves):
        r = cls.__new__(cls)
        r.domain = domain
        r.roots = tuple(tuple(float(c) for c in q) for q in DOMAINS[domain])
        r.leaves = set()
        r.by = ({}, {}, {}, {})
        for e in leaves:
            r._add(tuple(e))
        return r

    # -- geometry --------------------------------------------------------------------------------
    def nbrs(self, e, side):
        """Leaves sharing a positive-length piece of edge `side` of e.
        side 0: y = y0 (bottom), 1: x = x1 (right), 2: y = y1 (top), 3: x = x0 (left)."""
        x0, y0, x1, y1 = e[0], e[1], e[2], e[3]
        out = []
        if side == 0 or side == 2:
            cands = self.by[3].get(y0, ()) if side == 0 else self.by[1].get(y1, ())
            for f in cands:
                if min(x1, f[2]) > max(x0, f[0]):
                    out.append(f)
        else:
            cands = self.by[0].get(x1, ()) if side == 1 else self.by[2].get(x0, ())
            for f in cands:
                if min(y1, f[3]) > max(y0, f[1]):
                    out.append(f)
        return out

    def all_nbrs(self, e):
        out = []
        for s in range(4):
            out.extend(self.nbrs(e, s))
        return out

    def find(self, rect):
        for f in self.by[0].get(rect[0], ()):
            if f[1] == rect[1] and f[2] == rect[2] and f[3] == rect[3]:
                return f
        return None

    def inside(self, e):
        """Closed cell e is a subset of the domain (a cell that straddles two level-0 cells is not produced by
        any refinement, so 'inside one level-0 cell' is the exact statement for cells of a refinement)."""
        for r in self.roots:
            if r[0] <= e[0] < e[2] <= r[2] and r[1] <= e[1] < e[3] <= r[3]:
                return True
        return False

    def domain_area(self):
        return sum((Fraction(r[2]) - Fraction(r[0])) * (Fraction(r[3]) - Fraction(r[1])) for r in self.roots)

    def area(self):
        return sum((Fraction(e[2]) - Fraction(e[0])) * (Fraction(e[3]) - Fraction(e[1])) for e in self.leaves)

    def unbalanced(self):
        bad = []
        for e in self.leaves:
            for n in self.all_nbrs(e):
                if n[4] >= e[4] + 2:
                    bad.append((e, n))
        return bad

    # -- operations ------------------------------------------------------------------------------
    def _split(self, e):
        self._remove(e)
        q = quadrants(e)
        for c in q:
            self._add(c)
        return q

    def refine(self, e, lifo=True):
        """Requested refinement followed by the forced closure (worklist form). Returns the number of forced moves."""
        assert e in self.leaves, ('reference has no leaf', e)
        work = list(self._split(e))
        n = 0
        while work:
            c = work.pop() if lifo else work.pop(0)
            if c not in self.leaves:
                continue
            for b in self.all_nbrs(c):
                if b in self.leaves and b[4] + 2 <= c[4]:
                    work.extend(self._split(b))
                    work.append(c)
                    n += 1
        return n

    def close(self):
        """Least fixpoint of the forced rule from an arbitrary leaf set (repeated global scans)."""
        changed = True
        while changed:
            changed = False
            for b in sorted(self.leaves):
                if b not in self.leaves:
                    continue
                if any(n[4] >= b[4] + 2 for n in self.all_nbrs(b)):
                    self._split(b)
                    changed = True

    def refine_naive(self, e):
        assert e in self.leaves
        self._split(e)
        self.close()

    def refine_rect(self, rect, lifo=True):
        e = self.find(tuple(rect))
        assert e is not None, ('reference has no leaf', rect)
        return self.refine(e, lifo)

    def uniform(self):
        for e in sorted(self.leaves):
            self._split(e)

    # -- boundary --------------------------------------------------------------------------------
    def boundary_pieces(self):
        """Sides of level-0 cells that are not shared with another level-0 cell: the unit pieces of the boundary.
        Each piece is (axis, fixed, lo, hi): the segment {coordinate[axis] = fixed, lo <= other coordinate <= hi}."""
        sides = []
        for r in self.roots:
            x0, y0, x1, y1 = r
            sides += [(1, y0, x0, x1), (0, x1, y0, y1), (1, y1, x0, x1), (0, x0, y0, y1)]
        return sorted(s for s in sides if sides.count(s) == 1)

    def edge_leaves(self, axis, fixed, lo, hi):
        """Leaves that have an edge on the line coordinate[axis] = fixed whose extent contains [lo,hi] (exact).
        Returns [(leaf, equal?)]."""
        out = []
        if axis == 0:
            cands = set(self.by[0].get(fixed, ())) | set(self.by[2].get(fixed, ()))
            for f in cands:
                if f[1] <= lo and hi <= f[3]:
                    out.append((f, f[1] == lo and f[3] == hi))
        else:
            cands = set(self.by[1].get(fixed, ())) | set(self.by[3].get(fixed, ()))
            for f in cands:
                if f[0] <= lo and hi <= f[2]:
                    out.append((f, f[0] == lo and f[2] == hi))
        return out

    def target(self, axis, fixed, lo, hi, lifo=True):
        """Descent to the leaf whose edge is the boundary segment. Returns that leaf, or None if the mesh is
        already finer than the segment there (no leaf edge contains it - the request cannot be met by refining)."""
        assert lo < hi
        while True:
            c = self.edge_leaves(axis, fixed, lo, hi)
            if not c:
                return None
            assert len(c) == 1, ('segment is not on the boundary', axis, fixed, lo, hi, c)
            leaf, equal = c[0]
            if equal:
                return leaf
            self.refine(leaf, lifo)

    def target_by_closure(self, axis, fixed, lo, hi):
        """Same mesh, computed as: split the chain of ancestors of the target cell (no balancing), then close once."""
        while True:
            c = self.edge_leaves(axis, fixed, lo, hi)
            if not c:
                return None
            assert len(c) == 1
            leaf, equal = c[0]
            if equal:
                break
            self._split(leaf)
        self.close()
        return leaf


def ref_from_history(domain, hist):
    r = RefQuad(domain)
    for rect in hist:
        r.refine_rect(tuple(rect))
    return r
