"""State and transition oracles for the space-time mesh (C02 tiling/bookkeeping, C10 neighbours)."""
from fractions import Fraction

from .meshmc import leaf6, leafset, rect_of
from .refmesh import mid


def walk_tree(m):
    """Independent walk from the roots: (all elements, childless elements)."""
    stack = list(m.roots)
    allel, childless = [], []
    while stack:
        e = stack.pop()
        allel.append(e)
        if e.children:
            stack.extend(e.children)
        else:
            childless.append(e)
    return allel, childless


def check_tiling(m, ref, root_cells=None):
    """C02 state invariants.  Returns list of (tag, detail)."""
    errs = []
    leaves = list(m.leaf_elements)
    L6 = set(leaf6(e) for e in leaves)
    if len(L6) != len(leaves):
        errs.append(('dup-leaf', 'two leaves with the same rectangle'))
    if L6 != ref.leaves:
        errs.append(('leafset', {'only_impl': sorted(L6 - ref.leaves)[:3], 'only_ref': sorted(ref.leaves - L6)[:3]}))
    # exact tiling: areas add up and interiors are pairwise disjoint, all inside the cylinder
    area = sum((Fraction(e[1]) - Fraction(e[0])) * (Fraction(e[3]) - Fraction(e[2])) for e in L6)
    if area != ref.total_area():
        errs.append(('area', str(area)))
    Ls = sorted(L6)
    for i, a in enumerate(Ls):
        if not (ref.T0 <= a[0] < a[1] <= ref.T and ref.X0 <= a[2] < a[3] <= ref.L):
            errs.append(('outside', a))
        for b in Ls[i + 1:]:
            if b[0] >= a[1]:
                break
            if min(a[1], b[1]) > max(a[0], b[0]) and min(a[3], b[3]) > max(a[2], b[2]):
                errs.append(('overlap', (a, b)))
    # every leaf is the dyadic descendant its levels and parent chain say it is
    roots = set(id(r) for r in m.roots)
    for e in leaves:
        lt = lx = 0
        c = e
        ok = True
        while c.parent is not None:
            p = c.parent
            if c not in tuple(p.children):
                ok = False
                break
            dt, dx = c.levels[0] - p.levels[0], c.levels[1] - p.levels[1]
            pt, px = p.time_interval, p.space_interval
            ct, cx = c.time_interval, c.space_interval
            if (dt, dx) == (1, 0):
                m_ = mid(pt[0], pt[1])
                if not (cx == px and (ct == (pt[0], m_) or ct == (m_, pt[1]))):
                    ok = False
                lt += 1
            elif (dt, dx) == (0, 1):
                m_ = mid(px[0], px[1])
                if not (ct == pt and (cx == (px[0], m_) or cx == (m_, px[1]))):
                    ok = False
                lx += 1
            else:
                ok = False
            c = p
        if id(c) not in roots or tuple(c.levels) != (0, 0) or (lt, lx) != tuple(e.levels):
            ok = False
        if root_cells is not None and rect_of(c) not in root_cells:
            ok = False
        if not ok:
            errs.append(('descent', leaf6(e)))
        if e.h_t != e.time_interval[1] - e.time_interval[0] or e.h_x != e.space_interval[1] - e.space_interval[0]:
            errs.append(('sizes', leaf6(e)))
        vs = e.vertices
        if (vs[0].t, vs[2].t) != e.time_interval or (vs[0].x, vs[2].x) != e.space_interval or \
                vs[1].tx != (vs[0].t, vs[2].x) or vs[3].tx != (vs[2].t, vs[0].x):
            errs.append(('elem-vertices', leaf6(e)))
    # bookkeeping
    allel, childless = walk_tree(m)
    if set(map(id, childless)) != set(map(id, leaves)) or len(childless) != len(leaves):
        errs.append(('leafbook', (len(childless), len(leaves))))
    gi = [e.glob_idx for e in allel]
    if len(set(gi)) != len(gi):
        errs.append(('globidx-dup', None))
    if m.N_elements != len(allel) or sorted(gi) != list(range(len(allel))):
        errs.append(('globidx-count', (m.N_elements, len(allel))))
    seenv = {}
    for i, v in enumerate(m.vertices):
        if v.tx in seenv:
            errs.append(('dup-vertex', v.tx))
        seenv[v.tx] = v
        if v.idx != i:
            errs.append(('vertex-idx', (i, v.idx)))
    for e in leaves:
        for v in e.vertices:
            if seenv.get(v.tx) is not v:
                errs.append(('vertex-not-registered', v.tx))
    # 1-irregularity across every edge in both axes (geometric neighbours of the reference)
    for e6 in L6 & ref.leaves:
        for n in ref.all_nbrs(e6):
            if abs(n[4] - e6[4]) > 1 or abs(n[5] - e6[5]) > 1:
                errs.append(('irregular', (e6, n)))
    return errs


def check_gmsh(m):
    errs = []
    try:
        txt = m.gmsh()
        lines = txt.split('\n')
        i = lines.index('$Nodes')
        nv = int(lines[i + 1])
        nodes = {}
        for ln in lines[i + 2:i + 2 + nv]:
            a = ln.split()
            nodes[int(a[0])] = (float(a[1]), float(a[2]))
        if nv != len(m.vertices) or len(nodes) != nv or lines[i + 2 + nv] != '$EndNodes':
            errs.append(('gmsh-nodes', nv))
        j = lines.index('$Elements')
        ne = int(lines[j + 1])
        if ne != len(m.leaf_elements) or lines[j + 2 + ne] != '$EndElements':
            errs.append(('gmsh-elements', ne))
        for ln, e in zip(lines[j + 2:j + 2 + ne], m.leaf_elements):
            a = ln.split()
            ids = [int(x) for x in a[5:9]]
            pts = [nodes[k] for k in ids]
            t0, t1 = e.time_interval
            x0, x1 = e.space_interval
            if pts != [(t0, x0), (t0, x1), (t1, x1), (t1, x0)]:
                errs.append(('gmsh-elem', leaf6(e)))
    except Exception as ex:  # parse failure
        errs.append(('gmsh-parse', repr(ex)))
    return errs


def check_neighbours(m, ref):
    """C10 state invariants."""
    errs = []
    by6 = {leaf6(e): e for e in m.leaf_elements}
    leafids = set(map(id, m.leaf_elements))
    reported = {}
    for e in m.leaf_elements:
        r = leaf6(e)
        for side, edge in enumerate(e.edges):
            try:
                got = edge.neighbour_elements()
            except AssertionError:
                errs.append(('nbr-assert', (r, side)))
                continue
            except Exception as ex:
                errs.append(('nbr-raised', (r, side, repr(ex))))
                continue
            if any(g is None or id(g) not in leafids or g.children for g in got):
                errs.append(('nbr-nonleaf', (r, side)))
                continue
            gs = sorted(leaf6(g) for g in got)
            ex_ = sorted(ref.nbrs(r, side)) if r in ref.leaves else None
            reported[(r, side)] = gs
            if ex_ is not None and gs != ex_:
                errs.append(('nbr-set', {'elem': r, 'side': side, 'got': gs, 'expected': ex_}))
            if len(got) > 2:
                errs.append(('nbr>2', (r, side)))
            gb, gg = ref.geo_boundary(r, side), ref.geo_glued(r, side)
            if bool(edge.on_boundary) != gb or bool(edge.glued) != gg:
                errs.append(('flags', {'elem': r, 'side': side, 'on_boundary': edge.on_boundary, 'glued': edge.glued}))
            if gb and not gg and gs:
                errs.append(('boundary-has-nbrs', (r, side)))
            if (not gb or gg) and not gs:
                errs.append(('interior-no-nbrs', (r, side)))
    # symmetry: B reported across side s of A  =>  A reported across the opposite side of B
    for (r, side), gs in reported.items():
        opp = (side + 2) % 4
        for g in gs:
            if r not in reported.get((g, opp), ()):
                errs.append(('nbr-asym', (r, side, g)))
    return errs


def trans_leafset(cfg, h, op, m2, ref_before):
    """Transition oracle: the post-state leaf set equals the least 1-irregular refinement containing the
    requested bisection (reference closure), computed in two processing orders."""
    r = ref_before.copy()
    r.bisect_rect(op[0], op[1], lifo=True)
    got = leafset(m2)
    if got != r.leaves:
        return ('transition', {'only_impl': sorted(got - r.leaves)[:4], 'only_ref': sorted(r.leaves - got)[:4]})
    if len(h) <= 1:
        r2 = ref_before.copy()
        r2.bisect_naive(r2.find(op[0]), op[1])
        r3 = ref_before.copy()
        r3.bisect_rect(op[0], op[1], lifo=False)
        if r2.leaves != r.leaves or r3.leaves != r.leaves:
            raise RuntimeError('reference model closure depends on processing order')
    return None
