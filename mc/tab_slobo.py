"""Reference models for C14 (Slobodeckij seminorms), independent of src/norms.py.

Closed forms.  For a polynomial f and g(s) = f(a + h s) = sum_m c_m s^m on [0,1], with the divided difference
D(s,t) = (g(s)-g(t))/(s-t) = sum_m c_m sum_{p+q=m-1} s^p t^q:

    |f|^2_{H^1/2(a,b)} = int int (f(x)-f(y))^2 / (x-y)^2       = int_0^1 int_0^1 D^2 ds dt            = c^T G12 c
    |f|^2_{H^1/4(a,b)} = int int (f(x)-f(y))^2 / |x-y|^(3/2)   = sqrt(h) int int D^2 |s-t|^(1/2) ds dt = sqrt(h) c^T G14 c

with the rational Gram matrices
    G12[m][m'] = sum_{p+q=m-1} sum_{p'+q'=m'-1} 1/((p+p'+1)(q+q'+1))
    G14[m][m'] = sum ... M(p+p', q+q'),   M(p,q) = int int s^p t^q |s-t|^(1/2) = (B(p+1,3/2) + B(q+1,3/2)) / (p+q+5/2),
    B(q+1,3/2) = q! / prod_{k=0..q} (k + 3/2).
Everything is evaluated in mpmath (50 digits) from the doubles a, b the routine receives.  selftest() confirms both
closed forms against nested mpmath quadrature of an explicitly written divided difference.

Graded reference for the corner term: composite Gauss-Legendre on a geometric mesh towards the corner in both variables.
"""
import math
from fractions import Fraction

import numpy as np

from . import common

PMAX = 12
_G = {}


def _beta32(q):
    num = Fraction(math.factorial(q))
    den = Fraction(1)
    for k in range(q + 1):
        den *= Fraction(3, 2) + k
    return num / den


def _m14(p, q):
    return (_beta32(p) + _beta32(q)) / (p + q + Fraction(5, 2))


def grams():
    if not _G:
        n = PMAX
        g12 = [[Fraction(0)] * (n + 1) for _ in range(n + 1)]
        g14 = [[Fraction(0)] * (n + 1) for _ in range(n + 1)]
        m14 = {(p, q): _m14(p, q) for p in range(2 * n) for q in range(2 * n)}
        for m in range(1, n + 1):
            for m2 in range(m, n + 1):
                s12 = s14 = Fraction(0)
                for p in range(m):
                    q = m - 1 - p
                    for p2 in range(m2):
                        q2 = m2 - 1 - p2
                        s12 += Fraction(1, (p + p2 + 1) * (q + q2 + 1))
                        s14 += m14[(p + p2, q + q2)]
                g12[m][m2] = g12[m2][m] = s12
                g14[m][m2] = g14[m2][m] = s14
        import mpmath as mp
        with mp.workdps(60):
            _G['12'] = [[mp.mpf(x.numerator) / x.denominator for x in row] for row in g12]
            _G['14'] = [[mp.mpf(x.numerator) / x.denominator for x in row] for row in g14]
    return _G['12'], _G['14']


def local_coeffs(coefs, a, h):
    """coefficients of g(s) = f(a + h s), f = sum coefs[i] x^i (mpmath)."""
    import mpmath as mp
    n = len(coefs) - 1
    c = [mp.mpf(0)] * (n + 1)
    for i, ci in enumerate(coefs):
        if ci == 0:
            continue
        for m in range(i + 1):
            c[m] += ci * mp.binomial(i, m) * a ** (i - m) * h ** m
    return c


def exact_seminorms(coefs, a, b):
    """(|f|^2_{H^1/2(a,b)}, |f|^2_{H^1/4(a,b)}) as mpf, a and b taken as the exact doubles."""
    import mpmath as mp
    mp.mp.dps = 50
    g12, g14 = grams()
    a, b = mp.mpf(a), mp.mpf(b)
    h = b - a
    c = local_coeffs(coefs, a, h)
    n = len(c)
    e12 = mp.mpf(0)
    e14 = mp.mpf(0)
    for m in range(1, n):
        if c[m] == 0:
            continue
        for m2 in range(1, n):
            e12 += c[m] * c[m2] * g12[m][m2]
            e14 += c[m] * c[m2] * g14[m][m2]
    return e12, mp.sqrt(h) * e14


def selftest():
    """Closed forms against nested quadrature of a hand-written divided difference (f = x^3 + x^2 on [-2, 5.3])."""
    import mpmath as mp
    mp.mp.dps = 25
    a, b = mp.mpf(-2.0), mp.mpf(5.3)

    def dd(x, y):
        return x * x + x * y + y * y + x + y

    q12 = mp.quad(lambda x: mp.quad(lambda y: dd(x, y) ** 2, [a, b]), [a, b])
    q14 = mp.quad(lambda x: mp.quad(lambda y: dd(x, y) ** 2 * mp.sqrt(abs(x - y)), [a, x, b]), [a, b])
    e12, e14 = exact_seminorms([0, 0, 1, 1], -2.0, 5.3)
    r12, r14 = abs(q12 - e12) / e12, abs(q14 - e14) / e14
    mp.mp.dps = 50
    if not (r12 < 1e-20 and r14 < 1e-20):
        raise common.HarnessError('closed forms not confirmed by quadrature: {} {}'.format(r12, r14))
    return float(r12), float(r14)


# ---- graded reference for two straight pieces meeting in a corner ------------------------------------------------------
def graded_nodes(h, levels=30, n=16, sigma=0.5):
    gx, gw = np.polynomial.legendre.leggauss(n)
    gx, gw = 0.5 * (gx + 1), 0.5 * gw
    edges = [h * sigma ** k for k in range(levels + 1)] + [0.0]
    xs, ws = [], []
    for k in range(levels + 1):
        lo, hi = edges[k + 1], edges[k]
        xs.append(lo + (hi - lo) * gx)
        ws.append((hi - lo) * gw)
    return np.concatenate(xs), np.concatenate(ws)


def cross_reference(polys, corner, d1, d2, h1, h2, **kw):
    """int_0^h1 int_0^h2 (P(c - s d1) - P(c + t d2))^2 / |s d1 + t d2|^2 ds dt for every P in polys
    (P takes two arrays of embedded coordinates)."""
    s, ws = graded_nodes(h1, **kw)
    t, wt = graded_nodes(h2, **kw)
    S, T = np.meshgrid(s, t, indexing='ij')
    x1, y1 = corner[0] - S * d1[0], corner[1] - S * d1[1]
    x2, y2 = corner[0] + T * d2[0], corner[1] + T * d2[1]
    r2 = (x1 - x2) ** 2 + (y1 - y2) ** 2
    return [float(ws @ ((P(x1, y1) - P(x2, y2)) ** 2 / r2) @ wt) for P in polys]


def selftest_graded():
    """Right angle: P = x -> 1/2, P = x + y -> 1 + log 2 (unit legs); straight 'corner' of angle pi: the composite value
    equals the flat closed form over the union."""
    c = (0.0, 0.0)
    v = cross_reference([lambda x, y: x, lambda x, y: x + y], c, (1.0, 0.0), (0.0, 1.0), 1.0, 1.0)
    e1 = abs(v[0] - 0.5)
    e2 = abs(v[1] - (1 + math.log(2.0))) / (1 + math.log(2.0))
    # angle pi: pieces [-h1, 0] and [0, h2] on the x axis, P(x,y) = x^3 - 2x: total = Q11 + Q22 + 2 R12
    h1, h2 = 0.75, 2.0
    r12 = cross_reference([lambda x, y: x ** 3 - 2 * x], c, (1.0, 0.0), (1.0, 0.0), h1, h2)[0]
    coefs = [0, -2, 0, 1]
    tot = exact_seminorms(coefs, -h1, h2)[0]
    q11 = exact_seminorms(coefs, -h1, 0.0)[0]
    q22 = exact_seminorms(coefs, 0.0, h2)[0]
    e3 = abs(float(q11 + q22) + 2 * r12 - float(tot)) / float(tot)
    if not (e1 < 1e-13 and e2 < 1e-13 and e3 < 1e-13):
        raise common.HarnessError('graded reference not confirmed: {} {} {}'.format(e1, e2, e3))
    return e1, e2, e3


def bernstein_rho(r):
    """Bernstein-ellipse parameter of Gauss-Legendre on [0,1] for an integrand with poles at y = +- i r."""
    z0 = complex(-1.0, 2.0 * r)
    w = (z0 * z0 - 1) ** 0.5
    return max(abs(z0 + w), abs(z0 - w))
