"""Independent evaluation of the patch integrals behind the Sobolev / weighted-L2 indicators (C09).

space patch:  int_{ta}^{tb} dt  int int_{I x I} (r(t,x)-r(t,y))^2 / |gamma(x)-gamma(y)|^2 dx dy,   I = union arc
time patch:   int_{xa}^{xb} dx  int int_{J x J} (r(s,x)-r(t,x))^2 / |s-t|^{3/2} ds dt,            J = union interval
weighted L2:  int_elem r^2.
The arc I is a list of segments (piece function, a, b) in the order in which the curve traverses them; Euclidean
distances of the embedded points are used throughout (no parameter differences), so corners and the closing seam
need no special treatment beyond grading the cross blocks towards the common point."""
import numpy as np
from numpy.polynomial.legendre import leggauss


def gl(n):
    x, w = leggauss(n)
    return (x + 1) / 2, w / 2


def graded01(n=10, levels=14, sigma=0.2):
    """composite Gauss on (0,1] graded towards 0"""
    x, w = gl(n)
    xs, ws = [], []
    hi = 1.0
    for l in range(levels):
        lo = hi * sigma if l < levels - 1 else 0.0
        xs.append(lo + (hi - lo) * x)
        ws.append((hi - lo) * w)
        hi = lo
    return np.concatenate(xs), np.concatenate(ws)


GX, GW = graded01()
T_N = 14


class Residual:
    """r(t, x_hat, X) with X = gamma(x_hat); `fun` has the signature the estimator expects."""
    def __init__(self, name, f, deg_t, deg_x, geometric):
        self.name, self.f, self.deg_t, self.deg_x, self.geometric = name, f, deg_t, deg_x, geometric

    def fun(self, t, x_hat, gamma):
        t = np.asarray(t, dtype=float)
        x_hat = np.asarray(x_hat, dtype=float)
        return self.f(t, x_hat, gamma(x_hat)) + 0 * t


FAMILY = [
    Residual('1', lambda t, xh, X: 1.0 + 0 * xh, 0, 0, True),
    Residual('t', lambda t, xh, X: t + 0 * xh, 1, 0, True),
    Residual('x', lambda t, xh, X: xh + 0 * t, 0, 1, False),
    Residual('t*x', lambda t, xh, X: t * xh, 1, 1, False),
    Residual('x^2', lambda t, xh, X: xh**2 + 0 * t, 0, 2, False),
    Residual('t^2', lambda t, xh, X: t**2 + 0 * xh, 2, 0, True),
    Residual('exp(X1)', lambda t, xh, X: np.exp(X[0]) + 0 * t, 0, None, True),
    Residual('sin(2*X2)*t', lambda t, xh, X: np.sin(2 * X[1]) * t, 1, None, True),
]
BYNAME = {r.name: r for r in FAMILY}
_PER = {}


def family_for(L):
    """FAMILY plus a residual that depends on the PARAMETER x_hat (not only on the embedded point) and is continuous
    across the closing seam (period L in x_hat): catches code that evaluates the residual outside [0, L] or with an
    unwrapped parameter on seam patches.  'geometric' here means: admissible on seam patches."""
    if L not in _PER:
        k = 2 * np.pi / L
        _PER[L] = Residual('cos(k*xh)+t*sin(2k*xh)[L={:.6g}]'.format(L),
                           lambda t, xh, X, k=k: np.where((xh >= 0) & (xh <= L), np.cos(k * xh) + t * np.sin(2 * k * xh), np.nan),
                           1, None, True)
    return FAMILY + [_PER[L]]


def _block(res, t, seg1, seg2, same):
    """int int over seg1 x seg2 of (r(x)-r(y))^2/|X-Y|^2 at fixed time t."""
    g1, a1, b1 = seg1
    g2, a2, b2 = seg2
    if same:
        x, wx = gl(24)
        y, wy = gl(25)
        xs = a1 + (b1 - a1) * x
        ys = a2 + (b2 - a2) * y
        WX, WY = (b1 - a1) * wx, (b2 - a2) * wy
    else:
        # graded towards the common point: end of seg1 (b1) and start of seg2 (a2)
        xs = b1 - (b1 - a1) * GX
        ys = a2 + (b2 - a2) * GX
        WX, WY = (b1 - a1) * GW, (b2 - a2) * GW
    X = g1(xs)
    Y = g2(ys)
    fx = res.f(np.full_like(xs, t), xs, X)
    fy = res.f(np.full_like(ys, t), ys, Y)
    d2 = (X[0][:, None] - Y[0][None, :])**2 + (X[1][:, None] - Y[1][None, :])**2
    num = (np.asarray(fx)[:, None] - np.asarray(fy)[None, :])**2
    return float(np.sum(WX[:, None] * WY[None, :] * num / d2))


def space_patch(res, ta, tb, segs):
    """segs: list of (gamma_piece, a, b) along the curve."""
    tx, tw = gl(T_N)
    tot = 0.0
    for t, w in zip(ta + (tb - ta) * tx, (tb - ta) * tw):
        s = 0.0
        for i, si in enumerate(segs):
            for j, sj in enumerate(segs):
                if i == j:
                    s += _block(res, t, si, sj, True)
                elif i < j:
                    s += 2 * _block(res, t, si, sj, False)
        tot += w * s
    return tot


def time_patch(res, ta, tb, xa, xb, gam):
    """int_{xa}^{xb} |r(.,x)|^2_{H^{1/4}(ta,tb)} dx via u = s - t = w^2."""
    xx, xw = gl(T_N)
    h = tb - ta
    wn, ww = gl(20)
    tn, tw = gl(14)
    tot = 0.0
    xs = xa + (xb - xa) * xx
    X = gam(xs)
    for k, (x, wxk) in enumerate(zip(xs, (xb - xa) * xw)):
        Xk = X[:, k:k + 1]
        s = 0.0
        for w_, ww_ in zip(np.sqrt(h) * wn, np.sqrt(h) * ww):
            u = w_ * w_
            t = ta + (h - u) * tn
            r1 = res.f(t + u, np.full_like(t, x), np.repeat(Xk, len(t), axis=1))
            r0 = res.f(t, np.full_like(t, x), np.repeat(Xk, len(t), axis=1))
            inner = (h - u) * np.sum(tw * (np.asarray(r1) - np.asarray(r0))**2)
            s += ww_ * 2 * w_ * inner / u**1.5
        tot += wxk * 2 * s
    return tot


def l2_patch(res, ta, tb, xa, xb, gam):
    tx, tw = gl(24)
    xs = xa + (xb - xa) * tx
    X = gam(xs)
    tot = 0.0
    for t, w in zip(ta + (tb - ta) * tx, (tb - ta) * tw):
        r = res.f(np.full_like(xs, t), xs, X)
        tot += w * (xb - xa) * np.sum(tw * np.asarray(r)**2)
    return tot


def selftest():
    """Numeric patch integrals against the exact rational closed forms of mc/tab_slobo on a straight segment."""
    from . import tab_slobo
    import mpmath as mp

    def line(x):
        x = np.asarray(x, dtype=float)
        return np.vstack([0.3 + 0.6 * x, 1.0 - 0.8 * x])  # unit speed
    a, b = 0.25, 1.5
    # r = x^2 at any t: H^1/2 on [a,b]
    h12, _ = tab_slobo.exact_seminorms([0, 0, 1], a, b)
    got = space_patch(BYNAME['x^2'], 0.0, 2.0, [(line, a, b)])
    if abs(got - 2.0 * float(h12)) > 1e-11 * float(h12):
        raise AssertionError(('space_patch selftest', got, 2 * float(h12)))
    got2 = space_patch(BYNAME['x^2'], 0.0, 2.0, [(line, a, 0.7), (line, 0.7, b)])
    if abs(got2 - 2.0 * float(h12)) > 1e-9 * float(h12):
        raise AssertionError(('space_patch two-segment selftest', got2, 2 * float(h12)))
    _, h14 = tab_slobo.exact_seminorms([0, 0, 1], a, b)
    got3 = time_patch(BYNAME['t^2'], a, b, 0.0, 0.5, line)
    if abs(got3 - 0.5 * float(h14)) > 1e-10 * float(h14):
        raise AssertionError(('time_patch selftest', got3, 0.5 * float(h14)))
    return True
