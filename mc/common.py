"""Shared plumbing: run context, evidence writer, violation / known-finding protocol, replay files,
harness-side process pool (independent of anything the code under test does with multiprocessing)."""
import hashlib
import json
import multiprocessing
import os
import sys
import time

VERIF = os.path.dirname(os.path.dirname(os.path.abspath(__file__)))
REPO = os.environ.get('STBEM_REPO', '/repo')
if REPO not in sys.path:
    sys.path.insert(0, REPO)

# Keep references to the genuine multiprocessing primitives before any check patches them.
_FORK = multiprocessing.get_context('fork')
REAL_POOL = _FORK.Pool
REAL_CPU_COUNT = multiprocessing.cpu_count


def jsonable(o):
    """Best-effort conversion of tuples / numpy scalars / Fractions to JSON."""
    import fractions
    try:
        import numpy as np
    except Exception:  # pragma: no cover
        np = None
    if isinstance(o, dict):
        return {str(k): jsonable(v) for k, v in o.items()}
    if isinstance(o, (list, tuple, set, frozenset)):
        return [jsonable(v) for v in o]
    if isinstance(o, fractions.Fraction):
        return str(o)
    if np is not None:
        if isinstance(o, np.ndarray):
            return jsonable(o.tolist())
        if isinstance(o, (np.floating, )):
            return float(o)
        if isinstance(o, (np.integer, )):
            return int(o)
        if isinstance(o, (np.bool_, )):
            return bool(o)
    if isinstance(o, float):
        if o != o or o in (float('inf'), float('-inf')):
            return repr(o)
        return o
    if isinstance(o, (int, str, bool)) or o is None:
        return o
    return repr(o)


class HarnessError(Exception):
    """The machinery itself failed (exit 2) - never a verdict about the property."""


class Ctx:
    def __init__(self, prop, tier, seed, jobs):
        self.prop = prop
        self.tier = tier
        self.seed = seed
        self.jobs = jobs
        self.t0 = time.time()
        self.n_viol = 0
        self.n_known = 0
        self._printed_known = set()
        self._written = 0
        self.max_replays = 10
        self.notes = []
        self.kf = load_known_findings()
        self.violation_keys = []

    # ---- reporting -------------------------------------------------------------------------
    def match_known(self, key):
        for f in self.kf.get('findings', []):
            if f.get('property') != self.prop:
                continue
            m = f.get('match', {})
            if all(jsonable(key.get(k)) == v for k, v in m.items()):
                return f
        return None

    def violation(self, key, what, replay):
        """key: dict identifying the failing input class (matched against known findings);
        replay: JSON-able dict sufficient to re-execute the single case."""
        f = self.match_known(key)
        if f is not None:
            self.n_known += 1
            if f['id'] not in self._printed_known:
                self._printed_known.add(f['id'])
                print('KNOWN-FINDING: property={} {}'.format(self.prop, f['what']), flush=True)
            return False
        self.n_viol += 1
        self.violation_keys.append(jsonable(key))
        if self._written < self.max_replays:
            self._written += 1
            body = {'property': self.prop, 'key': jsonable(key), 'what': what, 'replay': jsonable(replay)}
            blob = json.dumps(body, sort_keys=True, indent=1)
            h = hashlib.sha1(blob.encode()).hexdigest()[:16]
            d = os.path.join(os.environ.get('VERIF_REPLAY_DIR') or os.path.join(VERIF, 'replays'), self.prop)
            os.makedirs(d, exist_ok=True)
            path = os.path.join(d, h + '.json')
            with open(path, 'w') as fh:
                fh.write(blob)
            print('VIOLATION property={} replay={}'.format(self.prop, path), flush=True)
            print('  ' + what[:600], flush=True)
        return True

    def note(self, s):
        self.notes.append(s)
        print('[{}] {}'.format(self.prop, s), flush=True)

    # ---- evidence --------------------------------------------------------------------------
    def finish(self, level, coverage, assumptions=()):
        cov = jsonable(coverage)
        cov.setdefault('known_finding_hits', self.n_known)
        if self.notes:
            cov.setdefault('notes', self.notes[-40:])
        ev = {
            'property_id': self.prop,
            'tier': self.tier,
            'seed': int(self.seed),
            'level': level,
            'coverage': cov,
            'assumptions': list(assumptions),
            'wall_s': round(time.time() - self.t0, 2),
            'violations': int(self.n_viol),
        }
        d = os.environ.get('VERIF_EVIDENCE_DIR') or os.path.join(VERIF, 'evidence')
        os.makedirs(d, exist_ok=True)
        tmp = os.path.join(d, self.prop + '.json.tmp')
        with open(tmp, 'w') as fh:
            json.dump(ev, fh, indent=1, sort_keys=True)
        os.replace(tmp, os.path.join(d, self.prop + '.json'))
        if self.violation_keys:
            agg = {}
            for k in self.violation_keys:
                kk = json.dumps(k, sort_keys=True)
                agg[kk] = agg.get(kk, 0) + 1
            print('[{}] violation keys:'.format(self.prop), flush=True)
            for kk, c in sorted(agg.items(), key=lambda x: -x[1])[:40]:
                print('    {:6d} x {}'.format(c, kk), flush=True)
        summary = {k: v for k, v in cov.items() if isinstance(v, (int, float, bool))}
        print('[{}] tier={} seed={} wall={}s violations={} known_hits={} coverage={}'.format(
            self.prop, self.tier, self.seed, ev['wall_s'], self.n_viol, self.n_known, summary), flush=True)
        return 1 if self.n_viol else 0


def load_known_findings():
    p = os.path.join(VERIF, 'known_findings.json')
    if not os.path.exists(p):
        return {'findings': [], 'fixed': []}
    with open(p) as fh:
        return json.load(fh)


# ---- harness-side parallel map ----------------------------------------------------------------
def pmap(fn, items, jobs, chunksize=None, init=None, initargs=()):
    """Ordered parallel map over a list with a genuine fork pool (results in input order)."""
    items = list(items)
    if jobs <= 1 or len(items) <= 1:
        if init:
            init(*initargs)
        return [fn(x) for x in items]
    if chunksize is None:
        chunksize = max(1, min(64, len(items) // (jobs * 8) + 1))
    with REAL_POOL(min(jobs, len(items)), initializer=init, initargs=initargs) as p:
        return p.map(fn, items, chunksize)


def digest(obj):
    return hashlib.blake2b(repr(obj).encode(), digest_size=16).digest()


def pmap_fresh(fn, items, jobs):
    """Like pmap, but every item runs in a brand-new worker process forked from the harness' main process
    (maxtasksperchild=1): whatever module-level / class-level state the code under test accumulates while serving one
    item cannot leak into another item.  Used for call-history clauses ('state after serving A must not change B')."""
    items = list(items)
    if not items:
        return []
    with REAL_POOL(min(jobs, len(items)), maxtasksperchild=1) as p:
        return p.map(fn, items, 1)
