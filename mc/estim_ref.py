"""Reference model for C20: the h-h/2 and hierarchical estimators computed from their DEFINITIONS on a really
refined copy of the mesh.  Nothing here imports src.h_h2_error_estimator / src.hierarchical_error_estimator /
mesh.Prolongate; the only repo functions used are Mesh.refine_axis (real bisection), SingleLayerOperator.bilform and
InitialOperator.linform, each called for ONE pair / ONE element at a time.

Conventions (from the property text, not from the code):
  * fine mesh  = every coarse leaf R = [t0,t1]x[x0,x1] replaced by its four quarters (IEEE double midpoints);
  * extension  = the fine vector that carries Phi[i] on every fine element geometrically contained in coarse leaf i;
  * psi_time   = +1 on the quarters in the earlier time half, -1 on the later ones,
    psi_space  = +1 on the quarters in the left space half (smaller parameter), -1 on the right ones,
    psi_check  = psi_time * psi_space;
  * indicator of a two-level function psi: |<data, psi> - <V Phi, psi>|^2 / <V psi, psi>, where <data, 1_e> =
    g-linform(e) - <M0 u0, 1_e>; time indicator = term(psi_time) + term(psi_check)/2, space indicator =
    term(psi_space) + term(psi_check)/2;
  * h-h/2 = sqrt(d^T A_fine d), d = A_fine^{-1} data_fine - extension(Phi)."""
import numpy as np

from .common import HarnessError
from .meshmc import rect_of


# ---- geometry ---------------------------------------------------------------------------------------------------
def quarter_rects(rect):
    """The four quarters of a rectangle, keyed by (time half, space half) with 0 = earlier / left, 1 = later / right."""
    t0, t1, x0, x1 = rect
    tm = (t0 + t1) / 2
    xm = (x0 + x1) / 2
    return {(0, 0): (t0, tm, x0, xm), (0, 1): (t0, tm, xm, x1), (1, 0): (tm, t1, x0, xm), (1, 1): (tm, t1, xm, x1)}


def contains(big, small):
    return big[0] <= small[0] and small[1] <= big[1] and big[2] <= small[2] and small[3] <= big[3]


def containing_index(coarse_rects, rect):
    """Index of the unique coarse rectangle that contains `rect` (None / HarnessError-free: returns list of hits)."""
    return [i for i, R in enumerate(coarse_rects) if contains(R, rect)]


def refine_to_quarters(m):
    """Bisect every leaf of the REAL mesh m in time and both halves in space (ascending level order, so that the
    conformity closure of refine_axis never bisects anything on its own) and verify that the leaves afterwards are
    exactly the four quarters of every former leaf.  Returns (coarse elements, fine leaf elements)."""
    coarse = list(m.leaf_elements)
    expected = set()
    for e in coarse:
        expected.update(quarter_rects(rect_of(e)).values())
    for e in sorted(coarse, key=lambda e: e.levels[0]):
        if e.children:
            raise HarnessError('reference quartering: closure bisected {} before its turn (time phase)'.format(e))
        m.refine_axis(e, 0)
    halves = list(m.leaf_elements)
    if len(halves) != 2 * len(coarse):
        raise HarnessError('reference quartering: {} leaves after the time phase, expected {}'.format(len(halves), 2 * len(coarse)))
    for e in sorted(halves, key=lambda e: e.levels[1]):
        if e.children:
            raise HarnessError('reference quartering: closure bisected {} before its turn (space phase)'.format(e))
        m.refine_axis(e, 1)
    fine = list(m.leaf_elements)
    got = [rect_of(e) for e in fine]
    if len(fine) != 4 * len(coarse) or set(got) != expected or len(set(got)) != len(got):
        raise HarnessError('reference quartering did not produce exactly the quarters of every leaf')
    return coarse, fine


# ---- data functionals written from the problem statements (not the driver's lambdas) ------------------------------
def g_linform_ref(problem, rect):
    """<g, 1_e> for e = [t0,t1]x[x0,x1] (arc-length parametrisation): g = 1 (Dirichlet), g = t^2 (MildSingular)."""
    t0, t1, x0, x1 = rect
    if problem == 'Dirichlet':
        return (t1 - t0) * (x1 - x0)
    if problem == 'MildSingular':
        return (x1 - x0) * (t1**3 - t0**3) / 3
    return 0.0


class FineReference:
    """Everything the definitions need for one mesh: real coarse + fine elements of a second mesh object, the fine
    matrix, the fine-test x coarse-trial matrix, geometric parent map and sign patterns."""
    def __init__(self, m2, SL2):
        self.coarse, fine = refine_to_quarters(m2)
        # a deliberately different numbering from anything the code under test uses: sort by rectangle
        self.fine = sorted(fine, key=rect_of)
        self.crect = [rect_of(e) for e in self.coarse]
        self.frect = [rect_of(e) for e in self.fine]
        self.fidx = {r: j for j, r in enumerate(self.frect)}
        self.cidx = {r: i for i, r in enumerate(self.crect)}
        N, n = len(self.coarse), len(self.fine)
        # geometric containment, with the uniqueness that a tiling guarantees
        self.parent = np.zeros(n, dtype=int)
        for j, r in enumerate(self.frect):
            hits = containing_index(self.crect, r)
            if len(hits) != 1:
                raise HarnessError('fine element {} contained in {} coarse leaves'.format(r, len(hits)))
            self.parent[j] = hits[0]
        # sign patterns from the geometry of the fine element relative to the centre of its coarse element
        self.s_time = np.zeros(n)
        self.s_space = np.zeros(n)
        for j, r in enumerate(self.frect):
            R = self.crect[self.parent[j]]
            ct, cx = (R[0] + R[1]) / 2, (R[2] + R[3]) / 2
            ft, fx = (r[0] + r[1]) / 2, (r[2] + r[3]) / 2
            if ft == ct or fx == cx:
                raise HarnessError('fine element centred on the coarse centre')
            self.s_time[j] = 1.0 if ft < ct else -1.0
            self.s_space[j] = 1.0 if fx < cx else -1.0
        self.s_check = self.s_time * self.s_space
        self.children = [np.flatnonzero(self.parent == i) for i in range(N)]
        for i, ch in enumerate(self.children):
            if len(ch) != 4 or abs(self.s_time[ch].sum()) + abs(self.s_space[ch].sum()) + abs(self.s_check[ch].sum()) != 0:
                raise HarnessError('coarse leaf {} does not have four balanced quarters'.format(self.crect[i]))
        # single-pair assembly: A[a, b] = <V 1_b, 1_a> (row = test, column = trial)
        self.n_single = 0
        self.A = np.zeros((n, n))
        for a, te in enumerate(self.fine):
            for b, tr in enumerate(self.fine):
                self.A[a, b] = SL2.bilform(tr, te)
                self.n_single += 1
        self.B = np.zeros((n, N))
        for a, te in enumerate(self.fine):
            for i, tr in enumerate(self.coarse):
                self.B[a, i] = SL2.bilform(tr, te)
                self.n_single += 1
        # <V psi, psi> per coarse element and pattern
        self.scal = np.zeros((N, 3))
        for i, ch in enumerate(self.children):
            blk = self.A[np.ix_(ch, ch)]
            for k, s in enumerate((self.s_time, self.s_space, self.s_check)):
                self.scal[i, k] = s[ch] @ blk @ s[ch]

    def data(self, problem_g, M02):
        """<data, 1_e> on the fine elements: g-linform (own formula) minus single M0 linform calls."""
        v = np.array([g_linform_ref(problem_g, r) for r in self.frect], dtype=float)
        if M02 is not None:
            v = v - np.array([M02.linform(e)[0] for e in self.fine], dtype=float)
        return v

    def extension(self, Phi):
        return np.asarray(Phi, dtype=float)[self.parent]

    def hh2(self, data_f, Phi):
        """(estimator, natural scale = energy norms of the fine solution and of the extension)."""
        phi_f = np.linalg.solve(self.A, data_f)
        ext = self.extension(Phi)
        d = phi_f - ext
        en = lambda v: float(np.sqrt(max(v @ self.A @ v, 0.0)))
        return en(d), en(phi_f) + en(ext), en(phi_f)

    def hier(self, data_f, Phi):
        """(N x 2 indicators [time, space], N x 3 terms, natural scale S = largest un-cancelled term
        (sum_children |<data,1_c>| + |<V Phi,1_c>|)^2 / <V psi,psi>, i.e. the size of the numbers whose rounding
        errors enter an indicator; S >= every indicator and S > 0 whenever the data do not vanish)."""
        Phi = np.asarray(Phi, dtype=float)
        VPhi = self.B @ Phi
        N = len(self.coarse)
        terms = np.zeros((N, 3))
        mag = 0.0
        for i, ch in enumerate(self.children):
            for k, s in enumerate((self.s_time, self.s_space, self.s_check)):
                r = float(s[ch] @ data_f[ch])
                v = float(s[ch] @ VPhi[ch])
                terms[i, k] = abs(r - v)**2 / self.scal[i, k]
                mag = max(mag, float(np.abs(data_f[ch]).sum() + np.abs(VPhi[ch]).sum())**2 / self.scal[i, k])
        ind = np.stack([terms[:, 0] + 0.5 * terms[:, 2], terms[:, 1] + 0.5 * terms[:, 2]], axis=1)
        return ind, terms, mag


def prolongate_ref(vec_coarse, coarse_rects, fine_rects):
    """Piecewise-constant prolongation by geometric containment; None where containment is not unique."""
    out = []
    for r in fine_rects:
        hits = containing_index(coarse_rects, r)
        out.append(vec_coarse[hits[0]] if len(hits) == 1 else None)
    return out
