"""./check <ID> [--tier quick|thorough] [--replay FILE] [--jobs N]"""
import argparse
import importlib
import json
import os
import sys
import traceback

from . import common


def main():
    ap = argparse.ArgumentParser()
    ap.add_argument('prop')
    ap.add_argument('--tier', default=os.environ.get('VERIF_TIER', 'quick'))
    ap.add_argument('--replay', default=None)
    ap.add_argument('--jobs', type=int, default=int(os.environ.get('VERIF_JOBS', '0')) or min(16, os.cpu_count() or 1))
    a = ap.parse_args()
    if a.tier not in ('quick', 'thorough'):
        a.tier = 'quick'
    try:
        seed = int(os.environ.get('VERIF_SEED', '0'))
    except ValueError:
        seed = 0
    mod = importlib.import_module('props.' + a.prop)
    ctx = common.Ctx(a.prop, a.tier, seed, a.jobs)
    try:
        if a.replay:
            with open(a.replay) as fh:
                body = json.load(fh)
            ok = mod.replay(ctx, body['replay'])
            print('replay: {}'.format('property holds on this case' if ok else 'violation reproduced'))
            sys.exit(0 if ok else 1)
        rc = mod.run(ctx)
        sys.exit(rc)
    except common.HarnessError as e:
        print('HARNESS-ERROR {}: {}'.format(a.prop, e), flush=True)
        traceback.print_exc()
        sys.exit(2)


if __name__ == '__main__':
    sys.path.insert(0, common.VERIF)
    main()
