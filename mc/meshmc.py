"""E1: explicit-state exploration of the real src.mesh.Mesh / MeshParametrized objects.

A state is a history of bisections named by geometry ((t0,t1,x0,x1), axis), replayed on a fresh real object.
States are merged on the structural fingerprint of the half-edge graph (see DESIGN 2.2)."""
import random
import sys
import time

from . import common
from .common import digest, pmap
from .refmesh import RefMesh

import src.mesh as M  # noqa: E402  (path set up by common)
from src.mesh import Mesh, MeshParametrized  # noqa: E402

M.print = lambda *a, **k: None  # silence the Doerfler / grading chatter of the module under test


# ---------------------------------------------------------------------------------------------------
# Horizon: a refinement-count cap around Mesh.refine_axis (class attribute, so recursion is counted too)
class Horizon(BaseException):
    pass


class _H:
    count = 0
    limit = 10**9
    log = None  # optional list of (depth, rect, ax) for top-level call tracking
    depth = 0


_orig_refine_axis = Mesh.refine_axis


def _counted_refine_axis(self, elem, ax):
    _H.count += 1
    if _H.count > _H.limit:
        raise Horizon()
    if _H.log is not None:
        _H.log.append((_H.depth, rect_of(elem), ax))
    _H.depth += 1
    try:
        return _orig_refine_axis(self, elem, ax)
    finally:
        _H.depth -= 1


Mesh.refine_axis = _counted_refine_axis


class horizon:
    """with horizon(limit, log=None): ...  (raises Horizon when more than `limit` bisections happen)"""
    def __init__(self, limit, log=None):
        self.limit, self.log = limit, log

    def __enter__(self):
        self.saved = (_H.count, _H.limit, _H.log, _H.depth)
        _H.count, _H.limit, _H.log, _H.depth = 0, self.limit, self.log, 0
        return self

    def __exit__(self, *a):
        self.used = _H.count
        _H.count, _H.limit, _H.log, _H.depth = self.saved
        return False


# ---------------------------------------------------------------------------------------------------
# Configurations
_CURVES = {}


def _custom_curve(name):
    """Non-shipped curves that the constructors accept ('all closed curves' in the quantifications):
    ThinRect      rectangle [0,2] x [0,1/8]: points close in the plane and far apart along the boundary
    ShiftedSquare unit square translated by (1,1): a closed polygon that does not start in the origin
    OpenEll       open polyline (0,0)-(2,0)-(2,1)
    BigCircle     one-piece circle of radius 2 (length 4 pi, not 2 pi)
    Stadium       two straight sides of length 2 joined by two half circles of arc length 2 (pieces of different curvature)"""
    import numpy as np
    import src.parametrization as P
    V = lambda pts: [np.array(p, dtype=float) for p in pts]
    if name == 'ThinRect':
        return P.PiecewisePolygon(V(((0, 0), (2, 0), (2, .125), (0, .125), (0, 0))))
    if name == 'ShiftedSquare':
        return P.PiecewisePolygon(V(((1, 1), (2, 1), (2, 2), (1, 2), (1, 1))))
    if name == 'OpenEll':
        return P.PiecewisePolygon(V(((0, 0), (2, 0), (2, 1))), closed=False)
    if name == 'BigCircle':
        return P.PiecewiseParametrization([0, 4 * np.pi], [lambda x: 2.0 * P.circle(np.asarray(x, dtype=float) / 2.0)])
    if name == 'Stadium':
        R = 2.0 / np.pi

        def bottom(x):
            x = np.asarray(x, dtype=float)
            return np.vstack([x, 0 * x])

        def snap(x, P_, x0, p0, x1, p1):
            """bit-exact joints (the Slobodeckij corner rule asserts gamma_1(b_1) == gamma_2(a_2), as the polygon constructor does)"""
            x = np.atleast_1d(np.asarray(x, dtype=float))
            for xe, pe in ((x0, p0), (x1, p1)):
                P_[0] = np.where(x == xe, pe[0], P_[0])
                P_[1] = np.where(x == xe, pe[1], P_[1])
            return P_

        def right(x):
            th = -np.pi / 2 + (np.asarray(x, dtype=float) - 2.0) / R
            return snap(x, np.vstack([2.0 + R * np.cos(th), R + R * np.sin(th)]), 2.0, (2.0, 0.0), 4.0, (2.0, 2 * R))

        def top(x):
            x = np.asarray(x, dtype=float)
            return np.vstack([2.0 - (x - 4.0), 2 * R + 0 * x])

        def left(x):
            th = np.pi / 2 + (np.asarray(x, dtype=float) - 6.0) / R
            return snap(x, np.vstack([R * np.cos(th), R + R * np.sin(th)]), 6.0, (0.0, 2 * R), 8.0, (0.0, 0.0))
        return P.PiecewiseParametrization([0, 2.0, 4.0, 6.0, 8.0], [bottom, right, top, left])
    raise KeyError(name)


CUSTOM_CURVES = ('ThinRect', 'ShiftedSquare', 'OpenEll', 'BigCircle', 'Stadium')


def curve(name):
    if name not in _CURVES:
        import src.parametrization as P
        _CURVES[name] = _custom_curve(name) if name in CUSTOM_CURVES else getattr(P, name)()
    return _CURVES[name]


def F(*v):
    return tuple(float(x) for x in v)


PLAIN = {
    'open1x1': ('plain', False, F(0, 1), F(0, 1)),
    'glued1x1': ('plain', True, F(0, 1), F(0, 1)),
    'glued2x1': ('plain', True, F(0, 1, 2), F(0, 1)),
    'glued3x1': ('plain', True, F(0, 1, 2, 3), F(0, 1)),
    'open2x2': ('plain', False, F(0, 1, 2), F(0, 1, 2)),
    'glued2x2': ('plain', True, F(0, 1, 2), F(0, 1, 2)),
    'open_irreg3x3': ('plain', False, F(0, .3, .8, 1), F(0, .4, .5, 2)),
    # the closed-curve flag as a NumPy boolean (what `np.all(verts[0] == verts[-1])` gives a caller), not the Python singleton
    'glued2x1np': ('plain', __import__('numpy').bool_(True), F(0, 1, 2), F(0, 1)),
    'glued_irreg3x3': ('plain', True, F(0, .3, .8, 1), F(0, .4, .5, 2)),
}
PARAM = {
    'UnitInterval': ('param', 'UnitInterval', None, F(0, 1), ''),
    'Circle': ('param', 'Circle', None, F(0, 1), ''),
    'UnitSquare': ('param', 'UnitSquare', None, F(0, 1), ''),
    'PiSquare': ('param', 'PiSquare', None, F(0, 1), ''),
    'LShape': ('param', 'LShape', None, F(0, 1), ''),
    'LShapeDriver': ('param', 'LShape', None, F(0, 1), 'driver'),
    'Circle2': ('param', 'Circle', None, F(0, 1, 2), ''),
    'UnitSquare2': ('param', 'UnitSquare', None, F(0, 1, 2), ''),
    'LShape2': ('param', 'LShape', None, F(0, 1, 2), ''),
    # custom tensor grids: elements of equal refinement LEVEL but different size on one side / in one slab family
    'UnitSquareT': ('param', 'UnitSquare', None, F(0, .25, 1), ''),
    'CircleT': ('param', 'Circle', None, F(0, .25, 1), ''),
    'UnitSquareX': ('param', 'UnitSquare', F(0, .25, 1, 2, 3, 4), F(0, 1), ''),
    'ThinRect': ('param', 'ThinRect', None, F(0, 1), ''),
    'BigCircle': ('param', 'BigCircle', None, F(0, 1), ''),
    'Stadium': ('param', 'Stadium', None, F(0, 1), ''),
    'ShiftedSquare': ('param', 'ShiftedSquare', None, F(0, 1), ''),
    # the same curves with initial grids whose elements are comparable in size (neighbour ratio <= 2, arcs of 1/16 of the circle)
    'BigCircleFine': ('param', 'BigCircle', tuple(float(4 * __import__('math').pi * k / 32) for k in range(32)) + (float(4 * __import__('math').pi), ), F(0, 1), ''),
    'ThinRectFine': ('param', 'ThinRect', tuple(k / 8 for k in range(35)), F(0, 1), ''),
    'StadiumFine': ('param', 'Stadium', tuple(k / 2 for k in range(17)), F(0, 1), ''),
    'OpenEll': ('param', 'OpenEll', None, F(0, 1), ''),
    # thin slabs at both ends of the time interval; a thin slab directly after a thick one
    'UnitSquareEnds': ('param', 'UnitSquare', None, F(0, 1 / 32, 31 / 32, 1), ''),
}
CFGS = dict(PLAIN)
CFGS.update(PARAM)


def rect_of(e):
    return e.time_interval + e.space_interval


def leaf6(e):
    return e.time_interval + e.space_interval + tuple(e.levels)


# named custom initial space grids (usable through the `pre` slot of a configuration / universe key)
NAMED_XS = {
    # one side of the unit square as [H][g][h][h][g][H] with h = 1/512, g = 8h, H = 247h: a tiny element at distance 8h from a
    # neighbour-of-neighbour 247 times its size (very unequal, close, disjoint panels on one straight side)
    'uneq': tuple(k / 512 for k in (0, 247, 255, 256, 257, 265, 512)) + (2.0, 3.0, 4.0),
    # two small elements (1/16 of the side) at either end of the FIRST side of a polygon, the rest of the side in one piece: small
    # far-apart panels on one long straight side without the hundreds of elements of a uniform level-4 refinement
    'ends': lambda g: tuple(float(v) for v in (0.0, g.pw_start[1] / 16, g.pw_start[1] / 8, g.pw_start[1] - g.pw_start[1] / 8,
                                               g.pw_start[1] - g.pw_start[1] / 16)) + tuple(float(v) for v in g.pw_start[1:]),
}


def fresh(cfg):
    """Fresh real mesh for a configuration (without replaying any history)."""
    if cfg[0] == 'plain':
        _, glue, xs, ts = cfg
        return Mesh(glue_space=glue, initial_space_mesh=list(xs), initial_time_mesh=list(ts))
    _, cname, xs, ts, pre = cfg
    if isinstance(pre, str) and pre.startswith('xs:'):
        xs, pre = NAMED_XS[pre[3:]], ''
        if callable(xs):
            xs = xs(curve(cname))
    m = MeshParametrized(curve(cname), initial_space_mesh=None if xs is None else list(xs),
                         initial_time_mesh=list(ts))
    if pre == 'driver':  # example.py: split the long sides of the L-shape
        for elem in list(m.leaf_elements):
            if elem.h_x > 1:
                m.refine_space(elem)
    return m


def find_leaf(m, rect):
    for e in m.leaf_elements:
        if e.time_interval[0] == rect[0] and e.time_interval[1] == rect[1] and \
                e.space_interval[0] == rect[2] and e.space_interval[1] == rect[3]:
            return e
    raise KeyError(rect)


def build(cfg, hist):
    m = fresh(cfg)
    for rect, ax in hist:
        m.refine_axis(find_leaf(m, rect), ax)
    return m


def ref_initial(cfg):
    """Reference initial state, from the configuration description alone."""
    if cfg[0] == 'plain':
        _, glue, xs, ts = cfg
        return RefMesh(glue, xs, ts)
    _, cname, xs, ts, pre = cfg
    g = curve(cname)
    if xs is None:
        xs = tuple(float(x) for x in g.pw_start)
    r = RefMesh(g.closed, xs, ts)
    if g.closed and len(xs) - 1 < 3:
        # a closed curve needs at least three elements around it: two rounds of space bisection
        for _ in range(2):
            for e in sorted(r.leaves):
                r.bisect(e, 1)
    if pre == 'driver':
        for e in sorted(r.leaves):
            if e[3] - e[2] > 1:
                r.bisect(e, 1)
    return r


def build_ref(cfg, hist):
    r = ref_initial(cfg)
    for rect, ax in hist:
        r.bisect_rect(rect, ax)
    return r


def leafset(m):
    return frozenset(leaf6(e) for e in m.leaf_elements)


def fingerprint(m):
    """Canonical serialisation of the half-edge graph reachable from the leaves."""
    def vid(v):
        return (v.t, v.x)

    def eid(e):
        if e is None:
            return None
        d = 0
        p = e
        while p.parent:
            p = p.parent
            d += 1
        return (vid(e.vertices[0]), vid(e.vertices[1]), d)

    out = []
    seen = set()
    stack = []
    for el in m.leaf_elements:
        stack.extend(el.edges)
    while stack:
        e = stack.pop()
        if id(e) in seen:
            continue
        seen.add(id(e))
        out.append((eid(e), eid(e.nbr_edge), eid(e.parent), tuple(eid(c) for c in e.children), e.glued,
                    e.on_boundary, leaf6(e.elem) if e.elem else None))
        for o in (e.nbr_edge, e.parent) + tuple(e.children):
            if o is not None:
                stack.append(o)
    out.sort(key=repr)
    return digest(out)


def ops_of(m):
    return [(r, ax) for r in sorted(rect_of(e) for e in m.leaf_elements) for ax in (0, 1)]


# ---------------------------------------------------------------------------------------------------
# BFS engine (two-phase per level: expand all frontier states, dedupe, then visit the new states)
_G = {}


def _expand(h):
    cfg = _G['cfg']
    trans_fn = _G.get('trans_fn')
    m = build(cfg, h)
    ref = build_ref(cfg, h) if trans_fn else None
    res = []
    for op in ops_of(m):
        h2 = h + (op, )
        viol = None
        try:
            with horizon(_G['hlimit']):
                m2 = build(cfg, h2)
        except (AssertionError, Horizon, Exception) as ex:  # the bisection itself failed
            res.append((op, None, None, ('refine-raised', repr(ex))))
            continue
        if trans_fn:
            viol = trans_fn(cfg, h, op, m2, ref)
        res.append((op, fingerprint(m2), digest(sorted(leafset(m2))), viol))
    return res


def _visit(h):
    cfg = _G['cfg']
    m = build(cfg, h)
    ref = build_ref(cfg, h)
    return _G['state_fn'](cfg, h, m, ref)


class Stats:
    def __init__(self):
        self.states = 0
        self.transitions = 0
        self.leafsets = 0
        self.depth = {}
        self.per_cfg = {}
        self.extra = {}
        self.samples = []

    def add_extra(self, d):
        for k, v in (d or {}).items():
            if isinstance(v, (int, float)):
                self.extra[k] = self.extra.get(k, 0) + v
            elif isinstance(v, (set, frozenset)):
                self.extra.setdefault(k, set()).update(v)


def explore(ctx, cfgname, depth, state_fn, trans_fn=None, on_violation=None, hlimit=20000,
            stats=None, max_states=None, collect=None, root=(), label=None):
    """BFS over bisection histories of configuration `cfgname` up to `depth`.

    state_fn(cfg, hist, mesh, ref) -> (violations, extra) is evaluated once per distinct state;
    trans_fn(cfg, hist, op, mesh_after, ref_before) -> violation or None on every transition.
    on_violation(cfgname, hist, v) reports.  Returns Stats."""
    cfg = CFGS[cfgname]
    st = stats or Stats()
    _G.update(cfg=cfg, state_fn=state_fn, trans_fn=trans_fn, hlimit=hlimit)
    t0 = time.time()
    seen = set()
    leafsets = set()
    root = tuple(root)
    m0 = build(cfg, root)
    seen.add(fingerprint(m0))
    leafsets.add(digest(sorted(leafset(m0))))
    frontier = [root]
    n_states = 1
    n_trans = 0
    # determinism self-check on the root
    if fingerprint(build(cfg, root)) != fingerprint(m0):
        raise common.HarnessError('non-deterministic build of ' + cfgname)
    viols, extra = _visit(root)
    st.add_extra(extra)
    for v in viols:
        on_violation(cfgname, root, v)
    if collect is not None:
        collect.append(root)
    capped = False
    reached = 0
    for d in range(depth):
        if not frontier:
            break
        rng = random.Random(ctx.seed * 1000003 + d)
        fr = list(frontier)
        rng.shuffle(fr)  # sibling/processing order must not matter for any count
        results = pmap(_expand, fr, ctx.jobs)
        new = []
        for h, res in zip(fr, results):
            for op, fpd, lkd, viol in res:
                n_trans += 1
                if viol is not None:
                    on_violation(cfgname, h + (op, ), viol)
                if fpd is None:
                    continue
                leafsets.add(lkd)
                if fpd not in seen:
                    seen.add(fpd)
                    new.append(h + (op, ))
        new.sort()
        if max_states is not None and n_states + len(new) > max_states:
            new = new[:max(0, max_states - n_states)]
            capped = True
        vres = pmap(_visit, new, ctx.jobs)
        for h, (viols, extra) in zip(new, vres):
            st.add_extra(extra)
            for v in viols:
                on_violation(cfgname, h, v)
        n_states += len(new)
        if collect is not None:
            collect.extend(new)
        frontier = new
        reached = d + 1
        if capped:
            break
    st.states += n_states
    st.transitions += n_trans
    st.leafsets += len(leafsets)
    st.per_cfg[label or cfgname] = {'depth': reached, 'root_len': len(root), 'states': n_states, 'transitions': n_trans,
                           'leafsets': len(leafsets), 'capped': capped,
                           'wall_s': round(time.time() - t0, 1)}
    if frontier:
        st.samples.append({'cfg': cfgname, 'history': [list(map(list, (op[0], [op[1]]))) for op in frontier[0]]})
        st.samples.append({'cfg': cfgname, 'history': [list(map(list, (op[0], [op[1]]))) for op in frontier[-1]]})
    return st


def all_states(ctx, cfgname, depth, key='fp', root=()):
    """List of histories, one per distinct state (key 'fp') or per distinct leaf set (key 'leaf')."""
    cfg = CFGS[cfgname]
    seen = set()
    out = []
    root = tuple(root)
    frontier = [root]
    m0 = build(cfg, root)
    seen.add(fingerprint(m0) if key == 'fp' else digest(sorted(leafset(m0))))
    out.append(root)
    _G.update(cfg=cfg, state_fn=None, trans_fn=None, hlimit=20000)
    for d in range(depth):
        results = pmap(_expand, frontier, ctx.jobs if len(frontier) > 8 else 1)
        new = []
        for h, res in zip(frontier, results):
            for op, fpd, lkd, viol in res:
                if fpd is None:
                    continue
                k = fpd if key == 'fp' else lkd
                if k not in seen:
                    seen.add(k)
                    new.append(h + (op, ))
        new.sort()
        out.extend(new)
        frontier = new
    return out


# ---------------------------------------------------------------------------------------------------
# Directed deep roots and random walks (supplementary roots; never counted as exhaustive)
def deep_end_histories(cfgname, k, kspace=4):
    """Very deep directed histories away from the origin (sizes tiny RELATIVE to their coordinates) and long staircases:
    tEnd       k time bisections of the leaf touching t = T in the first column
    xEnd       k space bisections of the leaf touching x = L in the first slab
    staircase  kspace uniform space refinements, then k time bisections of the corner leaf at (t, x) = (0, 0): one requested
               bisection forces a chain of forced neighbour bisections across the columns"""
    cfg = CFGS[cfgname]
    outs = {}
    m0 = fresh(cfg)
    T0 = min(e.time_interval[0] for e in m0.leaf_elements)
    TT = max(e.time_interval[1] for e in m0.leaf_elements)
    X0 = min(e.space_interval[0] for e in m0.leaf_elements)
    XL = max(e.space_interval[1] for e in m0.leaf_elements)

    def run(name, chooser, steps, pre=()):
        m = fresh(cfg)
        h = []
        for rect, ax in pre:
            m.refine_axis(find_leaf(m, rect), ax)
            h.append((rect, ax))
        for _ in range(steps):
            e, ax = chooser(m)
            h.append((rect_of(e), ax))
            m.refine_axis(e, ax)
        outs[name] = tuple(h)

    run('tEnd', lambda m: (min((e for e in m.leaf_elements if e.time_interval[1] == TT and e.space_interval[0] == X0), key=lambda e: e.h_t), 0), k)
    run('xEnd', lambda m: (min((e for e in m.leaf_elements if e.space_interval[1] == XL and e.time_interval[0] == T0), key=lambda e: e.h_x), 1), k)
    run('staircase', lambda m: (min((e for e in m.leaf_elements if e.time_interval[0] == T0 and e.space_interval[0] == X0), key=lambda e: e.h_t), 0), k,
        pre=uniform_history(cfgname, kspace))
    return outs


def deep_histories(cfgname, k):
    """Histories that refine k times uniformly / towards t=0 / towards a corner / towards the seam."""
    cfg = CFGS[cfgname]
    outs = {}

    def run(name, chooser, steps):
        m = fresh(cfg)
        h = []
        for _ in range(steps):
            e, ax = chooser(m)
            h.append((rect_of(e), ax))
            m.refine_axis(e, ax)
        outs[name] = tuple(h)

    m0 = fresh(cfg)
    T0 = min(e.time_interval[0] for e in m0.leaf_elements)
    X0 = min(e.space_interval[0] for e in m0.leaf_elements)
    XL = max(e.space_interval[1] for e in m0.leaf_elements)

    def toward_t0(m):
        c = [e for e in m.leaf_elements if e.time_interval[0] == T0 and e.space_interval[0] == X0]
        e = min(c, key=lambda e: e.h_t)
        return e, 0

    def toward_corner(m):
        c = [e for e in m.leaf_elements if e.time_interval[0] == T0 and e.space_interval[0] == X0]
        e = c[0]
        return e, (0 if e.levels[0] <= e.levels[1] else 1)

    def toward_seam_right(m):
        c = [e for e in m.leaf_elements if e.time_interval[0] == T0 and e.space_interval[1] == XL]
        return c[0], 1

    def toward_seam_left(m):
        c = [e for e in m.leaf_elements if e.time_interval[0] == T0 and e.space_interval[0] == X0]
        return c[0], 1

    run('t0', toward_t0, k)
    run('corner', toward_corner, 2 * k)
    run('seamR', toward_seam_right, k)
    run('seamL', toward_seam_left, k)
    return outs


def random_history(cfgname, seed, steps, bias=0.5, max_leaves=400):
    cfg = CFGS[cfgname]
    rng = random.Random(seed)
    m = fresh(cfg)
    h = []
    for _ in range(steps):
        if len(m.leaf_elements) > max_leaves:
            break
        rects = sorted(rect_of(e) for e in m.leaf_elements)
        r = rects[rng.randrange(len(rects))]
        ax = 0 if rng.random() < bias else 1
        h.append((r, ax))
        m.refine_axis(find_leaf(m, r), ax)
    return tuple(h)


def uniform_history(cfgname, k_space, k_time=0):
    """History of k_space rounds of uniform space bisection followed by k_time rounds of uniform time bisection."""
    cfg = CFGS[cfgname]
    m = fresh(cfg)
    h = []
    for ax, k in ((1, k_space), (0, k_time)):
        for _ in range(k):
            for e in sorted(list(m.leaf_elements), key=lambda e: (e.levels[ax], rect_of(e))):
                h.append((rect_of(e), ax))
                m.refine_axis(e, ax)
    return tuple(h)
