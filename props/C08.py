"""C08 - the initial-potential load vector <M0 u0, 1_elem> equals the integral of the exact initial potential.

Universe (exhaustive, real elements produced by real bisection of MeshParametrized; the L-shape is pre-split as the
driver example.py does): the three polygonal domains x every dyadic boundary element of space level <= Lx under every
unit-length root piece (pi-length on the pi square) x the time alphabet {[0,2^-k], k = 0..5; [2^-k, 2^-(k-1)], k = 1..5}
with aspect h_x^2/h_t <= 32.

 clause 'exact'      u0 in {1 (given as the driver gives it: lambda xy: 1), sine product (unit and pi square)}:
                     InitialOperator(bdr_mesh, u0, initial_mesh=<driver's *BoundaryRefined>).linform(elem)[0] against the
                     independent oracle mc/oracle_m0.py,  |computed - exact| <= 1e-5 * |exact|  (plain relative error; the
                     exact values of this universe are bounded away from 0 - the smallest one is recorded in the evidence -
                     so no absolute floor is needed).
 clause 'linearity'  u0 in {x, sin(x) y, 1, y, x^2, xy, y^2}, every pairwise sum of the six monomials and three general
                     combinations alpha u + beta v, on the elements of level <= Llin:  |L(alpha u + beta v) - alpha L(u) - beta L(v)| <= 1e-12 * S  with
                     S = sum over the cells of the adapted domain mesh of |alpha ip_u| + |beta ip_v| (the terms that are
                     summed; by the triangle inequality S >= |alpha L(u)| + |beta L(v)| up to rounding).
 clause 'additivity' time split and space split into the real children: |L(parent) - L(c1) - L(c2)| <= tol * scale, scale =
                     |L(c1)| + |L(c2)| (= |L(parent)| for data of one sign), only when the children satisfy the aspect
                     filter as well.  tol = 1e-6 for the family {x, sin(x) y, quadratic monomials} (as the property text attaches
                     it); for u0 in {1, sine} the property only gives 1e-5 per value, so 2e-5 is demanded there (implied by
                     clause 'exact'; the measured defect is recorded).
 clause 'domain-integral'  the seven base data of the family against the oracle's domain integral:
                     |computed - exact| <= 1e-6 * max(|exact|, 1e-3 * sup|u0| * L_exact(1))  (relative; the floor only matters
                     when a sign-changing datum makes the exact value nearly cancel; the unfloored worst is recorded too).
 clause 'evaluate'   InitialOperator.evaluate(t,x) and evaluate_mesh on a grid of boundary and interior points for
                     t in {0.05, 0.0625, 0.1, 0.25, 0.5, 1, 2} * side^2 (the property excludes t < 0.05 side^2): 1e-5 relative,
                     against the oracle and, where the repository has one, against its closed form.
 clause 'vector'     linform_vector(elems, use_mp=False) == [linform(e)[0]] bitwise; value == math.fsum of the per-cell
                     contributions returned.
 clause 'closed-form' cross-check of the oracle with the closed forms of /repo/problems.py pointwise, t in [1e-6, 2 side^2]
                     (1e-10 relative); a disagreement is arbitrated by mpmath adaptive quadrature: repository wrong ->
                     VIOLATION, oracle wrong -> harness error.
Oracle validation recorded in the evidence: mpmath (>= 20 digits) on a fixed panel of loads and points, problems.py
closed forms, and every deciding reference load is computed with two unrelated rule parameter sets ('std' and 'alt')
that must agree to 1e-10.  The element attributes read by linform are monitored (time_interval, space_interval,
gamma_space only), which justifies looking children up by those values."""
import math
import time

import numpy as np

from mc import common, universe, oracle_m0 as O
from mc.common import pmap, HarnessError

import src.initial_potential as IP
import src.initial_mesh as IM
from src.initial_potential import InitialOperator

IP.print = lambda *a, **k: None  # silence the timing chatter of linform_vector

DOMS = ('UnitSquare', 'PiSquare', 'LShape')
PRE = {'UnitSquare': '', 'PiSquare': '', 'LShape': 'driver'}
NPIECE = {'UnitSquare': 4, 'PiSquare': 4, 'LShape': 8}
ASPECT = 32.0
# wide intervals away from t = 0 (end / start = 32, 32, 64: custom non-uniform time grids) - bisection from [0, T] alone only gives end / start <= 2.
# They take part in the 'exact' clause (the property's 1e-5) only: the tighter tolerances of the secondary clauses were measured on
# dyadic intervals (on t = (2^-10, 2^-4) the unchanged code is 2e-6 off, inside 1e-5 and outside 1e-6).
TIMES_WIDE = [(2.0**-8, 2.0**-3), (2.0**-5, 1.0), (2.0**-10, 2.0**-4),
              # ... and THIN slabs that start late (step << start): deep time refinement away from t = 0
              (0.5, 0.5 + 2.0**-6), (1.0 - 2.0**-6, 1.0), (0.5, 0.5 + 2.0**-9), (0.25, 0.25 + 2.0**-5)]
TIMES = [(0.0, 2.0**-k) for k in range(6)] + [(2.0**-k, 2.0**-(k - 1)) for k in range(1, 6)]
TGRIDS = [(0.0, 1 / 32, 1 / 16, 1 / 8, 1 / 4, 1 / 2, 1.0)] + [(0.0, 2.0**-k) for k in range(5)] + [(0.0, 2.0**-8, 2.0**-3, 1.0), (0.0, 2.0**-5, 1.0), (0.0, 2.0**-10, 2.0**-4),
             (0.0, 0.5, 0.5 + 2.0**-6, 1.0 - 2.0**-6, 1.0), (0.0, 0.5, 0.5 + 2.0**-9), (0.0, 0.25, 0.25 + 2.0**-5)]
EVAL_T = (0.05, 0.0625, 0.1, 0.25, 0.5, 1.0, 2.0)
TOL_EXACT, TOL_LIN, TOL_ADD, TOL_DOM, TOL_EVAL = 1e-5, 1e-12, 1e-6, 1e-6, 1e-5
TOL_ADD_IMPLIED = 2e-5  # u0 in {1, sine}: the property gives 1e-5 per value, hence 2e-5 for parent - children
ORACLE_SELF = 1e-10
READ_OK = {'time_interval', 'space_interval', 'gamma_space'}

MONO = ['one', 'x', 'y', 'xx', 'xy', 'yy']
BASE = MONO + ['sinx_y', 'x_view', 'y_view']  # *_view: the callback returns a VIEW of its argument (the plain coordinate functions lambda xy: xy[0])
COMBOS = [(MONO[i], MONO[j], 1.0, 1.0) for i in range(6) for j in range(i + 1, 6)] + \
         [('x', 'sinx_y', 0.3, -1.7), ('sinx_y', 'xy', -2.5, 0.75), ('one', 'sinx_y', 1.0, 1.0)]

BOUNDS = {'quick': {'Lx': 3, 'Lfam': 1, 'Llin': 0, 'Ladd': 1, 'Lvec': 1}, 'thorough': {'Lx': 5, 'Lfam': 3, 'Llin': 2, 'Ladd': 2, 'Lvec': 2}}


# ---- initial data as the code under test receives them ---------------------------------------------------------------
def u0_callable(name, dom):
    if name == 'one_driver':
        return lambda xy: 1  # exactly what problems.singular_square()['u0'] is
    if name == 'sine':
        k = O.DOMAINS[dom]['sine_k']
        return lambda xy: np.sin(k * xy[0]) * np.sin(k * xy[1])
    return {
        'one': lambda xy: np.ones_like(xy[0], dtype=float),
        'x': lambda xy: xy[0] * 1.0, 'y': lambda xy: xy[1] * 1.0,
        'x_view': lambda xy: xy[0], 'y_view': lambda xy: xy[1],
        'xx': lambda xy: xy[0]**2, 'xy': lambda xy: xy[0] * xy[1], 'yy': lambda xy: xy[1]**2,
        'sinx_y': lambda xy: np.sin(xy[0]) * xy[1],
    }[name]


def combo_callable(u, v, al, be, dom):
    fu, fv = u0_callable(u, dom), u0_callable(v, dom)
    return lambda xy: al * fu(xy) + be * fv(xy)


def oracle_name(name):
    return {'one_driver': 'one', 'x_view': 'x', 'y_view': 'y'}.get(name, name)


def sup_u0(name, dom):
    terms = O.u0_terms(oracle_name(name), dom)
    m = 0.0
    for (x0, x1, y0, y1) in O.DOMAINS[dom]['rects']:
        X, Y = np.meshgrid(np.linspace(x0, x1, 65), np.linspace(y0, y1, 65))
        m = max(m, float(np.max(np.abs(O.u0_eval(terms, X, Y)))))
    return m


# ---- per-process universe -------------------------------------------------------------------------------------------
_C = {}


def curve_len(dom):
    return O.perimeter(dom)


def piece_of(dom, xint):
    pl = curve_len(dom) / NPIECE[dom]
    j = int(math.floor((0.5 * (xint[0] + xint[1])) / pl))
    return j, pl


def fkey(e):
    return (float(e.time_interval[0]), float(e.time_interval[1]), float(e.space_interval[0]), float(e.space_interval[1]))


def get_univ(dom, Lx, lt=0, wide=False):
    """dict (t0,t1,x0,x1) -> real element, for the alphabet times (lt = 0) or their real time-children (lt = 1)."""
    k = ('U', dom, Lx, lt) if not wide else ('U', dom, Lx, lt, 'wide')
    if k not in _C:
        want = set(TIMES_WIDE if wide else TIMES)
        if lt == 1:
            want = set()
            for a, b in TIMES:
                m = (a + b) / 2
                want |= {(a, m), (m, b)}
        els = {}
        for tg in TGRIDS:
            for lx in range(Lx + 1):
                m = universe.level_mesh(dom, tg, lt, lx, PRE[dom])
                for e in m.leaf_elements:
                    kk = fkey(e)
                    if (kk[0], kk[1]) in want and kk not in els:
                        els[kk] = e
                _C.setdefault('keep', []).append(m)
        _C[k] = els
    return _C[k]


def get_M0(dom, u0spec):
    k = ('M0', dom, u0spec)
    if k not in _C:
        bm = universe.level_mesh(dom, (0.0, 1.0), 0, 0, PRE[dom])
        if isinstance(u0spec, tuple):
            f = combo_callable(*u0spec, dom)
        else:
            f = u0_callable(u0spec, dom)
        _C[k] = InitialOperator(bm, f, initial_mesh=getattr(IM, dom + 'BoundaryRefined'))
    return _C[k]


def get_orc(dom, pname='std'):
    k = ('O', dom, pname)
    if k not in _C:
        _C[k] = O.M0Oracle(dom, pname)
    return _C[k]


class Mon:
    """Read-set monitor: forwards attribute reads to the real element and records their names."""
    def __init__(self, e, log):
        object.__setattr__(self, '_e', e)
        object.__setattr__(self, '_log', log)

    def __getattr__(self, name):
        self._log.add(name)
        return getattr(self._e, name)


def close_pt(v, p):
    return math.isclose(float(v.x), p[0], rel_tol=1e-9, abs_tol=1e-12) and math.isclose(float(v.y), p[1], rel_tol=1e-9, abs_tol=1e-12)


def signature(ips, p0, p1, a):
    n = [0, 0, 0, 0]
    for cell, _ in ips:
        h0 = any(close_pt(v, p0) for v in cell.vertices)
        h1 = any(close_pt(v, p1) for v in cell.vertices)
        n[0 if (h0 and h1) else 1 if h0 else 2 if h1 else 3] += 1
    return (n[0], n[1], n[2], n[3], a == 0.0)


FP_EVENTS = {}
FP_STRICT = bool(int(__import__('os').environ.get('C08_FP_STRICT', '0') or 0))


def _fp_event(kind, flag):
    FP_EVENTS[kind] = FP_EVENTS.get(kind, 0) + 1


def call_linform(M0, e, reads):
    """-> (value or None, ips or None, problem string or None)"""
    old = np.seterrcall(_fp_event)
    try:
        with np.errstate(divide='call', invalid='call'):  # observe only: values are not altered
            v, ips = M0.linform(Mon(e, reads))
    except Exception as ex:  # an exception of the code under test on an admissible input is a failure of the property
        return None, None, 'linform raised {!r}'.format(ex)
    finally:
        np.seterrcall(old)
    v = float(v)
    s = math.fsum(float(x) for _, x in ips)
    if not (v == s):
        return v, ips, 'value {!r} != fsum of the returned per-cell contributions {!r}'.format(v, s)
    if not math.isfinite(v):
        return v, ips, 'value {!r} is not finite'.format(v)
    return v, ips, None


def ref_load(dom, u0n, k, st):
    """Oracle load with the two unrelated parameter sets; their disagreement is tracked (harness self-check)."""
    u0n = oracle_name(u0n) if isinstance(u0n, str) else u0n
    r = get_orc(dom, 'std').load(u0n, (k[0], k[1]), (k[2], k[3]))
    r2 = get_orc(dom, 'alt').load(u0n, (k[0], k[1]), (k[2], k[3]))
    one = r if u0n == 'one' else get_orc(dom, 'std').load('one', (k[0], k[1]), (k[2], k[3]))
    d = abs(r - r2) / max(abs(r), 1e-3 * one)
    if d > st['oracle_self']:
        st['oracle_self'] = d
    if u0n == 'one':  # third, structurally different evaluation: space integral by the closed-form primitive of erf
        p0, p1 = O.boundary_point(dom, k[2]), O.boundary_point(dom, k[3])
        r3 = O.load_const_semianalytic(dom, (k[0], k[1]), p0, p1, 'std')
        st['oracle_semi'] = max(st.get('oracle_semi', 0.0), abs(r - r3) / abs(r))
    st['oracle_loads'] += 1
    return r


def take_fp(st, dom):
    """Floating-point events (division by zero / invalid operation) raised inside linform.  The property is about values,
    so these are recorded as an observation; C08_FP_STRICT=1 turns them into violations (clause 'fp-event')."""
    st['fp'] = dict(FP_EVENTS)
    if FP_STRICT and FP_EVENTS:
        add_viol(st, {'domain': dom, 'clause': 'fp-event', 'u0': '*', 'class': '*'},
                 '{}: floating-point events inside linform (values unaffected or not): {}'.format(dom, dict(FP_EVENTS)), {'clause': 'fp-event', 'domain': dom, 'u0': 'one'})
    FP_EVENTS.clear()


def aspect_k(k):
    return (k[3] - k[2])**2 / (k[1] - k[0])


def new_stats():
    return {'n': 0, 'classes': {}, 'viols': [], 'sigs': {}, 'cells': [0, 0, 0, 0], 'reads': set(), 'oracle_self': 0.0, 'oracle_loads': 0,
            'min_exact': float('inf'), 'cases': 0, 'samples': [], 'unfloored': 0.0, 'sec_code': 0.0, 'sec_oracle': 0.0}


def add_class(st, cl, err):
    c = st['classes'].setdefault(cl, [0, 0.0])
    c[0] += 1
    if err != err or err > 9e99:
        err = 9e99
    c[1] = max(c[1], err)


def add_viol(st, key, what, replay, cap=3):
    kk = tuple(sorted(key.items()))
    cnt = sum(1 for v in st['viols'] if v[0] == kk)
    st['nviol'] = st.get('nviol', 0) + 1
    if cnt < cap:
        st['viols'].append((kk, key, what, replay))


def piece_keys(dom, Lx, piece, maxlev=None, wide=False):
    U = get_univ(dom, Lx, 0, wide)
    out = []
    for k in sorted(U):
        j, pl = piece_of(dom, (k[2], k[3]))
        if j != piece:
            continue
        lev = int(round(math.log2(pl / (k[3] - k[2]))))
        if maxlev is not None and lev > maxlev:
            continue
        out.append((k, lev))
    return out


def value_of(dom, u0spec, k, vals, st, U1=None):
    """linform value for key k, computed once per item (real element from the universe / real time-children)."""
    if k in vals:
        return vals[k]
    U = None
    for key in list(_C):
        if key[0] == 'U' and key[1] == dom and k in _C[key]:
            U = _C[key]
            break
    if U is None:
        return None
    e = U[k]
    t0 = time.time()
    v, ips, prob = call_linform(get_M0(dom, u0spec), e, st['reads'])
    st['sec_code'] += time.time() - t0
    st['n'] += 1
    vals[k] = (v, ips, prob)
    return vals[k]


def additivity(dom, u0spec, u0label, keys, vals, st, bounds, tol=TOL_ADD):
    """Space split (children looked up in the universe) and time split (real children of a time-bisected real mesh)."""
    Lx, Ladd = bounds['Lx'], bounds['Ladd']
    get_univ(dom, min(Lx, Ladd), 1)
    for k, lev in keys:
        if aspect_k(k) > ASPECT:
            continue
        splits = []
        xm = (k[2] + k[3]) / 2
        tm = (k[0] + k[1]) / 2
        if lev < bounds['maxlev']:
            splits.append(('space', (k[0], k[1], k[2], xm), (k[0], k[1], xm, k[3])))
        if lev <= Ladd:
            splits.append(('time', (k[0], tm, k[2], k[3]), (tm, k[1], k[2], k[3])))
        for kind, c1, c2 in splits:
            if aspect_k(c1) > ASPECT or aspect_k(c2) > ASPECT:
                continue
            P = value_of(dom, u0spec, k, vals, st)
            A = value_of(dom, u0spec, c1, vals, st)
            B = value_of(dom, u0spec, c2, vals, st)
            if P is None or A is None or B is None:
                raise HarnessError('additivity: element missing from the universe {} {} {}'.format(k, c1, c2))
            if P[0] is None or A[0] is None or B[0] is None:
                continue  # already reported as an exception of linform
            scale = abs(A[0]) + abs(B[0])
            err = abs(P[0] - A[0] - B[0]) / scale if scale > 0 else float('inf')
            cl = 'additivity-{}|{}|{}|{}'.format(kind, dom, u0label, 'a==0' if k[0] == 0 else 'a>0')
            add_class(st, cl, err)
            st['cases'] += 1
            if not err <= tol:
                add_viol(st, {'domain': dom, 'clause': 'additivity-' + kind, 'u0': u0label, 'class': 'a==0' if k[0] == 0 else 'a>0'},
                         '{} {}: {} split of element t={} x={}: parent {!r} children {!r} + {!r}, defect {:.3e} relative (tol {})'.format(
                             dom, u0label, kind, k[:2], k[2:], P[0], A[0], B[0], err, tol),
                         {'clause': 'additivity', 'domain': dom, 'u0': u0spec, 'parent': k, 'children': [c1, c2], 'tol': tol})


# ---- phase A: u0 in {1, sine}: exact, additivity, vector, signatures ---------------------------------------------------
def phaseA(item):
    _, dom, u0n, piece, bounds = item
    st = new_stats()
    Lx = bounds['Lx']
    keys = piece_keys(dom, Lx, piece)
    wide_keys = piece_keys(dom, Lx, piece, wide=True)
    if not any(aspect_k(k) <= ASPECT for k, _ in wide_keys):
        raise HarnessError('no wide time interval passes the aspect filter on {} piece {}'.format(dom, piece))
    bounds = dict(bounds, maxlev=Lx)
    vals = {}
    on = oracle_name(u0n)
    for k, lev in keys + wide_keys:
        if aspect_k(k) > ASPECT:
            continue
        v, ips, prob = value_of(dom, u0n, k, vals, st)
        acl = 'a==0' if k[0] == 0 else 'a>0'
        base_key = {'domain': dom, 'u0': on, 'class': acl}
        rep = {'clause': 'exact', 'domain': dom, 'u0': u0n, 'key': k}
        if prob is not None:
            add_viol(st, dict(base_key, clause='exception' if v is None else 'vector'), '{} {} element t={} x={}: {}'.format(dom, u0n, k[:2], k[2:], prob), rep)
            if v is None:
                continue
        p0, p1 = O.boundary_point(dom, k[2]), O.boundary_point(dom, k[3])
        sig = signature(ips, p0, p1, k[0])
        st['sigs'][sig] = st['sigs'].get(sig, 0) + 1
        for i in range(4):
            st['cells'][i] += sig[i]
        t0 = time.time()
        ref = ref_load(dom, on, k, st)
        st['sec_oracle'] += time.time() - t0
        st['min_exact'] = min(st['min_exact'], abs(ref))
        err = abs(v - ref) / abs(ref)
        add_class(st, 'exact|{}|{}|{}'.format(dom, on, acl), err)
        st['cases'] += 1
        if len(st['samples']) < 2:
            st['samples'].append({'domain': dom, 'u0': u0n, 'time_interval': k[:2], 'space_interval': k[2:], 'linform': v, 'oracle': ref,
                                  'rel_err': err, 'cells(identical,touch_v0,touch_v1,disjoint)': sig[:4]})
        if not err <= TOL_EXACT:
            add_viol(st, dict(base_key, clause='exact'),
                     '{} u0={} element t={} x={} (level {}, aspect {:.3g}, cells id/t0/t1/disj {}): linform {!r} exact {!r} relative error {:.3e} (tol {})'.format(
                         dom, on, k[:2], k[2:], lev, aspect_k(k), sig[:4], v, ref, err, TOL_EXACT), rep)
    additivity(dom, u0n, on, keys, vals, st, bounds, TOL_ADD_IMPLIED)
    # linform_vector on every element of level <= Lvec of this piece, grouped by time interval
    M0 = get_M0(dom, u0n)
    U = get_univ(dom, Lx)
    for ti in TIMES:
        ks = [k for k, lev in keys if lev <= bounds['Lvec'] and (k[0], k[1]) == ti and aspect_k(k) <= ASPECT and vals.get(k, (None,))[0] is not None]
        if not ks:
            continue
        try:
            vec = M0.linform_vector(elems=[U[k] for k in ks], use_mp=False)
            bad = [(k, float(vec[i]), vals[k][0]) for i, k in enumerate(ks) if not float(vec[i]) == vals[k][0]]
            if len(vec) != len(ks):
                bad.append(('length', len(vec), len(ks)))
        except Exception as ex:
            bad = [('raised', repr(ex), None)]
        st['n'] += len(ks)
        st['cases'] += len(ks)
        add_class(st, 'vector|{}|{}'.format(dom, on), float(len(bad)))
        if bad:
            add_viol(st, {'domain': dom, 'clause': 'vector', 'u0': on, 'class': 'a==0' if ti[0] == 0 else 'a>0'},
                     '{} {} linform_vector(use_mp=False) differs from linform on t={}: {}'.format(dom, on, ti, bad[:3]),
                     {'clause': 'vector', 'domain': dom, 'u0': u0n, 'keys': ks})
    st['reads'] = sorted(st['reads'])
    take_fp(st, dom)
    return st


# ---- phase B: family: linearity, domain integral, additivity --------------------------------------------------------------
def phaseB(item):
    _, dom, piece, bounds = item
    st = new_stats()
    Lx, Lfam = bounds['Lx'], bounds['Lfam']
    keys = piece_keys(dom, Lx, piece, Lfam)
    bounds = dict(bounds, maxlev=Lfam)
    sups = {u: sup_u0(u, dom) for u in BASE}
    allvals = {u: {} for u in BASE}
    for k, lev in keys:
        if aspect_k(k) > ASPECT:
            continue
        acl = 'a==0' if k[0] == 0 else 'a>0'
        res = {}
        for u in BASE:
            res[u] = value_of(dom, u, k, allvals[u], st)
        one_ref = None
        for u in BASE:
            v, ips, prob = res[u]
            rep = {'clause': 'domain-integral', 'domain': dom, 'u0': u, 'key': k}
            if prob is not None:
                add_viol(st, {'domain': dom, 'u0': u, 'class': acl, 'clause': 'exception' if v is None else 'vector'},
                         '{} {} element t={} x={}: {}'.format(dom, u, k[:2], k[2:], prob), rep)
                if v is None:
                    continue
            t0 = time.time()
            ref = ref_load(dom, u, k, st)
            st['sec_oracle'] += time.time() - t0
            if u == 'one':
                one_ref = ref
            floor = 1e-3 * sups[u] * get_orc(dom, 'std').load('one', (k[0], k[1]), (k[2], k[3]))
            err = abs(v - ref) / max(abs(ref), floor)
            st['unfloored'] = max(st['unfloored'], abs(v - ref) / abs(ref) if ref != 0 else float('inf'))
            add_class(st, 'domain-integral|{}|{}|{}'.format(dom, u, acl), err)
            st['cases'] += 1
            if len(st['samples']) < 1 and u == 'sinx_y':
                st['samples'].append({'domain': dom, 'u0': u, 'time_interval': k[:2], 'space_interval': k[2:], 'linform': v, 'oracle': ref, 'rel_err': err})
            if not err <= TOL_DOM:
                add_viol(st, {'domain': dom, 'clause': 'domain-integral', 'u0': u, 'class': acl},
                         '{} u0={} element t={} x={}: linform {!r} reference domain integral {!r} relative error {:.3e} (tol {})'.format(
                             dom, u, k[:2], k[2:], v, ref, err, TOL_DOM), rep)
        for (u, w, al, be) in (COMBOS if lev <= bounds['Llin'] else ()):
            spec = (u, w, al, be)
            t0 = time.time()
            v, ips, prob = call_linform(get_M0(dom, spec), get_univ(dom, Lx)[k], st['reads'])
            st['sec_code'] += time.time() - t0
            st['n'] += 1
            label = '{}*{}+{}*{}'.format(al, u, be, w)
            rep = {'clause': 'linearity', 'domain': dom, 'u0': spec, 'key': k}
            if prob is not None:
                add_viol(st, {'domain': dom, 'u0': label, 'class': acl, 'clause': 'exception' if v is None else 'vector'},
                         '{} {} element t={} x={}: {}'.format(dom, label, k[:2], k[2:], prob), rep)
                if v is None:
                    continue
            if res[u][0] is None or res[w][0] is None:
                continue
            comb = al * res[u][0] + be * res[w][0]
            S = sum(abs(al * float(x)) for _, x in res[u][1]) + sum(abs(be * float(x)) for _, x in res[w][1])
            err = abs(v - comb) / S if S > 0 else float('inf')
            add_class(st, 'linearity|{}|{}'.format(dom, acl), err)
            st['cases'] += 1
            if not err <= TOL_LIN:
                add_viol(st, {'domain': dom, 'clause': 'linearity', 'u0': label, 'class': acl},
                         '{} element t={} x={}: L({}) = {!r} but {}*L({}) + {}*L({}) = {!r}; defect {:.3e} of the size of the terms {!r} (tol {})'.format(
                             dom, k[:2], k[2:], label, v, al, u, be, w, comb, err, S, TOL_LIN), rep)
    for u in BASE:
        additivity(dom, u, u, keys, allvals[u], st, bounds)
    st['reads'] = sorted(st['reads'])
    take_fp(st, dom)
    return st


# ---- phase C: pointwise evaluation --------------------------------------------------------------------------------------
def repo_closed_form(dom, u0n):
    import problems
    f = {('UnitSquare', 'one'): problems.singular_square, ('LShape', 'one'): problems.singular_lshape,
         ('UnitSquare', 'sine'): problems.smooth_square, ('PiSquare', 'sine'): problems.smooth_pisquare}.get((dom, u0n))
    return f()['M0u0'] if f else None


def eval_points(dom):
    pts = []
    L = curve_len(dom)
    n = NPIECE[dom]
    for i in range(n):
        for j in range(8):
            xh = L * i / n + (L / n) * j / 8
            pts.append(('boundary', xh, O.boundary_point(dom, xh)))
    for (x0, x1, y0, y1) in O.DOMAINS[dom]['rects']:
        for fx in (0.125, 0.375, 0.625, 0.875):
            for fy in (0.125, 0.375, 0.625, 0.875):
                pts.append(('interior', None, (x0 + fx * (x1 - x0), y0 + fy * (y1 - y0))))
    return pts


def phaseC(item):
    _, dom, u0n = item
    st = new_stats()
    on = oracle_name(u0n)
    M0 = get_M0(dom, u0n)
    side = O.DOMAINS[dom]['side']
    terms = O.u0_terms(on, dom)
    cf = repo_closed_form(dom, on)
    meshes = []
    for nref in (0, 1):
        im = getattr(IM, dom)()
        for _ in range(nref):
            im.uniform_refine()
        meshes.append(im)
    sup = sup_u0(on, dom)
    for tf in EVAL_T:
        t = tf * side * side
        for kind, xh, p in eval_points(dom):
            x = np.array([[p[0]], [p[1]]], dtype=float)
            ref = float(O.M0(dom, terms, t, p[0], p[1]))
            one = float(O.M0(dom, O.u0_terms('one'), t, p[0], p[1]))
            den = max(abs(ref), 1e-3 * sup * one) if on not in ('one', 'sine') else abs(ref)
            cands = []
            try:
                cands.append(('evaluate', float(np.ravel(M0.evaluate(t, x))[0])))
                for i, im in enumerate(meshes):
                    cands.append(('evaluate_mesh-ref{}'.format(i), float(np.ravel(M0.evaluate_mesh(t, x, im))[0])))
            except Exception as ex:
                cands.append(('evaluate', float('nan')))
                st['exc'] = repr(ex)
            refs = [('oracle', ref)]
            if cf is not None:
                refs.append(('repo-closed-form', float(np.ravel(cf(t, x))[0])))
            for fn, v in cands:
                ok_oracle = abs(v - ref) / den <= TOL_EVAL
                for rn, r in refs:
                    err = abs(v - r) / den
                    st['n'] += 1
                    st['cases'] += 1
                    add_class(st, '{}|{}|{}|{}|vs-{}'.format(fn.split('-')[0], dom, on, kind, rn), err)
                    if not err <= TOL_EVAL:
                        # the computed value matches the (mpmath-validated) oracle but not the repository's closed form:
                        # the closed form is the suspect (see also clause 'closed-form' with its mpmath arbitration)
                        clause = 'closed-form' if (rn != 'oracle' and ok_oracle) else 'evaluate'
                        add_viol(st, {'domain': dom, 'clause': clause, 'u0': on, 'class': kind + '|' + fn + '|vs-' + rn},
                                 '{} u0={} {}(t={}, x={}) = {!r}, {} {!r}: relative error {:.3e} (tol {}) {}'.format(
                                     dom, on, fn, t, p, v, rn, r, err, TOL_EVAL, st.get('exc', '')),
                                 {'clause': 'evaluate', 'domain': dom, 'u0': u0n, 't': t, 'point': p})
    if len(st['samples']) < 1:
        st['samples'].append({'domain': dom, 'u0': u0n, 'evaluate_t': 0.05 * side * side, 'point': eval_points(dom)[3][2]})
    st['reads'] = []
    return st


# ---- validation of the oracle ---------------------------------------------------------------------------------------------
MP_LOADS = {
    'quick': [('UnitSquare', 'one', (0.25, 0.5), (0.5, 0.75)), ('UnitSquare', 'one', (0.0, 1 / 32), (0.0, 1.0)),
              ('LShape', 'one', (0.125, 0.25), (7.5, 8.0)), ('PiSquare', 'sine', (0.5, 1.0), (O.PI / 2, O.PI)),
              ('UnitSquare', 'sine', (0.0, 0.125), (0.0, 0.5)), ('LShape', 'sinx_y', (0.25, 0.5), (2.0, 2.5))],
    'thorough': [('UnitSquare', 'one', (0.25, 0.5), (0.5, 0.75)), ('UnitSquare', 'one', (0.0, 1 / 32), (0.0, 1.0)),
                 ('LShape', 'one', (0.0, 0.125), (7.5, 8.0)), ('LShape', 'one', (0.0, 1.0), (0.0, 0.25)),
                 ('PiSquare', 'sine', (0.5, 1.0), (O.PI / 2, O.PI)), ('PiSquare', 'one', (0.0, 0.5), (O.PI, 1.25 * O.PI)),
                 ('UnitSquare', 'sine', (0.0, 0.125), (0.0, 0.5)), ('UnitSquare', 'sine', (1 / 32, 1 / 16), (3.0, 3.125)),
                 ('LShape', 'sinx_y', (0.0, 0.25), (2.0, 2.5)), ('UnitSquare', 'xy', (0.0, 0.5), (1.0, 1.25)),
                 ('LShape', 'xx', (0.0, 1 / 16), (4.0, 5.0)), ('PiSquare', 'yy', (0.5, 1.0), (0.0, O.PI / 4))],
}
MP_LOADS_NESTED = [('UnitSquare', 'one', (0.25, 0.5), (0.5, 0.75)), ('UnitSquare', 'one', (0.0, 1 / 32), (0.0, 1.0))]
MP_POINTS = [('UnitSquare', 'one', 0.01, (0.0, 0.0)), ('UnitSquare', 'sine', 0.003, (0.25, 0.0)), ('UnitSquare', 'sine', 1.5, (1.0, 0.3)),
             ('PiSquare', 'sine', 0.2, (O.PI, 1.0)), ('PiSquare', 'sine', 8.0, (0.5, 0.0)), ('LShape', 'one', 0.02, (0.0, 0.0)),
             ('LShape', 'sinx_y', 0.1, (-1.0, 0.5)), ('LShape', 'xy', 1e-4, (1.0, 0.0)), ('UnitSquare', 'yy', 0.3, (0.5, 1.0)),
             ('LShape', 'xx', 0.5, (0.25, -0.5))]


def mp_load_task(item):
    _, case, nested = item
    import mpmath as mp
    dom, u0n, ti, xi = case
    t0 = time.time()
    if nested:
        v, est = O.mp_load(dom, u0n, ti, xi, dps=30)
    else:
        v, est = O.mp_load_fubini(dom, u0n, ti, xi, dps=26, inner='gauss-legendre', offs=(-12, -4, 0, 4, 12))
    p0, p1 = O.boundary_point(dom, xi[0]), O.boundary_point(dom, xi[1])
    out = {'case': [dom, u0n, list(ti), list(xi)], 'method': 'nested 2-D adaptive quadrature, 30 digits' if nested else 'time-adaptive, kernel integrated along the element, two 1-D adaptive quadratures, 26 digits',
           'mpmath': mp.nstr(v, 22), 'mpmath_error_estimate': float(est), 'seconds': None}
    for pn in ('std', 'alt', 'fine'):
        r = O.load_segment(dom, O.u0_terms(u0n, dom), ti, p0, p1, pn)
        out['rel_dev_' + pn] = float(abs(mp.mpf(r) - v) / abs(v))
    out['seconds'] = round(time.time() - t0, 1)
    return out


def mp_point_task(item):
    _, case, twod = item
    import mpmath as mp
    mp.mp.dps = 30
    dom, u0n, t, p = case
    terms = O.u0_terms(u0n, dom)
    t0 = time.time()
    if dom == 'PiSquare' and p[0] == O.PI:
        pm = (mp.pi, mp.mpf(p[1]))
    else:
        pm = (mp.mpf(p[0]), mp.mpf(p[1]))
    v = O.mp_M0_2d(dom, terms, t, pm[0], pm[1], mp) if twod else O.mp_M0(dom, terms, t, pm[0], pm[1], mp)
    a = float(O.M0(dom, terms, t, p[0], p[1]))
    g = float(O.M0(dom, terms, t, p[0], p[1], generic=True))
    one = float(O.M0(dom, O.u0_terms('one'), t, p[0], p[1]))
    den = max(abs(v), mp.mpf(1e-3) * one)
    return {'case': [dom, u0n, t, list(p)], 'method': '2-D adaptive quadrature' if twod else 'product of 1-D adaptive quadratures', 'mpmath': mp.nstr(v, 22),
            'rel_dev_closed_form_factors': float(abs(mp.mpf(a) - v) / den), 'rel_dev_gauss_factors': float(abs(mp.mpf(g) - v) / den),
            'seconds': round(time.time() - t0, 1)}


def crosscheck_task(item):
    """Oracle vs the repository's closed forms (and vs the oracle's generic Gauss factors) pointwise, t from 1e-6."""
    _, dom, u0n = item
    cf = repo_closed_form(dom, u0n)
    terms = O.u0_terms(u0n, dom)
    side = O.DOMAINS[dom]['side']
    out = {'n': 0, 'worst_vs_repo': 0.0 if cf is not None else None, 'worst_closed_vs_gauss_factors': 0.0, 'disagree': []}
    sup = sup_u0(u0n, dom)
    for tf in (1e-6, 1e-4, 1e-3, 0.01, 0.03, 0.05, 0.1, 0.3, 1.0, 2.0):
        t = tf * side * side
        for kind, xh, p in eval_points(dom):
            a = float(O.M0(dom, terms, t, p[0], p[1]))
            g = float(O.M0(dom, terms, t, p[0], p[1], generic=True))
            out['n'] += 1
            den = abs(a) if u0n in ('one', 'sine') else max(abs(a), 1e-3 * sup * float(O.M0(dom, O.u0_terms('one'), t, p[0], p[1])))
            out['worst_closed_vs_gauss_factors'] = max(out['worst_closed_vs_gauss_factors'], abs(a - g) / den)
            if cf is not None:
                b = float(np.ravel(cf(t, np.array([[p[0]], [p[1]]], dtype=float)))[0])
                d = abs(a - b) / den
                out['worst_vs_repo'] = max(out['worst_vs_repo'], d if d == d else float('inf'))
                if not d <= 1e-10 and len(out['disagree']) < 3:
                    out['disagree'].append({'domain': dom, 'u0': u0n, 't': t, 'point': p, 'oracle': a, 'repo': b})
    # arbitration of disagreements by mpmath
    for dg in out['disagree']:
        import mpmath as mp
        mp.mp.dps = 30
        v = O.mp_M0(dom, terms, dg['t'], mp.mpf(dg['point'][0]), mp.mpf(dg['point'][1]), mp)
        dg['mpmath'] = float(v)
        dg['oracle_rel_dev_from_mpmath'] = float(abs(mp.mpf(dg['oracle']) - v) / abs(v))
        dg['repo_rel_dev_from_mpmath'] = float(abs(mp.mpf(dg['repo']) - v) / abs(v))
    return dict(out, domain=dom, u0=u0n)


def phaseH(item):
    """Cross-domain call history in ONE process: the three domains share boundary segments (e.g. x = 1, 0 <= y <= 1 of the unit
    square and of the L-shape); loads of one domain must not depend on which domains were served before (module-level state)."""
    _, order = item
    st = new_stats()
    for dom in order:
        U = get_univ(dom, 1)
        for k in sorted(U):
            if (k[0], k[1]) != (0.0, 1.0) or aspect_k(k) > ASPECT:
                continue
            v, ips, prob = call_linform(get_M0(dom, 'one_driver'), U[k], set())
            st['n'] += 1
            st['cases'] += 1
            rep = {'clause': 'exact', 'domain': dom, 'u0': 'one_driver', 'key': k, 'history': list(order)}
            if v is None:
                add_viol(st, {'domain': dom, 'clause': 'cross-domain-history', 'u0': 'one'}, '{} after {}: {}'.format(dom, order, prob), rep)
                continue
            ref = ref_load(dom, 'one', k, st)
            err = abs(v - ref) / abs(ref)
            add_class(st, 'cross-domain-history|{}'.format(dom), err)
            if not err <= TOL_EXACT:
                add_viol(st, {'domain': dom, 'clause': 'cross-domain-history', 'u0': 'one'},
                         '{} u0=1 element t={} x={} evaluated in one process after the domains {}: linform {!r} exact {!r} relative error {:.3e}'.format(
                             dom, k[:2], k[2:], list(order[:order.index(dom)]), v, ref, err), rep)
    st['reads'] = sorted(st['reads'])
    return st


def task(item):
    t0 = time.time()
    r = {'A': phaseA, 'B': phaseB, 'C': phaseC, 'H': phaseH, 'mpL': mp_load_task, 'mpP': mp_point_task, 'X': crosscheck_task}[item[0]](item)
    if isinstance(r, dict):
        r['task_seconds'] = round(time.time() - t0, 2)
    return r


# ---- driver -------------------------------------------------------------------------------------------------------------
def run(ctx):
    b = BOUNDS[ctx.tier]
    items = []
    for case in MP_LOADS[ctx.tier]:
        items.append(('mpL', case, False))
    if ctx.tier == 'thorough':
        for case in MP_LOADS_NESTED:
            items.append(('mpL', case, True))
    for i, case in enumerate(MP_POINTS):
        items.append(('mpP', case, False))
        if i in (0, 2, 4, 8) or ctx.tier == 'thorough':
            items.append(('mpP', case, True))
    work = []
    for dom in DOMS:
        for piece in range(NPIECE[dom]):
            work.append(('B', dom, piece, b))
            for u0n in ('one_driver', 'sine'):
                if u0n == 'sine' and O.DOMAINS[dom]['sine_k'] is None:
                    continue
                work.append(('A', dom, u0n, piece, b))
    # cheap ordering heuristic for load balance only (the L-shape and family items are the heaviest)
    work.sort(key=lambda it: (it[0] != 'B', it[1] == 'PiSquare'))
    items += work
    for dom in DOMS:
        for u0n in ['one_driver', 'sine'] + BASE[1:]:
            if u0n == 'sine' and O.DOMAINS[dom]['sine_k'] is None:
                continue
            items.append(('C', dom, u0n))
            items.append(('X', dom, oracle_name(u0n)))
    import itertools as _it
    for order in _it.permutations(DOMS):
        items.append(('H', tuple(order)))
    res = pmap(task, items, ctx.jobs, chunksize=1)

    # ---- oracle validation first: a broken oracle is a harness error, never a verdict
    val = {'mpmath_loads': [], 'mpmath_points': [], 'crosscheck': []}
    worst_mp = 0.0
    for it, r in zip(items, res):
        if it[0] == 'mpL':
            val['mpmath_loads'].append(r)
            worst_mp = max(worst_mp, r['rel_dev_std'], r['rel_dev_alt'], r['rel_dev_fine'])
            if not r['mpmath_error_estimate'] <= 1e-20:
                raise HarnessError('mpmath reference did not reach 20 digits: {}'.format(r))
        elif it[0] == 'mpP':
            val['mpmath_points'].append(r)
            worst_mp = max(worst_mp, r['rel_dev_closed_form_factors'], r['rel_dev_gauss_factors'])
    if not worst_mp <= 1e-12:
        raise HarnessError('oracle deviates from the mpmath references by {:.3e}: {}'.format(worst_mp, val))
    for it, r in zip(items, res):
        if it[0] != 'X':
            continue
        val['crosscheck'].append({k: r[k] for k in ('domain', 'u0', 'n', 'worst_vs_repo', 'worst_closed_vs_gauss_factors')})
        if not r['worst_closed_vs_gauss_factors'] <= 1e-11:
            raise HarnessError('oracle closed-form factors disagree with its Gauss factors: {}'.format(r))
        for dg in r['disagree']:
            if dg['oracle_rel_dev_from_mpmath'] <= 1e-12:
                ctx.violation({'domain': dg['domain'], 'clause': 'closed-form', 'u0': dg['u0'], 'class': 'problems.py'},
                              'closed-form M0u0 of problems.py for {} u0={} at t={} x={}: {!r}, mpmath {!r} (oracle {!r}); relative deviation {:.3e}'.format(
                                  dg['domain'], dg['u0'], dg['t'], dg['point'], dg['repo'], dg['mpmath'], dg['oracle'], dg['repo_rel_dev_from_mpmath']),
                              {'clause': 'closed-form', 'domain': dg['domain'], 'u0': dg['u0'], 't': dg['t'], 'point': dg['point']})
            else:
                raise HarnessError('oracle disagrees with mpmath: {}'.format(dg))

    # ---- aggregate the deciding phases
    tot = new_stats()
    tot['reads'] = set()
    nviol_unreported = 0
    per_phase = {'A': 0, 'B': 0, 'C': 0, 'H': 0}
    secs = {'A': 0.0, 'B': 0.0, 'C': 0.0, 'H': 0.0}
    for it, r in zip(items, res):
        if it[0] not in ('A', 'B', 'C', 'H'):
            continue
        per_phase[it[0]] += r['n']
        secs[it[0]] += r['task_seconds']
        tot['n'] += r['n']
        tot['cases'] += r['cases']
        tot['oracle_loads'] += r['oracle_loads']
        tot['oracle_self'] = max(tot['oracle_self'], r['oracle_self'])
        tot['oracle_semi'] = max(tot.get('oracle_semi', 0.0), r.get('oracle_semi', 0.0))
        tot['min_exact'] = min(tot['min_exact'], r['min_exact'])
        tot['unfloored'] = max(tot['unfloored'], r['unfloored'])
        tot['sec_code'] += r['sec_code']
        tot['sec_oracle'] += r['sec_oracle']
        tot['reads'] |= set(r['reads'])
        for kf, cf_ in r.get('fp', {}).items():
            tot.setdefault('fp', {})
            tot['fp'][kf] = tot['fp'].get(kf, 0) + cf_
        for i in range(4):
            tot['cells'][i] += r['cells'][i]
        for s, c in r['sigs'].items():
            tot['sigs'][s] = tot['sigs'].get(s, 0) + c
        for k, (c, mx) in r['classes'].items():
            cc = tot['classes'].setdefault(k, [0, 0.0])
            cc[0] += c
            cc[1] = max(cc[1], mx)
        if sum(1 for s_ in tot['samples'] if s_.get('phase') == it[0]) < 3:
            tot['samples'] += [dict(s_, phase=it[0]) for s_ in r['samples'][:1]]
        for kk, key, what, rep in r['viols']:
            ctx.violation(key, what, rep)
        nviol_unreported += r.get('nviol', 0) - len(r['viols'])
    if tot['oracle_self'] > ORACLE_SELF:
        raise HarnessError('oracle parameter sets std/alt disagree by {:.3e} (> {})'.format(tot['oracle_self'], ORACLE_SELF))
    if tot.get('oracle_semi', 0.0) > ORACLE_SELF:
        raise HarnessError('oracle space rule disagrees with the closed-form space integral (u0 = 1) by {:.3e}'.format(tot['oracle_semi']))
    if not set(tot['reads']) <= READ_OK:
        raise HarnessError('linform read element attributes outside the monitored set: {}'.format(sorted(tot['reads'])))
    # vacuity guard
    a0 = sum(c for s, c in tot['sigs'].items() if s[4])
    a1 = sum(c for s, c in tot['sigs'].items() if not s[4])
    branch = {'identical': tot['cells'][0], 'touching_v0': tot['cells'][1], 'touching_v1': tot['cells'][2], 'disjoint': tot['cells'][3],
              'elements_a==0': a0, 'elements_a>0': a1}
    missing = [k for k, v in branch.items() if not v]
    need = ['exact', 'linearity', 'additivity-space', 'additivity-time', 'domain-integral', 'evaluate', 'evaluate_mesh', 'vector']
    have = set(k.split('|')[0] for k in tot['classes'])
    missing += [c for c in need if c not in have]
    if missing and not ctx.n_viol:
        raise HarnessError('vacuity guard C08: no members in {}'.format(missing))
    if missing:  # e.g. every linform call raised: the violations above are the verdict, the empty classes a consequence
        ctx.note('classes without members (consequence of the violations reported above): {}'.format(missing))

    def worst(prefix, *match):
        sel = [(k, v) for k, v in tot['classes'].items() if k.split('|')[0] == prefix and all(m in k.split('|') for m in match)]
        return [sum(v[0] for _, v in sel), float('%.3g' % max([v[1] for _, v in sel] + [0.0]))]

    summary = {}
    for dom in DOMS:
        d = {}
        for u in ('one', 'sine'):
            for acl in ('a==0', 'a>0'):
                w = worst('exact', dom, u, acl)
                if w[0]:
                    d['exact u0={} {}'.format(u, acl)] = w
        d['linearity'] = worst('linearity', dom)
        d['additivity-space'] = worst('additivity-space', dom)
        d['additivity-time'] = worst('additivity-time', dom)
        d['domain-integral'] = worst('domain-integral', dom)
        d['evaluate vs oracle'] = worst('evaluate', dom, 'vs-oracle')
        d['evaluate vs repo closed form'] = worst('evaluate', dom, 'vs-repo-closed-form')
        d['evaluate_mesh vs oracle'] = worst('evaluate_mesh', dom, 'vs-oracle')
        d['linform_vector mismatches'] = worst('vector', dom)
        summary[dom] = d
    for dom, d in summary.items():
        ctx.note('{}: {}'.format(dom, d))
    ctx.note('oracle: {} reference loads, std/alt agree to {:.2e}; mpmath panel worst {:.2e}; repo closed forms worst {:.2e}'.format(
        tot['oracle_loads'], tot['oracle_self'], worst_mp, max([c['worst_vs_repo'] for c in val['crosscheck'] if c['worst_vs_repo'] is not None] + [0.0])))
    if tot.get('fp'):
        ctx.note('observation (not a verdict): floating-point events raised inside linform: {} (C08_FP_STRICT=1 reports them as violations)'.format(tot['fp']))
    sigs = sorted(tot['sigs'].items(), key=lambda kv: -kv[1])
    cov = {
        'evaluations': max(tot['n'], tot['cases']),
        'distinct_nontrivial': tot['cases'],
        'calls_into_the_code_under_test': tot['n'],
        'rule': 'evaluations = compared quantities (a linform value can serve several clauses; calls into the code are counted separately); one case = one compared quantity: (domain, u0, '
                'time interval, space interval) for exact / domain-integral / vector, (.., combination) for linearity, (parent, split kind) for '
                'additivity, (domain, u0, t, point, function, reference) for evaluate; all enumerated exhaustively from the universes in the '
                'module docstring, distinct by construction; every case is non-trivial (no input of this property is zero by a guard)',
        'bounds': b, 'time_alphabet': TIMES, 'aspect_filter': ASPECT,
        'linform_calls_by_phase': {'exact+additivity+vector (u0 in 1, sine)': per_phase['A'], 'family (linearity, domain integral, additivity)': per_phase['B'],
                                   'evaluate': per_phase['C']},
        'cpu_seconds_by_phase': {k: round(v, 1) for k, v in secs.items()}, 'cpu_seconds_in_linform': round(tot['sec_code'], 1),
        'cpu_seconds_in_oracle': round(tot['sec_oracle'], 1),
        'worst_error_by_domain_and_clause_[count,worst]': summary,
        'class_histogram_[count,worst]': {k: [v[0], float('%.3g' % v[1])] for k, v in sorted(tot['classes'].items())},
        'branch_members': branch,
        'distinct_branch_signatures': len(sigs),
        'branch_signatures_top_(identical,touch_v0,touch_v1,disjoint,a==0)': [[list(s), c] for s, c in sigs[:12]],
        'element_attributes_read_by_linform': sorted(tot['reads']),
        'floating_point_events_inside_linform_(divide,invalid)': tot.get('fp', {}),
        'smallest_exact_value_in_clause_exact': tot['min_exact'],
        'domain_integral_worst_relative_error_without_floor': float('%.3g' % tot['unfloored']),
        'oracle_reference_loads': tot['oracle_loads'], 'oracle_std_vs_alt_worst_relative': tot['oracle_self'],
        'oracle_u0=1_tensor_rule_vs_closed_form_space_integral_worst_relative': tot.get('oracle_semi'),
        'oracle_validation': val, 'oracle_vs_mpmath_worst_relative': worst_mp,
        'violations_beyond_the_reported_ones': nviol_unreported,
        'samples': tot['samples'],
        'exhaustive': True,
    }
    return ctx.finish('exploration', cov, [
        'oracle mc/oracle_m0.py (validated in this run: mpmath panel, repository closed forms, two parameter sets on every reference load)',
        'time intervals are represented by the dyadic alphabet of the property (k <= 5); space levels bounded as in coverage.bounds',
        'children are looked up by (time_interval, space_interval); justified by the monitored read-set of linform',
        'evaluate is only claimed for t >= 0.05 side^2 as the property says; use_mp=True of linform_vector belongs to C17'])


# ---- replay ---------------------------------------------------------------------------------------------------------------
def real_element(dom, k):
    k = tuple(float(x) for x in k)
    _, pl = piece_of(dom, (k[2], k[3]))
    lx = int(round(math.log2(pl / (k[3] - k[2]))))
    tg = (0.0, k[1]) if k[0] == 0 else (0.0, k[0], k[1])
    m = universe.level_mesh(dom, tg, 0, lx, PRE[dom])
    for e in m.leaf_elements:
        if fkey(e) == k:
            return e
    raise HarnessError('no such element {}'.format(k))


def replay(ctx, data):
    dom = data['domain']
    cl = data['clause']
    u0 = data['u0']
    spec = tuple(u0) if isinstance(u0, (list, tuple)) else u0

    def L(sp, k):
        v, ips, prob = call_linform(get_M0(dom, sp), real_element(dom, k), set())
        if prob:
            print('  ', prob)
        return v, ips
    st = new_stats()
    if cl in ('exact', 'domain-integral'):
        k = tuple(data['key'])
        v, ips = L(spec, k)
        ref = ref_load(dom, oracle_name(spec), k, st)
        tol = TOL_EXACT if cl == 'exact' else TOL_DOM
        den = abs(ref) if cl == 'exact' else max(abs(ref), 1e-3 * sup_u0(spec, dom) * get_orc(dom).load('one', k[:2], k[2:]))
        err = abs(v - ref) / den if v is not None else float('inf')
        print('linform', v, 'exact', ref, 'relative error', err, 'tol', tol)
        return err <= tol
    if cl == 'linearity':
        k = tuple(data['key'])
        u, w, al, be = spec
        v, _ = L(spec, k)
        a, ia = L(u, k)
        b_, ib = L(w, k)
        S = sum(abs(al * float(x)) for _, x in ia) + sum(abs(be * float(x)) for _, x in ib)
        err = abs(v - (al * a + be * b_)) / S
        print('L(combination)', v, 'combination of L', al * a + be * b_, 'defect/size of terms', err, 'tol', TOL_LIN)
        return err <= TOL_LIN
    if cl == 'additivity':
        p, _ = L(spec, tuple(data['parent']))
        a, _ = L(spec, tuple(data['children'][0]))
        b_, _ = L(spec, tuple(data['children'][1]))
        err = abs(p - a - b_) / (abs(a) + abs(b_))
        tol = data.get('tol', TOL_ADD)
        print('parent', p, 'children', a, b_, 'relative defect', err, 'tol', tol)
        return err <= tol
    if cl == 'vector':
        ks = [tuple(k) for k in data['keys']]
        els = [real_element(dom, k) for k in ks]
        M0 = get_M0(dom, spec)
        vec = M0.linform_vector(elems=els, use_mp=False)
        one = [float(M0.linform(e)[0]) for e in els]
        print('linform_vector', list(map(float, vec)), 'linform', one)
        return all(float(a) == b_ for a, b_ in zip(vec, one)) and len(vec) == len(one)
    if cl == 'evaluate':
        r = phaseC(('C', dom, spec))
        hit = [v for v in r['viols'] if v[3]['t'] == data['t'] and list(v[3]['point']) == list(data['point'])]
        for v in hit:
            print(v[2])
        return not hit
    if cl == 'closed-form':
        r = crosscheck_task(('X', dom, spec))
        print(r['disagree'])
        return not r['disagree']
    if cl == 'fp-event':
        r = phaseA(('A', dom, 'one_driver', 0, dict(BOUNDS['quick'], Lx=1)))
        print('floating-point events inside linform:', r.get('fp'))
        return not r.get('fp')
    print('unknown clause', cl)
    return False
