"""C02 - mesh leaves tile the cylinder, minimally and 1-irregularly (model checking over bisection histories)."""
import time

from mc import common, meshmc
from mc.meshcheck import check_gmsh, check_tiling, trans_leafset
from mc.meshmc import CFGS, Horizon, build, build_ref, find_leaf, horizon, leaf6, leafset
from mc.refmesh import halves, quarters, ref_from_leaves

QUICK = {'open1x1': 5, 'glued1x1': 5, 'glued2x1': 4, 'glued3x1': 4, 'open2x2': 3, 'glued2x2': 4,
         'open_irreg3x3': 3, 'glued_irreg3x3': 3, 'UnitInterval': 5, 'Circle': 3, 'UnitSquare': 4,
         'PiSquare': 3, 'LShape': 3, 'LShapeDriver': 2, 'Circle2': 2, 'UnitSquare2': 2, 'LShape2': 2, 'glued2x1np': 2}
DEEP = ('glued2x2', 'Circle', 'UnitSquare', 'LShapeDriver', 'open_irreg3x3', 'glued1x1')
THOROUGH = {'open1x1': 6, 'glued1x1': 6, 'glued2x1': 5, 'glued3x1': 5, 'open2x2': 4, 'glued2x2': 4,
            'open_irreg3x3': 3, 'glued_irreg3x3': 3, 'UnitInterval': 6, 'Circle': 4, 'UnitSquare': 4,
            'PiSquare': 4, 'LShape': 4, 'LShapeDriver': 3, 'Circle2': 3, 'UnitSquare2': 3, 'LShape2': 3, 'glued2x1np': 3}


def derived_ops(cfg, h, m, ref):
    """Leaf transitions: refine(e) for every leaf, uniform_refine, uniform_refine_space - each on a fresh
    replay, compared with the reference."""
    errs = []
    n = 0
    raised = 0  # kept for the evidence: operations that refused (none expected)
    for e6 in sorted(ref.leaves):
        m2 = build(cfg, h)
        el = find_leaf(m2, e6[:4])
        r2 = ref.copy()
        r2.bisect(e6, 0)
        for hf in halves(e6, 0):
            r2.bisect(hf, 1)
        try:
            with horizon(5000):
                res = m2.refine(el)
            n += 1
            if leafset(m2) != r2.leaves:
                errs.append(('refine-both', {'elem': e6}))
            elif sorted(leaf6(c) for c in res) != sorted(quarters(e6)):
                errs.append(('refine-both-return', {'elem': e6}))
        except (Exception, Horizon) as ex:
            errs.append(('refine-both-raised', {'elem': e6, 'exc': repr(ex)}))
    for name, expected in (('uniform_refine', set(q for e6 in ref.leaves for q in quarters(e6))),
                           ('uniform_refine_space', set(q for e6 in ref.leaves for q in halves(e6, 1)))):
        m2 = build(cfg, h)
        try:
            with horizon(20000):
                getattr(m2, name)()
            n += 1
            if leafset(m2) != expected:
                errs.append((name, {'n_impl': len(m2.leaf_elements), 'n_expected': len(expected)}))
            else:
                errs.extend((name + ':' + t, d) for t, d in check_tiling(m2, ref_from_leaves(ref, expected)))
        except (Exception, Horizon) as ex:
            errs.append((name + '-raised', repr(ex)))
    return errs, n, raised


def state_fn(cfg, h, m, ref):
    errs = check_tiling(m, ref)
    errs += check_gmsh(m)
    extra = {'states_checked': 1, 'leaves_checked': len(m.leaf_elements)}
    if len(h) <= state_fn.derived_depth:
        e2, n, raised = derived_ops(cfg, h, m, ref)
        errs += e2
        extra['derived_transitions'] = n
        extra['uniform_space_refused'] = raised
    return errs, extra


state_fn.derived_depth = 99


def report(ctx):
    def on_violation(cfgname, hist, v):
        tag, detail = v
        ctx.violation({'cfg': cfgname, 'tag': tag.split(':')[0]},
                      '{} after history {} on {}: {}'.format(tag, list(hist), cfgname, detail),
                      {'cfg': cfgname, 'history': [[list(r), ax] for r, ax in hist], 'tag': tag})
    return on_violation


def random_walks(ctx, st, n_walks, steps):
    """Supplementary long random histories (never counted as exhaustive)."""
    n = 0
    onv = report(ctx)
    for i in range(n_walks):
        cfgname = sorted(CFGS)[(ctx.seed + i) % len(CFGS)]
        bias = (0.2, 0.5, 0.8)[i % 3]
        h = meshmc.random_history(cfgname, ctx.seed * 7919 + i, steps, bias)
        cfg = CFGS[cfgname]
        m = meshmc.fresh(cfg)
        ref = meshmc.ref_initial(cfg)
        for k, (rect, ax) in enumerate(h):
            m.refine_axis(find_leaf(m, rect), ax)
            ref.bisect_rect(rect, ax)
            n += 1
            if leafset(m) != ref.leaves:
                onv(cfgname, h[:k + 1], ('transition', 'random walk diverged from reference'))
                break
        for v in check_tiling(m, ref) + check_gmsh(m):
            onv(cfgname, h, v)
    return n


def run(ctx):
    depths = QUICK if ctx.tier == 'quick' else THOROUGH
    state_fn.derived_depth = 3 if ctx.tier == 'quick' else 4
    st = meshmc.Stats()
    onv = report(ctx)
    for cfgname, d in depths.items():
        meshmc.explore(ctx, cfgname, d, state_fn, trans_leafset, onv, stats=st)
        ctx.note('{}: {}'.format(cfgname, st.per_cfg[cfgname]))
    # non-initial roots: directed deep histories (towards t=0, a corner, the seam from either side), each the root
    # of a shallow exhaustive search
    for cfgname in DEEP:
        for name, root in meshmc.deep_histories(cfgname, 3 if ctx.tier == 'quick' else 5).items():
            meshmc.explore(ctx, cfgname, 1 if ctx.tier == 'quick' else 2, state_fn, trans_leafset, onv, stats=st, root=root,
                           label='{}+deep:{}'.format(cfgname, name))
    # very deep directed roots away from the origin (element sizes tiny relative to their coordinates: time level 22 next to
    # t = T, space level 22 next to x = L) and a long staircase (16 columns, corner leaf at time level 13)
    for cfgname in ('UnitSquare', 'glued2x2', 'open_irreg3x3'):
        for name, root in meshmc.deep_end_histories(cfgname, 22 if ctx.tier == 'quick' else 30).items():
            if name == 'staircase':
                root = meshmc.deep_end_histories(cfgname, 13 if ctx.tier == 'quick' else 16)['staircase']
            meshmc.explore(ctx, cfgname, 0 if ctx.tier == 'quick' else 1, state_fn, trans_leafset, onv, stats=st, root=root,
                           label='{}+deepend:{}'.format(cfgname, name))
    nrw = random_walks(ctx, st, 6 if ctx.tier == 'quick' else 40, 60 if ctx.tier == 'quick' else 200)
    cov = {
        'states': st.states, 'transitions': st.transitions + int(st.extra.get('derived_transitions', 0)),
        'traces_validated_against_impl': st.transitions + int(st.extra.get('derived_transitions', 0)),
        'bisection_transitions': st.transitions,
        'derived_op_transitions': int(st.extra.get('derived_transitions', 0)),
        'uniform_refine_space_refused_by_assertion': int(st.extra.get('uniform_space_refused', 0)),
        'distinct_leaf_sets': st.leafsets, 'per_config': st.per_cfg, 'samples': st.samples[:8],
        'leaves_checked': int(st.extra.get('leaves_checked', 0)),
        'supplementary_random_walk_steps': nrw,
        'exhaustive': not any(c['capped'] for c in st.per_cfg.values()),
        'explanation': 'BFS over all bisection histories up to the per-configuration depth on the real Mesh objects, '
                       'states merged on the half-edge fingerprint; every transition compared with the reference '
                       'closure; every state checked for exact tiling, descent, bookkeeping, gmsh, 1-irregularity; '
                       'refine/uniform_refine/uniform_refine_space applied as leaf transitions at every state of '
                       'depth <= {}'.format(state_fn.derived_depth),
    }
    return ctx.finish('model_checking', cov, [
        'bisection = IEEE double midpoint', 'initial meshes: the listed configurations only',
        'histories beyond the depth bound only through the supplementary random walks (seeded, not exhaustive)'])


def replay(ctx, data):
    cfgname = data['cfg']
    cfg = CFGS[cfgname]
    h = tuple((tuple(r), ax) for r, ax in data['history'])
    ok = True
    for k in range(len(h) + 1):
        try:
            m = build(cfg, h[:k])
        except Exception as ex:
            print('history step', k, 'raised', repr(ex))
            return False
        ref = build_ref(cfg, h[:k])
        if leafset(m) != ref.leaves:
            print('step', k, 'leaf set differs from reference:', sorted(leafset(m) ^ ref.leaves)[:6])
            ok = False
            break
    errs, _ = state_fn(cfg, h, m, ref)
    for e in errs[:10]:
        print('  ', e)
    return ok and not errs
