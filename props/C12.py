"""C12 - Galerkin entries respect the symmetries of the kernel and of the curve.

Exhaustive over every ordered pair of the dyadic rectangle universe:
 (i)  exchange of the two space intervals with the time intervals kept           - bitwise
 (ii) common time shift by every grid step that keeps both elements in the grid   - bitwise
 (iii) every element of the curve's symmetry group that maps the dyadic alphabet to itself (squares: 4 rotations by
      whole sides x reflection = 8; circle: rotations by multiples of the finest element and reflection)
      - to 1e-7 * sqrt(D D').
Orbits that contain both an interior and a seam-crossing / side-changing member are counted."""
import math

import numpy as np

from mc import common, oracle, universe
from mc.common import pmap
from mc.meshmc import curve

TOL = 1e-7
ASPECT = 32.0
_U = {}


def get_universe(key):
    if key not in _U:
        cname, tgrid, Lt, Lx = key
        U = universe.rect_universe(cname, tgrid, Lt, Lx)
        g = curve(cname)
        els = [e for e in universe.all_elements(U) if universe.aspect(e) <= ASPECT]
        by = {(e.time_interval, e.space_interval): e for e in els}
        xs = sorted(set(x for e in els for x in e.space_interval))
        _U[key] = (g, els, by, xs, oracle.EntryOracle(g), universe.make_SL(cname, False, tgrid), universe.make_SL(cname, True, tgrid))
    return _U[key]


def snap(xs, x, L):
    """Nearest universe coordinate (non-dyadic curves: rotated coordinates differ from vertex coordinates by rounding)."""
    i = np.searchsorted(xs, x)
    best = min((xs[j] for j in (i - 1, i, (i + 1)) if 0 <= j < len(xs)), key=lambda y: abs(y - x))
    if abs(best - x) > 1e-9 * max(1.0, L):
        return None
    return best


def moves(cname, g, xs):
    """Parameter maps of the symmetry group: list of (name, f) with f mapping an interval (a,b) to (a',b')."""
    L = float(g.gamma_length)
    out = []
    if cname in ('UnitSquare', 'PiSquare'):
        shifts = [float(s) for s in g.pw_start[:-1]]
    elif cname == 'Circle':
        hmin = min(b - a for a, b in zip(xs, xs[1:]))
        n = int(round(L / hmin))
        shifts = [k * L / n for k in range(n)]
    else:
        return out
    for refl in (False, True):
        for s in shifts:
            def f(iv, s=s, refl=refl):
                a, b = iv
                if refl:
                    a, b = L - b, L - a
                a2 = a + s
                b2 = b + s
                if a2 >= L - 1e-9 * L:
                    a2 -= L
                    b2 -= L
                if b2 > L + 1e-9 * L:
                    return None  # image would straddle the seam: not an element of the alphabet
                return (a2, b2)
            if s == 0 and not refl:
                continue
            out.append((('reflect+' if refl else '') + 'rot{:.4f}'.format(s), f))
    return out


def chunk(item):
    key, lo, hi = item
    g, els, by, xs, orc, SL0, SL1 = get_universe(key)
    L = float(g.gamma_length)
    N = len(els)
    tg = key[1]
    dts = sorted(set(round(b - a, 12) for a in tg for b in tg if b > a))
    mv = moves(key[0], g, xs)
    out = {'n': 0, 'exchange': 0, 'shift': 0, 'motion': 0, 'orbits_mixed': 0, 'worst_motion': 0.0, 'viols': []}

    def find(tint, sint):
        a = snap(xs, sint[0], L)
        b = snap(xs, sint[1], L)
        if a is None or b is None:
            return None
        return by.get((tint, (a, b)))

    def is_seam_or_side_change(te, tr):
        return (te.gamma_space is not tr.gamma_space) or min(te.space_interval[0], tr.space_interval[0]) == 0 and max(te.space_interval[1], tr.space_interval[1]) == L

    for idx in range(lo, hi):
        te, tr = els[idx // N], els[idx % N]
        if te.time_interval[1] <= tr.time_interval[0]:
            continue
        for sw, SL in ((False, SL0), (True, SL1)):
            v = SL.bilform(tr, te)
            # (i) exchange of space intervals
            te2 = by.get((te.time_interval, tr.space_interval))
            tr2 = by.get((tr.time_interval, te.space_interval))
            if te2 is not None and tr2 is not None:
                out['exchange'] += 1
                out['n'] += 1
                w = SL.bilform(tr2, te2)
                if w != v:
                    out['viols'].append(('exchange-not-bitwise', rec(key, sw, te, tr, te2, tr2, v, w)))
            # (ii) common time shift
            for dt in dts:
                for sgn in (1, -1):
                    t1 = (te.time_interval[0] + sgn * dt, te.time_interval[1] + sgn * dt)
                    t2 = (tr.time_interval[0] + sgn * dt, tr.time_interval[1] + sgn * dt)
                    te2 = by.get((t1, te.space_interval))
                    tr2 = by.get((t2, tr.space_interval))
                    if te2 is None or tr2 is None:
                        continue
                    # bitwise only when all differences of the four time points are exact (dyadic grids)
                    out['shift'] += 1
                    out['n'] += 1
                    w = SL.bilform(tr2, te2)
                    if w != v:
                        out['viols'].append(('time-shift-not-bitwise', rec(key, sw, te, tr, te2, tr2, v, w)))
            # (iii) motions of the curve
            if mv:
                scale = math.sqrt(orc.diag(te) * orc.diag(tr))
                mixed = set()
                for name, f in mv:
                    i1, i2 = f(te.space_interval), f(tr.space_interval)
                    if i1 is None or i2 is None:
                        continue
                    te2, tr2 = find(te.time_interval, i1), find(tr.time_interval, i2)
                    if te2 is None or tr2 is None:
                        continue
                    out['motion'] += 1
                    out['n'] += 1
                    w = SL.bilform(tr2, te2)
                    err = abs(w - v) / scale
                    out['worst_motion'] = max(out['worst_motion'], err)
                    mixed.add(is_seam_or_side_change(te2, tr2))
                    if not err <= TOL:
                        r = rec(key, sw, te, tr, te2, tr2, v, w)
                        r['motion'] = name
                        r['err'] = err
                        out['viols'].append(('motion-changes-entry', r))
                mixed.add(is_seam_or_side_change(te, tr))
                if sw is False and len(mixed) == 2:
                    out['orbits_mixed'] += 1
    out['viols'] = out['viols'][:4]
    return out


def rec(key, sw, te, tr, te2, tr2, v, w):
    return {'curve': key[0], 'tgrid': key[1], 'pw_exact': sw, 'test': [te.time_interval, te.space_interval],
            'trial': [tr.time_interval, tr.space_interval], 'test2': [te2.time_interval, te2.space_interval],
            'trial2': [tr2.time_interval, tr2.space_interval], 'value': float(v), 'value2': float(w)}


UNIV = {'quick': [(c, (0., 1., 2.), 1, 1) for c in ('UnitSquare', 'PiSquare', 'Circle', 'LShape')] + [('UnitSquare', (0., 1.), 1, 2), ('Circle', (0., 1.), 0, 2)]
                 + [('UnitSquare', (0., 2.0**-9), 0, 2), ('UnitSquare', (0., 2.0**-11), 0, 3), ('Circle', (0., 2.0**-9), 0, 3), ('PiSquare', (0., 2.0**-9), 0, 4)],  # short end times: only the seam / corner couples
        'thorough': [(c, (0., 1., 2., 3.), 1, 2) for c in ('UnitSquare', 'PiSquare', 'Circle', 'LShape')] + [(c, (0., 1.), 2, 3) for c in ('UnitSquare', 'Circle')]
                    + [('UnitSquare', (0., 2.0**-9), 1, 2), ('UnitSquare', (0., 2.0**-11), 0, 3), ('Circle', (0., 2.0**-9), 0, 3), ('PiSquare', (0., 2.0**-9), 0, 4), ('UnitSquare', (0., 2.0**-9, 1.), 0, 2)]}


def run(ctx):
    items = []
    sizes = {}
    for key in UNIV[ctx.tier]:
        g, els, *_ = get_universe(key)
        N = len(els)
        sizes['{} t={} Lt={} Lx={}'.format(*key)] = {'elements': N, 'ordered_pairs': N * N}
        step = max(20, N * N // (ctx.jobs * 4))
        items += [(key, lo, min(N * N, lo + step)) for lo in range(0, N * N, step)]
    res = pmap(chunk, items, ctx.jobs, chunksize=1)
    tot = {'n': 0, 'exchange': 0, 'shift': 0, 'motion': 0, 'orbits_mixed': 0}
    worst = 0.0
    for it, r in zip(items, res):
        for k in tot:
            tot[k] += r[k]
        worst = max(worst, r['worst_motion'])
        for tag, v in r['viols']:
            ctx.violation({'tag': tag, 'curve': v['curve'], 'pw_exact': v['pw_exact']}, '{}: {}'.format(tag, v), dict(v, tag=tag))
    if not (tot['exchange'] and tot['shift'] and tot['motion'] and tot['orbits_mixed']):
        raise common.HarnessError('vacuous C12 run: {}'.format(tot))
    cov = {'evaluations': tot['n'], 'distinct_nontrivial': tot['n'],
           'rule': 'one case = (ordered causal pair, relation instance, switch value): exchange, each admissible time shift, each group element '
                   'whose image exists in the universe; distinct by construction',
           'universes': sizes, 'relations': tot, 'worst_motion_error_in_units_of_sqrtDD': worst,
           'orbits_with_interior_and_seam_or_side_changing_member': tot['orbits_mixed'],
           'samples': [{'exchange': {'test': [[0.0, 1.0], [0.0, 0.5]], 'trial': [[0.0, 0.5], [1.0, 2.0]]}},
                       {'motion': 'rot1.0000 on UnitSquare carries x in (3.5,4) to (0.5,1) across the seam'}],
           'exhaustive': True}
    return ctx.finish('exploration', cov, ['bitwise time-shift clause on grids whose time differences are exact (integer grid, dyadic levels)'])


def replay(ctx, data):
    key = (data['curve'], tuple(data['tgrid']), 2, 3)
    g, els, by, xs, orc, SL0, SL1 = get_universe(key)
    SL = SL1 if data['pw_exact'] else SL0
    e = [by[(tuple(data[k][0]), tuple(data[k][1]))] for k in ('test', 'trial', 'test2', 'trial2')]
    v, w = SL.bilform(e[1], e[0]), SL.bilform(e[3], e[2])
    print('entry', repr(v), 'moved entry', repr(w))
    if data['tag'] == 'motion-changes-entry':
        return abs(v - w) / math.sqrt(orc.diag(e[0]) * orc.diag(e[1])) <= TOL
    return v == w
