"""C11 - Galerkin entries are additive under splitting of either element.

Exhaustive: every ordered pair (incl. the diagonal) of the dyadic rectangle universe, every combination of split
kinds {unsplit, time halves, space halves, quarters} on the two sides (15 non-trivial combinations), both switch
values.  Pieces are REAL children (the universe holds one more level, produced by real bisection) and, in parallel,
the virtual children of DummyElement.uniform_refinement (which must give the same bits)."""
import math

import numpy as np

from mc import common, oracle, universe
from mc.common import pmap
from mc.meshmc import curve

from src.hierarchical_error_estimator import DummyElement

CURVES = ('UnitSquare', 'PiSquare', 'LShape', 'Circle', 'UnitInterval')
TOL = 1e-7
ASPECT = 32.0
_U = {}
KINDS = ('whole', 'time', 'space', 'quarters')


def get_universe(key):
    if key not in _U:
        cname, tgrid, Lt, Lx = key[:4]
        U = universe.rect_universe(cname, tgrid, Lt + 1, Lx + 1, key[4] if len(key) > 4 else '')
        g = curve(cname)
        by = {}
        for k, (m, els) in U.items():
            for e in els:
                by[(e.time_interval, e.space_interval)] = e
        parents = [e for (lt, lx), (m, els) in sorted(U.items()) if lt <= Lt and lx <= Lx for e in els]
        _U[key] = (g, parents, by, oracle.EntryOracle(g), universe.make_SL(cname, False, tgrid), universe.make_SL(cname, True, tgrid))
    return _U[key]


def pieces(by, e, kind):
    (t0, t1), (x0, x1) = e.time_interval, e.space_interval
    tm, xm = (t0 + t1) / 2, (x0 + x1) / 2
    if kind == 'whole':
        rects = [((t0, t1), (x0, x1))]
    elif kind == 'time':
        rects = [((t0, tm), (x0, x1)), ((tm, t1), (x0, x1))]
    elif kind == 'space':
        rects = [((t0, t1), (x0, xm)), ((t0, t1), (xm, x1))]
    else:
        rects = [((t0, tm), (x0, xm)), ((t0, tm), (xm, x1)), ((tm, t1), (x0, xm)), ((tm, t1), (xm, x1))]
    return [by[r] for r in rects]


def ok_aspect(ps):
    return all(universe.aspect(p) <= ASPECT for p in ps)


def chunk(item):
    key, lo, hi = item
    g, parents, by, orc, SL0, SL1 = get_universe(key)
    N = len(parents)
    out = {'n': 0, 'combos': 0, 'worst': 0.0, 'viols': [], 'dummy_checked': 0, 'skipped_aspect': 0}
    for idx in range(lo, hi):
        te, tr = parents[idx // N], parents[idx % N]
        if te.time_interval[1] <= tr.time_interval[0]:
            continue  # acausal: all pieces are acausal too (C04)
        if universe.aspect(te) > ASPECT or universe.aspect(tr) > ASPECT:
            out['skipped_aspect'] += 1
            continue  # the unsplit entry itself is outside the aspect range the property covers
        scale = math.sqrt(orc.diag(te) * orc.diag(tr))
        P = {k: pieces(by, te, k) for k in KINDS}
        Q = {k: pieces(by, tr, k) for k in KINDS}
        for sw, SL in ((False, SL0), (True, SL1)):
            whole = SL.bilform(tr, te)
            cache = {}

            def bf(a, b):
                kk = (id(a), id(b))
                if kk not in cache:
                    cache[kk] = SL.bilform(a, b)
                return cache[kk]
            for kt in KINDS:
                for ks in KINDS:
                    if kt == ks == 'whole':
                        continue
                    if not (ok_aspect(P[kt]) and ok_aspect(Q[ks])):
                        out['skipped_aspect'] += 1
                        continue
                    s = math.fsum(bf(q, p) for p in P[kt] for q in Q[ks])
                    out['combos'] += 1
                    out['n'] += len(P[kt]) * len(Q[ks])
                    err = abs(s - whole) / scale
                    out['worst'] = max(out['worst'], err)
                    if not err <= TOL:
                        if len(out['viols']) < 3:
                            out['viols'].append(('not-additive', {'curve': key[0], 'tgrid': key[1], 'pre': key[4] if len(key) > 4 else '', 'pw_exact': sw, 'split_test': kt, 'split_trial': ks,
                                                                  'test': [te.time_interval, te.space_interval], 'trial': [tr.time_interval, tr.space_interval],
                                                                  'whole': float(whole), 'sum': float(s), 'err': err}))
            # virtual children give the same bits as real children
            if sw is False and ok_aspect(P['quarters']) and ok_aspect(Q['quarters']):
                dq_t = DummyElement.uniform_refinement([te])[0]
                dq_s = DummyElement.uniform_refinement([tr])[0]
                real_t = {(p.time_interval, p.space_interval): p for p in P['quarters']}
                real_s = {(p.time_interval, p.space_interval): p for p in Q['quarters']}
                for a in dq_t:
                    for b in dq_s:
                        out['dummy_checked'] += 1
                        ra, rb = real_t.get((a.time_interval, a.space_interval)), real_s.get((b.time_interval, b.space_interval))
                        if ra is None or rb is None:
                            out['viols'].append(('virtual-child-is-not-a-real-child', {'curve': key[0], 'test': [te.time_interval, te.space_interval]}))
                            break
                        if SL.bilform(b, a) != bf(rb, ra):
                            out['viols'].append(('virtual-vs-real-children-differ', {'curve': key[0], 'tgrid': key[1], 'test': [a.time_interval, a.space_interval],
                                                                                     'trial': [b.time_interval, b.space_interval]}))
                            break
    out['viols'] = out['viols'][:3]
    return out


def history_task(item):
    """Call history across curves in ONE fresh process: all of universe A, then all of universe B (B's verdicts are reported)."""
    keyA, keyB = item
    gA, pA, *_ = get_universe(keyA)
    chunk((keyA, 0, len(pA) ** 2))
    gB, pB, *_ = get_universe(keyB)
    return chunk((keyB, 0, len(pB) ** 2))


UNIV = {'quick': [(c, (0., 1.), 1, 1) for c in CURVES] + [('UnitSquare', (0., 0.3, 1.), 0, 1), ('Circle', (0., 0.125), 0, 1)]
                 + [('UnitSquare', (0., 0.5, 2.0), 1, 0), ('Circle', (0., 0.5, 2.0), 1, 0)]  # slab ratio 1:3 - pairs with equal lags and equal SUM of the two time lengths but different lengths (1/4 + 1/4 = 3/8 + 1/8) on one operator
                 + [('UnitSquare', (0., 2.0**-9), 0, 2), ('Circle', (0., 2.0**-9), 0, 3), ('UnitSquare', (0., 1 / 32), 0, 0, 'xs:uneq')],  # very short end time: only seam / corner / neighbour couples survive
        'thorough': [(c, (0., 1.), 1, 2) for c in CURVES] + [(c, (0., 1., 2.), 1, 1) for c in CURVES] + [(c, (0., 0.3, 1.), 1, 1) for c in CURVES]
                    + [(c, (0., 0.125), 0, 2) for c in CURVES] + [(c, (0., 0.5, 2.0), 1, 1) for c in CURVES]
                    + [('UnitSquare', (0., 2.0**-9), 1, 2), ('Circle', (0., 2.0**-9), 0, 3), ('LShape', (0., 2.0**-9), 0, 2), ('UnitSquare', (0., 2.0**-9, 1.), 0, 2)]}


def run(ctx):
    items = []
    sizes = {}
    for key in UNIV[ctx.tier]:
        g, parents, *_ = get_universe(key)
        N = len(parents)
        sizes['{} t={} Lt={} Lx={}'.format(*key[:4]) + (' ' + key[4] if len(key) > 4 else '')] = {'parents': N, 'ordered_pairs': N * N}
        step = max(20, N * N // (ctx.jobs * 4))
        items += [(key, lo, min(N * N, lo + step)) for lo in range(0, N * N, step)]
    res = pmap(chunk, items, ctx.jobs, chunksize=1)
    n = combos = dummy = skipped = 0
    worst = 0.0
    for it, r in zip(items, res):
        n += r['n']
        combos += r['combos']
        dummy += r['dummy_checked']
        skipped += r['skipped_aspect']
        worst = max(worst, r['worst'])
        for tag, v in r['viols']:
            ctx.violation({'tag': tag, 'curve': v.get('curve'), 'pw_exact': v.get('pw_exact')}, '{}: {}'.format(tag, v), v)
    hk = [(c, (0., 1.), 0, 0) for c in CURVES]
    hitems = [(a, b) for a in hk for b in hk if a != b]
    resH = common.pmap_fresh(history_task, hitems, ctx.jobs)
    nH = 0
    for it, r in zip(hitems, resH):
        nH += r['combos']
        for tag, v in r['viols']:
            ctx.violation({'tag': 'history:' + tag, 'curve': v.get('curve'), 'pw_exact': v.get('pw_exact'), 'after': it[0][0]},
                          '{} in a process that served {} before: {}'.format(tag, it[0][0], v), v)
    combos += nH
    if combos == 0 or dummy == 0:
        raise common.HarnessError('vacuous C11 run')
    cov = {'evaluations': n, 'distinct_nontrivial': combos,
           'rule': 'one case = (ordered causal parent pair, split kind of test, split kind of trial, switch value) with all pieces of aspect <= 32; '
                   'evaluations = bilform calls on pieces; all cases distinct by construction',
           'universes': sizes, 'split_combinations_checked': combos, 'cross_curve_histories_in_fresh_processes': len(hitems), 'history_combinations': nH, 'combinations_skipped_by_aspect_filter': skipped,
           'virtual_vs_real_child_pairs_bitwise': dummy, 'worst_error_in_units_of_sqrtDD': worst,
           'samples': [{'test': [[0.0, 1.0], [0.0, 1.0]], 'trial': [[0.0, 0.5], [1.0, 1.5]], 'split_test': 'quarters', 'split_trial': 'time'}],
           'exhaustive': True}
    return ctx.finish('exploration', cov, ['D from the entry oracle', 'universe bounded by (Lt,Lx) as listed'])


def replay(ctx, data):
    key = (data['curve'], tuple(data['tgrid']), 2, 2) if not data.get('pre') else (data['curve'], tuple(data['tgrid']), 0, 1, data['pre'])
    g, parents, by, orc, SL0, SL1 = get_universe(key)
    te = by[(tuple(data['test'][0]), tuple(data['test'][1]))]
    tr = by[(tuple(data['trial'][0]), tuple(data['trial'][1]))]
    if 'split_test' not in data:
        v = SL0.bilform(tr, te)
        print('bilform on real children', v)
        return True
    SL = SL1 if data['pw_exact'] else SL0
    whole = SL.bilform(tr, te)
    s = math.fsum(SL.bilform(q, p) for p in pieces(by, te, data['split_test']) for q in pieces(by, tr, data['split_trial']))
    err = abs(s - whole) / math.sqrt(orc.diag(te) * orc.diag(tr))
    print('whole', whole, 'sum of pieces', s, 'err', err)
    return err <= TOL
