"""C10 - reported edge neighbours are exactly the geometric neighbours (same state graph as C02)."""
from mc import meshmc
from mc.meshcheck import check_neighbours
from mc.meshmc import CFGS, build, build_ref, find_leaf, leafset
from props.C02 import DEEP, QUICK, THOROUGH


def state_fn(cfg, h, m, ref):
    errs = check_neighbours(m, ref)
    n_edges = 4 * len(m.leaf_elements)
    two = sum(1 for e in m.leaf_elements for ed in e.edges if len(ed.neighbour_elements()) == 2) if not errs else 0
    selfadj = sum(1 for e in m.leaf_elements for ed in e.edges if e in ed.neighbour_elements()) if not errs else 0
    return errs, {'edges_checked': n_edges, 'edges_with_two_neighbours': two, 'self_adjacent_edges': selfadj}


def trans_fn(cfg, h, op, m2, ref_before):
    """History on ONE mesh object: ask every edge for its neighbours (whatever the mesh memoises is now warm), apply the
    bisection to the same object, ask again.  The second answer must be the geometric one for the new mesh."""
    m = build(cfg, h)
    if check_neighbours(m, ref_before):
        return None  # reported by the state check of that state
    m.refine_axis(find_leaf(m, op[0]), op[1])
    ref_after = ref_before.copy()
    ref_after.bisect_rect(op[0], op[1])
    if leafset(m) != ref_after.leaves:
        return None  # C02's business
    errs = check_neighbours(m, ref_after)
    if errs:
        return ('queried-before-and-after-the-bisection:' + errs[0][0], errs[0][1])
    return None


def report(ctx):
    def on_violation(cfgname, hist, v):
        tag, detail = v
        if tag == 'transition':
            return
        if tag == 'refine-raised':
            ctx.refine_raised = getattr(ctx, 'refine_raised', 0) + 1  # a bisection failed: C02's business, the state is not reachable
            return
        ctx.violation({'cfg': cfgname, 'tag': tag},
                      '{} after history {} on {}: {}'.format(tag, list(hist), cfgname, detail),
                      {'cfg': cfgname, 'history': [[list(r), ax] for r, ax in hist], 'tag': tag})
    return on_violation


def run(ctx):
    depths = QUICK if ctx.tier == 'quick' else THOROUGH
    st = meshmc.Stats()
    onv = report(ctx)
    for cfgname, d in depths.items():
        meshmc.explore(ctx, cfgname, d, state_fn, trans_fn, onv, stats=st)
    for cfgname in DEEP:
        for name, root in meshmc.deep_histories(cfgname, 3 if ctx.tier == 'quick' else 5).items():
            meshmc.explore(ctx, cfgname, 1 if ctx.tier == 'quick' else 2, state_fn, trans_fn, onv, stats=st, root=root,
                           label='{}+deep:{}'.format(cfgname, name))
    # very deep directed roots away from the origin (element sizes tiny relative to their coordinates: time level 22 next to
    # t = T, space level 22 next to x = L) and a long staircase (16 columns, corner leaf at time level 13)
    for cfgname in ('UnitSquare', 'glued2x2', 'open_irreg3x3'):
        for name, root in meshmc.deep_end_histories(cfgname, 22 if ctx.tier == 'quick' else 30).items():
            if name == 'staircase':
                root = meshmc.deep_end_histories(cfgname, 13 if ctx.tier == 'quick' else 16)['staircase']
            meshmc.explore(ctx, cfgname, 0 if ctx.tier == 'quick' else 1, state_fn, trans_fn, onv, stats=st, root=root,
                           label='{}+deepend:{}'.format(cfgname, name))
    # supplementary random walks
    nrw = 0
    for i in range(6 if ctx.tier == 'quick' else 40):
        cfgname = sorted(CFGS)[(ctx.seed + i) % len(CFGS)]
        h = meshmc.random_history(cfgname, ctx.seed * 104729 + i, 60 if ctx.tier == 'quick' else 200, (0.2, 0.5, 0.8)[i % 3])
        cfg = CFGS[cfgname]
        for k in sorted(set([len(h) // 3, 2 * len(h) // 3, len(h)])):
            m, ref = build(cfg, h[:k]), build_ref(cfg, h[:k])
            nrw += 1
            if leafset(m) != ref.leaves:
                continue  # C02's business
            for v in check_neighbours(m, ref):
                onv(cfgname, h[:k], v)
        # the same walk on ONE object with a full neighbour query after every step
        m, ref = meshmc.fresh(cfg), meshmc.ref_initial(cfg)
        for k, (rect, ax) in enumerate(h):
            m.refine_axis(find_leaf(m, rect), ax)
            ref.bisect_rect(rect, ax)
            if leafset(m) != ref.leaves:
                break
            nrw += 1
            errs = check_neighbours(m, ref)
            if errs:
                onv(cfgname, h[:k + 1], ('queried-after-every-step:' + errs[0][0], errs[0][1]))
                break
    cov = {
        'states': st.states, 'transitions': st.transitions, 'traces_validated_against_impl': st.transitions,
        'edges_checked': int(st.extra.get('edges_checked', 0)),
        'edges_with_two_neighbours': int(st.extra.get('edges_with_two_neighbours', 0)),
        'self_adjacent_edges': int(st.extra.get('self_adjacent_edges', 0)),
        'distinct_leaf_sets': st.leafsets, 'per_config': st.per_cfg, 'samples': st.samples[:8],
        'supplementary_random_walk_states': nrw, 'bisections_that_raised_and_were_left_to_C02': getattr(ctx, 'refine_raised', 0),
        'exhaustive': not any(c['capped'] for c in st.per_cfg.values()),
        'explanation': 'same BFS state graph as C02; in every state, for every edge of every leaf: reported set == '
                       'geometric set of the reference (seam identified), <=2, all leaves, symmetric, boundary/glued flags',
    }
    return ctx.finish('model_checking', cov, ['bisection = IEEE double midpoint', 'initial meshes: the listed configurations only'])


def replay(ctx, data):
    cfg = CFGS[data['cfg']]
    h = tuple((tuple(r), ax) for r, ax in data['history'])
    m, ref = build(cfg, h), build_ref(cfg, h)
    errs = check_neighbours(m, ref)
    for e in errs[:10]:
        print('  ', e)
    return not errs
