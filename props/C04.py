"""C04 - causality: the single-layer matrix is Volterra-structured and never negative.

Exhaustive over (i) every ordered pair of the dyadic rectangle universes (no aspect filter - the zero and sign
clauses hold for all inputs), both switch values; (ii) every trial element x time alphabet (start/end +- 1 ulp,
interior, T) x point alphabet for evaluate / evaluate_exact / potential / evaluate_vector; (iii) every
leaf-set-distinct mesh state of BFS graphs: bilform_matrix (inline and serial paths) is block lower-triangular with
rows = test, columns = trial."""
import math

import numpy as np

from mc import common, meshmc, oracle, universe
from mc.common import pmap
from mc.meshmc import curve

CURVES = ('UnitSquare', 'PiSquare', 'LShape', 'Circle', 'UnitInterval')
_U = {}


def same_entry(a, b):
    """Is `a` the entry of the same pair as `b`, up to rounding?  (Entries of different pairs differ by far more; whether two
    evaluations of one pair agree to the last bit is C17's statement, not C04's.)"""
    return abs(a - b) <= 1e-9 * max(abs(a), abs(b)) + 1e-300


def cut_per_tag(viols, k=4):
    """Up to k reports PER TAG: a plain cut after k would let the hits of a known finding crowd out a new violation."""
    kept, cnt = [], {}
    for tag, v in viols:
        cnt[tag] = cnt.get(tag, 0) + 1
        if cnt[tag] <= k:
            kept.append((tag, v))
    return kept


def get_universe(key):
    if key not in _U:
        cname, tgrid, Lt, Lx, pre = key
        U = universe.rect_universe(cname, tgrid, Lt, Lx, pre)
        els = universe.all_elements(U)
        g = curve(cname)
        _U[key] = (g, els, oracle.EntryOracle(g), universe.make_SL(cname, False, tgrid), universe.make_SL(cname, True, tgrid), U)
    return _U[key]


def mp_reference_positive(orc, tr, te):
    """Is the exact entry above 1e-250?  Lower bound by the smallest kernel value times the measure, in mpmath."""
    import mpmath as mp
    mp.mp.dps = 30
    a, b = map(mp.mpf, te.time_interval)
    c, d = map(mp.mpf, tr.time_interval)
    # farthest distance between the two elements (sampled on a fine grid of the straight/curved pieces)
    xs = np.linspace(te.space_interval[0], te.space_interval[1], 33)
    ys = np.linspace(tr.space_interval[0], tr.space_interval[1], 33)
    P = orc.piece(te)(xs)
    Q = orc.piece(tr)(ys)
    r2max = float(np.max((P[0][:, None] - Q[0][None, :])**2 + (P[1][:, None] - Q[1][None, :])**2)) * 1.01 + 1e-300
    rho = mp.mpf(r2max) / 4

    def K(z):
        if z <= 0:
            return mp.mpf(0)
        u = rho / z
        return ((rho + z) * mp.e1(u) - z * mp.exp(-u)) / (4 * mp.pi)

    # the time-integrated kernel is decreasing in rho, so its value at the largest rho is a lower bound
    kmin = K(b - c) - K(a - c) - K(b - d) + K(a - d)
    low = kmin * mp.mpf(te.h_x) * mp.mpf(tr.h_x)
    return low > mp.mpf('1e-250'), float(mp.log10(low)) if low > 0 else -1e9


def pairs_chunk(item):
    key, lo, hi = item
    g, els, orc, SL0, SL1, U = get_universe(key)
    N = len(els)
    out = {'n': 0, 'acausal': 0, 'causal': 0, 'tiny': 0, 'zero_causal': 0, 'viols': [], 'min_ratio': 0.0}
    for idx in range(lo, hi):
        te, tr = els[idx // N], els[idx % N]
        acausal = te.time_interval[1] <= tr.time_interval[0]
        for sw, SL in ((False, SL0), (True, SL1)):
            out['n'] += 1
            try:
                val = SL.bilform(tr, te)
            except Exception as ex:
                out['viols'].append(('raised', sw, te, tr, repr(ex)))
                continue
            v = {'curve': key[0], 'tgrid': key[1], 'pw_exact': sw, 'test': [te.time_interval, te.space_interval],
                 'trial': [tr.time_interval, tr.space_interval], 'value': float(val) if np.ndim(val) == 0 else None}
            if np.ndim(val) != 0:
                out['viols'].append(('non-scalar-result', v if False else {'curve': key[0], 'tgrid': key[1], 'pw_exact': sw, 'test': [te.time_interval, te.space_interval], 'trial': [tr.time_interval, tr.space_interval], 'value': repr(val)[:80]}))
                continue
            if acausal:
                out['acausal'] += 1
                if not (val == 0 and float(val) == 0.0):
                    out['viols'].append(('acausal-nonzero', v))
                continue
            out['causal'] += 1
            if val <= 0 or val < 1e-200:
                out['tiny'] += 1
                scale = math.sqrt(orc.diag(te) * orc.diag(tr))
                # magnitude class for the known-findings key: rounding level (within 100x of the stated bound) or gross
                v['magnitude'] = 'rounding-level' if abs(val) <= 1e-13 * scale else 'gross'
                if val < -1e-15 * scale:
                    v['scale'] = scale
                    out['viols'].append(('negative', v))
                elif val <= 0:
                    out['zero_causal'] += 1
                    pos, lg = mp_reference_positive(orc, tr, te)
                    if pos:
                        v['log10_lower_bound_exact'] = lg
                        out['viols'].append(('nonpositive-but-exact>1e-250', v))
    out['viols'] = cut_per_tag([(t, d) for t, d, *rest in out['viols']], 4)
    return out


def ulp_nb(x):
    return float(np.nextafter(x, -np.inf)), float(np.nextafter(x, np.inf))


def pointwise_task(key):
    g, els, orc, SL0, SL1, U = get_universe(key)
    L = float(g.gamma_length)
    T = key[1][-1]
    SL = SL0
    SL._init_elems(els)
    out = {'n': 0, 'zero_checks': 0, 'viols': []}
    straight = key[0] != 'Circle'
    for tr in els:
        a, b = tr.time_interval
        xa, xb = tr.space_interval
        times = set([a, b, T, (a + b) / 2, a + (b - a) * 0.3, 0.0]) | set(ulp_nb(a)) | set(ulp_nb(b))
        times = sorted(t for t in times if 0 <= t <= T * 2)
        mid = (xa + xb) / 2
        pts = set([0.0, L, xa, xb, mid, xa + (xb - xa) * 0.25, (xa + L / 3) % L, (xb + 0.01 * (xb - xa)) % L,
                   (xa - 0.01 * (xb - xa)) % L])
        pts = sorted(p for p in pts if not (xa < p < xa + 2e-5 * max(1, xb - xa)) and not (xb - 2e-5 * max(1, xb - xa) < p < xb)
                     and (p <= xa or p >= xb or (p - xa > 2e-5 and xb - p > 2e-5)))
        self_scale = None
        for t in times:
            for xh in pts:
                x = g.eval(xh).reshape(2, 1)
                res = {}
                calls = [('evaluate', lambda: SL.evaluate(tr, t, xh, x)),
                         ('potential', lambda: SL.potential(tr, t, x + np.array([[0.013], [0.007]])))]
                if straight and any(g.pw_start[i] <= xh <= g.pw_start[i + 1] and g.pw_start[i] <= xa and xb <= g.pw_start[i + 1]
                                    for i in range(len(g.pw_gamma))):
                    calls.append(('evaluate_exact', lambda: SL.evaluate_exact(tr, t, xh)))
                for fn, call in calls:
                    try:
                        res[fn] = call()
                    except Exception as ex:
                        out['n'] += 1
                        out['viols'].append(('raised', {'curve': key[0], 'tgrid': key[1], 'fn': fn, 'trial': [tr.time_interval, tr.space_interval],
                                                        't': t, 'x_hat': xh, 'exc': repr(ex)}))
                for fn, val in res.items():
                    out['n'] += 1
                    rec = {'curve': key[0], 'tgrid': key[1], 'fn': fn, 'trial': [tr.time_interval, tr.space_interval],
                           't': t, 'x_hat': xh, 'value': float(val) if (val is not None and np.ndim(val) == 0) else None}
                    if val is None or np.ndim(val) != 0:
                        rec['value'] = repr(val)[:80]
                        out['viols'].append(('returned-None-or-non-scalar', rec))
                        continue
                    if t <= a:
                        out['zero_checks'] += 1
                        if not (val == 0 and float(val) == 0.0):
                            out['viols'].append(('acausal-nonzero', rec))
                    else:
                        if self_scale is None:
                            self_scale = abs(float(SL.evaluate(tr, b, mid, g.eval(mid).reshape(2, 1)))) + 1e-300
                        if float(val) < -1e-15 * self_scale or not math.isfinite(float(val)):
                            rec['scale'] = self_scale
                            out['viols'].append(('negative', rec))
                        elif not float(val) > 0:
                            # causal and not positive: only allowed when the exact value is in the underflow range
                            xpt = x + np.array([[0.013], [0.007]]) if fn == 'potential' else x
                            refv = oracle.pointwise(t, tr.time_interval, tr.space_interval, orc.piece(tr), xpt,
                                                    xhat=xh if (fn != 'potential' and xa < xh < xb) else None)
                            out['positivity_checks'] = out.get('positivity_checks', 0) + 1
                            if refv > 1e-250:
                                rec['reference'] = refv
                                rec['regime'] = 'h_x^2/tau>16' if (xb - xa)**2 > 16 * (t - a) else 'h_x^2/tau<=16'
                                out['viols'].append(('causal-not-positive', rec))
    # evaluate_vector / potential_vector: zero exactly for every element that starts at or after t, equal to evaluate / potential
    # otherwise.  Call history on ONE operator in the driver's lifecycle (SL.mesh = m; SL._init_elems(leaves)): the level meshes
    # of the universe are served one after the other, coarse to fine and back, at the SAME times - what a vector call at time t
    # leaves behind on the operator must not change the answer of the next one on another mesh.
    SLm = universe.make_SL(key[0], False, key[1])
    lv = sorted(U)
    ts_all = sorted(set(x for e in U[max(U)][0].leaf_elements for x in e.time_interval))
    shift = np.array([[0.013], [0.007]])
    out['vector_history_meshes'] = 0
    for t in ts_all:  # time outermost: consecutive vector calls at ONE time on DIFFERENT meshes
        for step, lvl in enumerate(lv + lv[::-1][1:]):
            m = U[lvl][0]
            SLm.mesh = m
            SLm._init_elems(m.leaf_elements)
            leaves = list(m.leaf_elements)
            out['vector_history_meshes'] += 1
            for xh in ((0.0, L / 7, L / 2) if step == len(lv) - 1 else (L / 7, )):
                xp = g.eval(xh).reshape(2, 1) + shift
                try:
                    vec = SLm.evaluate_vector(t, xh)
                    vecp = SLm.potential_vector(t, xp)
                except Exception as ex:  # noqa: BLE001 - a legitimate call in the driver's lifecycle
                    out['viols'].append(('vector-call-raised', {'curve': key[0], 't': t, 'x_hat': xh, 'level': lvl, 'history_step': step, 'exc': repr(ex)}))
                    continue
                if len(vec) != len(leaves) or len(vecp) != len(leaves):
                    out['viols'].append(('vector-length', {'curve': key[0], 't': t, 'x_hat': xh, 'level': lvl, 'history_step': step}))
                    continue
                for j, e in enumerate(leaves):
                    out['n'] += 2
                    rec = {'curve': key[0], 't': t, 'x_hat': xh, 'j': j, 'level': lvl, 'history_step': step}
                    if t <= e.time_interval[0]:
                        out['zero_checks'] += 2
                        if vec[j] != 0.0:
                            out['viols'].append(('evaluate_vector-acausal-nonzero', rec))
                        if vecp[j] != 0.0:
                            out['viols'].append(('potential_vector-acausal-nonzero', rec))
                    else:
                        if not same_entry(vec[j], SLm.evaluate(e, t, xh, g.eval(xh).reshape(2, 1))):
                            out['viols'].append(('evaluate_vector-differs', rec))
                        if not same_entry(vecp[j], SLm.potential(e, t, xp)):
                            out['viols'].append(('potential_vector-differs', rec))
    # keep up to four reports PER TAG (a plain cut after four would let the hits of a known finding crowd out a new violation)
    out['viols'] = cut_per_tag(out['viols'], 4)
    return out


def matrix_task(item):
    cfgname, h = item
    cfg = meshmc.CFGS[cfgname]
    m = meshmc.build(cfg, h)
    from src.single_layer import SingleLayerOperator
    SL = SingleLayerOperator(m)
    elems = sorted(m.leaf_elements, key=lambda e: (e.time_interval[0], e.time_interval[1], e.space_interval))
    N = len(elems)
    out = {'n': 0, 'viols': [], 'zeros': 0}
    mats = {'default': SL.bilform_matrix(elems, elems)}
    if N * N < 100:  # force the serial loop as well: pad the trial list so that N*M >= 100, then cut
        reps = (100 // (N * N)) + 1
        big = SL.bilform_matrix(elems, elems * reps + elems)
        mats['serial'] = big[:, :N]
        if not np.array_equal(big[:, N * reps:], mats['default']) or not np.array_equal(big[:, :N], mats['default']):
            out['viols'].append(('inline-vs-serial', {'cfg': cfgname, 'history': h}))
    # call history on ONE operator: a second large (serial-path) assembly with a trial list of the SAME length in another order
    reps0 = max(1, (100 // (N * N)) + 1)
    T1 = elems * reps0 + elems
    T2 = T1[::-1]
    try:
        B1 = SL.bilform_matrix(elems, T1)
        B2 = SL.bilform_matrix(elems, T2)
        ok = True
        for i, te in enumerate(elems):
            for j, tr in enumerate(T2):
                out['n'] += 1
                acausal = te.time_interval[1] <= tr.time_interval[0]
                if (acausal and B2[i, j] != 0.0) or (not acausal and not (B2[i, j] > 0)) or not same_entry(B2[i, j], B1[i, len(T1) - 1 - j]):
                    ok = False
                    out['viols'].append(('matrix-second-call-same-length-list', {'cfg': cfgname, 'history': h, 'i': i, 'j': j, 'path': 'serial',
                                                                                 'value': float(B2[i, j]), 'first_call_value': float(B1[i, len(T1) - 1 - j])}))
                    break
            if not ok:
                break
    except Exception as ex:
        out['viols'].append(('matrix-second-call-raised', {'cfg': cfgname, 'history': h, 'exc': repr(ex)[:200]}))
    # square assembly (N == M, at least 100 entries, serial path) with DIFFERENT test and trial lists
    K = max(10, N)
    Tq = (elems * (K // N + 1))[:K]
    Sq = Tq[::-1]
    try:
        Bq = SL.bilform_matrix(Tq, Sq)
        done = False
        for i, te in enumerate(Tq):
            for j, tr in enumerate(Sq):
                out['n'] += 1
                if not same_entry(Bq[i, j], SL.bilform(tr, te)):
                    out['viols'].append(('matrix-square-different-lists', {'cfg': cfgname, 'history': h, 'i': i, 'j': j, 'path': 'serial',
                                                                           'value': float(Bq[i, j]), 'single': float(SL.bilform(tr, te))}))
                    done = True
                    break
            if done:
                break
    except Exception as ex:
        out['viols'].append(('matrix-square-raised', {'cfg': cfgname, 'history': h, 'exc': repr(ex)[:200]}))
    # process-pool path (fork-faithful virtual pool, two schedules: one worker; three workers round robin)
    from mc import vpool
    ctl = vpool.install()
    reps = max(1, (100 // (N * N)) + 1) if N * N < 100 else 0
    trial_list = elems * reps + elems if reps else elems
    for cpu in (1, 3):
        ctl.configure(cpu=cpu, assign=None)
        try:
            with ctl.window():
                big = SL.bilform_matrix(elems, trial_list, use_mp=True)
            mats['pool-cpu{}'.format(cpu)] = big[:, len(trial_list) - N:]
            if not np.array_equal(big[:, :N], big[:, len(trial_list) - N:]):
                out['viols'].append(('pool-columns-differ', {'cfg': cfgname, 'history': h, 'cpu': cpu}))
        except Exception as ex:
            out['viols'].append(('pool-path-raised', {'cfg': cfgname, 'history': h, 'cpu': cpu, 'exc': repr(ex)[:200]}))
    # rows = test, columns = trial, entry by entry: the Galerkin call (ONE list object as test and trial) must carry in position
    # (i, j) the entry of (test_i, trial_j) - compared with single evaluations on a second operator
    SLs = SingleLayerOperator(m)
    G = {'galerkin-default': mats['default']}
    if N * N < 100 and N >= 2:
        # also through the large (serial) path: the same list object repeated so that N*M >= 100
        rep_list = elems * ((100 // (N * N)) + 1)
        try:
            G['galerkin-serial'] = SL.bilform_matrix(rep_list, rep_list)
        except Exception as ex:
            out['viols'].append(('galerkin-serial-raised', {'cfg': cfgname, 'history': h, 'exc': repr(ex)[:200]}))
    for name, A in G.items():
        lst = elems if name == 'galerkin-default' else rep_list
        bad = None
        for i, te in enumerate(lst):
            for j, tr in enumerate(lst):
                out['n'] += 1
                if not same_entry(A[i, j], SLs.bilform(tr, te)):
                    bad = (i, j, float(A[i, j]), float(SLs.bilform(tr, te)))
                    break
            if bad:
                break
        if bad:
            out['viols'].append(('matrix-orientation-entrywise', {'cfg': cfgname, 'history': h, 'path': name, 'i': bad[0], 'j': bad[1],
                                                                          'value': bad[2], 'single': bad[3]}))
    for name, A in mats.items():
        for i, te in enumerate(elems):
            for j, tr in enumerate(elems):
                out['n'] += 1
                if te.time_interval[1] <= tr.time_interval[0]:
                    out['zeros'] += 1
                    if A[i, j] != 0.0:
                        out['viols'].append(('matrix-upper-block-nonzero', {'cfg': cfgname, 'history': h, 'i': i, 'j': j, 'path': name}))
                elif not (A[i, j] > 0):
                    out['viols'].append(('matrix-causal-entry-not-positive', {'cfg': cfgname, 'history': h, 'i': i, 'j': j, 'path': name}))
        # orientation: an asymmetric pair (test later than trial) pins rows = test, columns = trial
        for i, te in enumerate(elems):
            for j, tr in enumerate(elems):
                if te.time_interval[0] >= tr.time_interval[1] and not same_entry(A[i, j], SL.bilform(tr, te)):
                    out['viols'].append(('matrix-orientation', {'cfg': cfgname, 'history': h, 'i': i, 'j': j, 'path': name}))
    out['viols'] = cut_per_tag(out['viols'], 3)
    return out


PAIRS = {
    'quick': [(c, (0., 1.), 1, 2, '') for c in CURVES] + [(c, (0., 1., 2.), 1, 1, '') for c in ('UnitSquare', 'Circle', 'LShape')]
             + [(c, (0., 2.**-10, 2.**-9), 0, 2, '') for c in ('UnitSquare', 'Circle')],
    'thorough': [(c, (0., 1.), 2, 3, '') for c in CURVES] + [(c, (0., 1., 2.), 1, 2, '') for c in CURVES]
                + [(c, (0., 2.**-10, 2.**-9), 1, 2, '') for c in CURVES] + [(c, (0., 0.3, 1.), 1, 2, '') for c in CURVES],
}
POINTS = {
    'quick': [(c, (0., 1.), 1, 1, '') for c in CURVES] + [('UnitSquare', (0., 0.3, 1.), 0, 1, '')],
    'thorough': [(c, (0., 1.), 2, 2, '') for c in CURVES] + [(c, (0., 0.3, 1.), 1, 1, '') for c in CURVES],
}
GRAPHS = {'quick': {'UnitSquare': 2, 'Circle': 2, 'LShape': 1, 'UnitSquare2': 1, 'UnitInterval': 2},
          'thorough': {'UnitSquare': 3, 'Circle': 3, 'LShape': 2, 'PiSquare': 2, 'UnitSquare2': 2, 'Circle2': 2, 'UnitInterval': 3}}


def run(ctx):
    items = []
    sizes = {}
    for key in PAIRS[ctx.tier]:
        g, els, *_ = get_universe(key)
        N = len(els)
        sizes['{} t={} Lt={} Lx={}'.format(*key[:4])] = {'elements': N, 'ordered_pairs': N * N}
        step = max(200, N * N // (ctx.jobs * 4))
        items += [(key, lo, min(N * N, lo + step)) for lo in range(0, N * N, step)]
    res = pmap(pairs_chunk, items, ctx.jobs, chunksize=1)
    tot = {'n': 0, 'acausal': 0, 'causal': 0, 'tiny': 0, 'zero_causal': 0}
    for it, r in zip(items, res):
        for k in tot:
            tot[k] += r[k]
        for tag, v in r['viols']:
            ctx.violation({'clause': 'pair', 'tag': tag, 'curve': it[0][0], 'pw_exact': v.get('pw_exact') if isinstance(v, dict) else None,
                           'magnitude': v.get('magnitude') if isinstance(v, dict) else None}, 'bilform {}: {}'.format(tag, v), dict(v, clause='pair') if isinstance(v, dict) else {'clause': 'pair', 'detail': v})
    resP = pmap(pointwise_task, POINTS[ctx.tier], ctx.jobs, chunksize=1)
    nP = zP = 0
    for key, r in zip(POINTS[ctx.tier], resP):
        nP += r['n']
        zP += r['zero_checks']
        for tag, v in r['viols']:
            ctx.violation(dict({'clause': 'pointwise', 'tag': tag, 'curve': key[0], 'fn': v.get('fn')}, **({'regime': v['regime']} if v.get('regime') else {})), 'pointwise {}: {}'.format(tag, v), dict(v, clause='pointwise'))
    mitems = []
    for cfgname, d in GRAPHS[ctx.tier].items():
        for h in meshmc.all_states(ctx, cfgname, d, key='leaf'):
            mitems.append((cfgname, h))
    resM = pmap(matrix_task, mitems, ctx.jobs)
    nM = zM = 0
    for it, r in zip(mitems, resM):
        nM += r['n']
        zM += r['zeros']
        for tag, v in r['viols']:
            ctx.violation({'clause': 'matrix', 'tag': tag}, 'bilform_matrix {}: {}'.format(tag, v), dict(v, clause='matrix'))
    if not tot['acausal'] or not tot['causal'] or not zP or not zM:
        raise common.HarnessError('vacuous C04 run: {}'.format(tot))
    cov = {
        'evaluations': tot['n'] + nP + nM, 'distinct_nontrivial': tot['n'] // 2 + nP + len(mitems),
        'rule': 'every ordered element pair of the listed universes (x2 switch values; counted once), every (trial element, time, point, '
                'function) of the pointwise alphabets, every leaf-set-distinct mesh of the listed BFS graphs; all distinct by construction',
        'pair_evaluations': tot, 'pair_universes': sizes, 'pointwise_evaluations': nP, 'pointwise_exact_zero_checks': zP,
        'matrix_entries_checked': nM, 'matrix_exact_zero_checks': zM, 'meshes': len(mitems),
        'samples': [{'pair': {'test': [[0.0, 0.5], [0.0, 0.25]], 'trial': [[0.5, 1.0], [0.75, 1.0]], 'expect': 'exactly 0.0'}},
                    {'pointwise': {'t': 'trial start + 1 ulp', 'x_hat': 'element mid point'}}],
        'exhaustive': True,
    }
    return ctx.finish('exploration', cov, ['time alphabet: element start/end +-1 ulp, interior points, T', 'pool path of bilform_matrix is covered by C17'])


def replay(ctx, data):
    class E:
        pass
    if data.get('clause') == 'pair':
        g = curve(data['curve'])
        orc = oracle.EntryOracle(g)
        SL = universe.make_SL(data['curve'], data['pw_exact'], tuple(data['tgrid']))
        els = []
        for t, x in (data['test'], data['trial']):
            e = E()
            e.time_interval, e.space_interval = tuple(t), tuple(x)
            e.h_t, e.h_x = t[1] - t[0], x[1] - x[0]
            e.gamma_space = orc.piece(e)
            els.append(e)
        val = SL.bilform(els[1], els[0])
        print('bilform =', repr(val))
        if els[0].time_interval[1] <= els[1].time_interval[0]:
            return val == 0
        return val > 0
    if data.get('clause') == 'matrix':
        r = matrix_task((data['cfg'], tuple((tuple(rr), ax) for rr, ax in data['history'])))
        print(r['viols'])
        return not r['viols']
    key = (data['curve'], tuple(data['tgrid']), 1, 1, '')
    r = pointwise_task(key)
    print(r['viols'])
    return not r['viols']
