"""C20 - the h-h/2 and the hierarchical estimator equal their definitions; Prolongate preserves values.

Universe (exhaustive, nothing sampled): the four closed curves (UnitSquare, PiSquare, LShape with the driver's
pre-refinement, Circle) x every leaf-set-distinct state of the bisection BFS graph (quick: depth 1, thorough: depth
2, and depth 3 on UnitSquare and Circle for the value clauses) plus the once uniformly refined initial meshes (up to
128 elements after quartering) x problems x densities.

Problems: Dirichlet (g = 1) and MildSingular (g = t^2) on every mesh; with initial data (InitialOperator.linform costs
8-55 ms per element, hence small meshes only): Singular on UnitSquare and LShape(driver), Smooth on UnitSquare and
PiSquare, and the synthetic combination Dirichlet+Singular on UnitSquare (both g and M0 - the estimator interface
allows it although the driver never does it).

Densities: "random densities" of the property text are replaced by a basis that determines the functions completely.
For fixed data the squared h-h/2 estimator is a quadratic polynomial q(Phi) = c + b.Phi + Phi^T Q Phi in the density
(Phi_fine does not depend on Phi, the extension is linear in Phi), and each hierarchical term is
|affine(Phi)|^2 / const, again a quadratic polynomial.  A quadratic polynomial in N variables is determined by its
values at 0, e_i, 2 e_i (= e_i + e_i) and e_i + e_j (i < j): c = q(0); q(e_i) and q(2 e_i) give b_i and Q_ii;
q(e_i + e_j) gives Q_ij + Q_ji.  So agreement (to tolerance) with the reference - which IS such a polynomial - on
{0, e_i, e_i + e_j (i <= j)} pins the whole function if the code computes any quadratic polynomial at all; the
Galerkin density of the coarse system is added because it is the density the driver really passes (strong
cancellation).  All pairs i <= j are used (on meshes with more than PAIR_ALL_MAX elements in the quick tier: the
covering set {(i,i), (i,i+1), (i,i+N/2)}).  One Gaussian density per mesh and problem, seeded from VERIF_SEED and the
mesh, is added as a supplement; it is reported separately and not counted in distinct_nontrivial.

Reference (mc/estim_ref.py; independent of the estimator modules): the history is replayed on a SECOND real mesh,
every leaf is bisected in time and both halves in space by the real refine_axis (ascending level order; verified
to give exactly the four quarters of every leaf), the fine matrix, the fine x coarse matrix and the load vector are
assembled with single bilform / linform calls by a second operator object, the g load vector from its own closed
formula; the extension is by geometric containment, the sign patterns by the position of a quarter relative to the
centre of its coarse element.

Clauses and tolerances
  hh2-value   |code - ref| <= 1e-9 * (energy norm of the fine Galerkin solution + energy norm of the extension)
  hier-value  max |code - ref| over the N x 2 indicators <= 1e-9 * S, S = largest un-cancelled term
              (sum over the 4 children of |<data,1_c>| + |<V Phi,1_c>|)^2 / <V psi,psi> over elements and patterns
              (the size of the numbers whose rounding enters an indicator; >= the largest indicator, > 0 for data != 0)
  nonneg      every returned number is finite and >= 0, shapes () and (N, 2)
  hh2-vanish  with the load vector g := A_fine_ref @ extension(Phi) (handed in as the g callable, looked up by the
              rectangle of each virtual child) the estimator is <= 1e-10 * energy norm of the extension, for Phi in
              {Galerkin density, all-ones, every e_i}
  quarters    DummyElement.uniform_refinement yields, per element, exactly its four quarters on the parent's piece
  prolongate  mesh.Prolongate(vec, coarse, fine) == geometric containment (exact), coarse = state, fine = the state
              itself, every successor, (thorough: every second successor), the 1x and 2x uniformly refined state;
              two list orders
  pool-bits   HH2 with use_mp=True gives the bits of use_mp=False; both estimators give the same bits under (a) an
              in-process serial stand-in for mp.Pool (all meshes), (b) the fork-faithful virtual pool of mc/vpool.py
              for cpu in {1,2,3,16} x schedules (all set partitions of the chunks when there are <= 5 chunks, else
              round-robin / everything-on-worker-0 / reversed round-robin), (c) the genuine fork pool (one mesh).

Speed: HierarchicalErrorEstimator always passes use_mp=True; with the genuine pool that forks 16 workers per call.
For the exhaustive value clauses the `mp` attribute of src.single_layer / src.initial_potential is replaced by a
serial in-process stand-in, and SL.bilform / M0.linform of the operator objects handed to the estimators are memoised
by the values they read (rectangles + piece); the first estimator call on each mesh runs with an empty memo and is
compared bitwise with a second, memoised call (determinism self-check of the memo)."""
import types
import zlib

import numpy as np

from mc import common, meshmc, estim_ref
from mc.common import pmap, HarnessError
from mc.meshmc import CFGS, build, rect_of, ops_of, find_leaf

try:
    from mc import vpool
    _CTL = vpool.install()
    _VPOOL_ERR = None
except Exception as _ex:  # pragma: no cover  (another agent's module; degrade to the stand-in only)
    vpool = None
    _CTL = None
    _VPOOL_ERR = repr(_ex)

import problems as _problems  # noqa: E402  (repo root; the driver's data)
import src.h_h2_error_estimator as _HH2mod  # noqa: E402
import src.hierarchical_error_estimator as _HIERmod  # noqa: E402
import src.initial_mesh as _IM  # noqa: E402
import src.initial_potential as _IPmod  # noqa: E402
import src.mesh as _MESHmod  # noqa: E402
import src.single_layer as _SLmod  # noqa: E402
from src.initial_potential import InitialOperator  # noqa: E402
from src.single_layer import SingleLayerOperator  # noqa: E402

for _m in (_HH2mod, _HIERmod, _IPmod, _SLmod, _problems):
    _m.print = lambda *a, **k: None  # timing chatter of the modules under test

TOL_VALUE = 1e-9
TOL_VANISH = 1e-10
PAIR_ALL_MAX = 16
MAXV = 4  # violations reported per task and clause
EXTRA_DEPTH = {'UnitSquare': 3, 'Circle': 3}  # thorough tier only

CURVES = ('UnitSquare', 'PiSquare', 'LShapeDriver', 'Circle')
DOMAIN = {'UnitSquare': 'UnitSquare', 'PiSquare': 'PiSquare', 'LShapeDriver': 'LShape', 'Circle': 'Circle',
          'UnitSquareT': 'UnitSquare', 'CircleT': 'Circle', 'UnitSquareX': 'UnitSquare',
          # custom closed curves: the Dirichlet / MildSingular data do not depend on the domain name
          'Stadium': 'Circle', 'BigCircle': 'Circle', 'ThinRect': 'UnitSquare'}
CUSTOM_GRIDS = ('UnitSquareT', 'CircleT', 'UnitSquareX', 'Stadium', 'BigCircle', 'ThinRect')  # non-uniform custom tensor grids (value clauses, data without initial condition)
INITIAL_MESH = {'UnitSquare': 'UnitSquareBoundaryRefined', 'PiSquare': 'PiSquareBoundaryRefined',
                'LShapeDriver': 'LShapeBoundaryRefined'}
# problem -> (g problem or None, M0 problem or None)
PROBLEMS = {'Dirichlet': ('Dirichlet', None), 'MildSingular': ('MildSingular', None), 'Singular': (None, 'Singular'),
            'Smooth': (None, 'Smooth'), 'Dirichlet+Singular': ('Dirichlet', 'Singular'),
            # a NON-constant Dirichlet datum (g = t^2) together with initial data: the two-level functions have zero mean, so a constant
            # datum is invisible to the hierarchical indicators
            'MildSingular+Singular': ('MildSingular', 'Singular')}
INITIAL_COMBOS = (('UnitSquare', 'Singular'), ('LShapeDriver', 'Singular'), ('UnitSquare', 'Smooth'),
                  ('PiSquare', 'Smooth'), ('UnitSquare', 'Dirichlet+Singular'), ('UnitSquare', 'MildSingular+Singular'))


# =====================================================================================================
# pool modes of the repo modules
class _SerialPool:
    """Minimal in-process stand-in for multiprocessing.Pool: map / imap run serially."""
    calls = 0

    def __init__(self, processes=None, *a, **k):
        self.processes = processes

    def map(self, func, iterable, chunksize=None):
        _SerialPool.calls += 1
        return [func(x) for x in iterable]

    def imap(self, func, iterable, chunksize=1):
        _SerialPool.calls += 1
        return iter([func(x) for x in iterable])

    def imap_unordered(self, func, iterable, chunksize=1):
        _SerialPool.calls += 1
        return iter([func(x) for x in iterable])

    def starmap(self, func, iterable, chunksize=None):
        _SerialPool.calls += 1
        return [func(*x) for x in iterable]

    def apply(self, func, args=(), kwds=None):
        _SerialPool.calls += 1
        return func(*args, **(kwds or {}))

    def close(self):
        pass

    def join(self):
        pass

    def terminate(self):
        pass

    def __enter__(self):
        return self

    def __exit__(self, *a):
        return False


_SERIAL_MP = types.SimpleNamespace(Pool=_SerialPool, cpu_count=lambda: 16)
_GENUINE_MP = types.SimpleNamespace(Pool=common.REAL_POOL, cpu_count=common.REAL_CPU_COUNT)


def set_mp(mode):
    if mode == 'serial':
        obj = _SERIAL_MP
    elif mode == 'genuine':
        obj = _GENUINE_MP
    elif mode == 'virtual':
        if vpool is None:
            raise HarnessError('virtual pool unavailable: ' + str(_VPOOL_ERR))
        obj = vpool.FAKE_MP
    else:
        raise HarnessError('unknown pool mode ' + mode)
    _SLmod.mp = obj
    _IPmod.mp = obj


set_mp('serial')


# =====================================================================================================
# operators, problems, densities
def _elem_key(e):
    return (id(e.gamma_space), e.time_interval, e.space_interval)


def memoise_bilform(SL):
    orig = SL.bilform
    cache = {}
    stats = {'hit': 0, 'miss': 0}

    def bilform(elem_trial, elem_test):
        k = (_elem_key(elem_trial), _elem_key(elem_test))
        try:
            v = cache[k]
            stats['hit'] += 1
            return v
        except KeyError:
            v = orig(elem_trial, elem_test)
            cache[k] = v
            stats['miss'] += 1
            return v

    SL.bilform = bilform
    return stats


def memoise_linform(M0):
    orig = M0.linform
    cache = {}

    def linform(elem_trial):
        k = _elem_key(elem_trial)
        if k not in cache:
            cache[k] = orig(elem_trial)
        return cache[k]

    M0.linform = linform


def make_ops(cfgname, mesh, problem, memo, SL=None):
    """(SL, M0 or None, g callable or None) built the way example.py builds them (no cache directory).
    An existing SL object may be passed in to be shared between problems on the same mesh."""
    gname, m0name = PROBLEMS[problem]
    if SL is None:
        SL = SingleLayerOperator(mesh, pw_exact=False, cache_dir=None)
        if memo:
            memoise_bilform(SL)
    M0 = None
    if m0name is not None:
        data = _problems.problem_helper(m0name, DOMAIN[cfgname])
        M0 = InitialOperator(bdr_mesh=mesh, u0=data['u0'], initial_mesh=getattr(_IM, INITIAL_MESH[cfgname]),
                             cache_dir=None, problem='{}_{}'.format(DOMAIN[cfgname], m0name))
        if memo:
            memoise_linform(M0)
    g = None
    if gname is not None:
        g = _problems.problem_helper(gname, DOMAIN[cfgname])['g-linform']
    return SL, M0, g


def galerkin_density(SL, M0, g, elems):
    """The driver's coarse solve (an input to the estimators, not a checked quantity)."""
    mat = SL.bilform_matrix(elems, elems, use_mp=True)
    rhs = np.zeros(len(elems))
    if M0:
        rhs = -M0.linform_vector(elems=elems, use_mp=True)
    if g:
        rhs = rhs + g(elems)
    return np.linalg.solve(mat, rhs)


def density_tags(N, all_pairs):
    tags = [('zero', )] + [('e', i) for i in range(N)]
    if all_pairs:
        tags += [('e+e', i, j) for i in range(N) for j in range(i, N)]
    else:
        seen = set()
        for i in range(N):
            for j in (i, (i + 1) % N, (i + N // 2) % N):
                p = (min(i, j), max(i, j))
                if p not in seen:
                    seen.add(p)
                    tags.append(('e+e', ) + p)
    tags.append(('galerkin', ))
    return tags


def density_vector(tag, N, gal):
    v = np.zeros(N)
    if tag[0] == 'e':
        v[tag[1]] = 1.0
    elif tag[0] == 'e+e':
        v[tag[1]] += 1.0
        v[tag[2]] += 1.0
    elif tag[0] == 'galerkin':
        v = np.array(gal, dtype=float)
    elif tag[0] == 'ones':
        v[:] = 1.0
    elif tag[0] == 'random':
        v = np.random.default_rng(int(tag[1])).standard_normal(N)
    return v


def replicate_mesh(cfgname, hist, uniform, reference):
    """A fresh real mesh for (history, number of uniform refinements).  The mesh handed to the code under test is
    refined by the repo's own uniform_refine (as the driver does); the reference copy by real bisections issued
    here (estim_ref.refine_to_quarters)."""
    m = build(CFGS[cfgname], hist)
    for _ in range(uniform):
        if reference:
            estim_ref.refine_to_quarters(m)
        else:
            m.uniform_refine()
    return m


def _bits(x):
    return np.asarray(x, dtype=float).tobytes()


def _fr(rect):
    return tuple(float(x) for x in rect)


def _hist_json(h):
    return [[[float(x) for x in r], int(ax)] for r, ax in h]


def _hist_from_json(h):
    return tuple((tuple(float(x) for x in r), int(ax)) for r, ax in h)


# =====================================================================================================
# value clauses for one mesh
class _NotAQuarter(Exception):
    pass


def mesh_task(item):
    """item = (cfgname, history, uniform, problems, all_pairs, only_density or None, VERIF_SEED)."""
    cfgname, hist, uniform, problem_list, all_pairs, only, seed = item
    set_mp('serial')
    out = {'N': 0, 'cmp_hh2': 0, 'cmp_hier': 0, 'vanish': 0, 'pool': 0, 'nonneg': 0, 'quarters': 0, 'memo_checks': 0,
           'nontrivial': 0, 'rel_hh2': 0.0, 'rel_hier': 0.0, 'rel_vanish': 0.0, 'ref_single_calls': 0, 'viols': [],
           'min_returned': float('inf'), 'densities': 0, 'detail': [], 'random': 0}
    nv = {}

    def viol(clause, problem, what, extra):
        nv[clause] = nv.get(clause, 0) + 1
        if nv[clause] > MAXV:
            return
        rp = {'kind': 'mesh', 'cfg': cfgname, 'history': _hist_json(hist), 'uniform': uniform, 'problem': problem}
        rp.update(extra)
        out['viols'].append(({'clause': clause, 'cfg': cfgname, 'problem': problem},
                             '{} on {} history={} uniform={} problem={}: {}'.format(clause, cfgname, _hist_json(hist), uniform, problem, what), rp))

    # ---- reference side: second real mesh, real quartering, single-pair assembly -------------------------------
    m2 = replicate_mesh(cfgname, hist, uniform, reference=True)
    SL2 = SingleLayerOperator(m2, pw_exact=False, cache_dir=None)
    ref = estim_ref.FineReference(m2, SL2)
    out['ref_single_calls'] += ref.n_single

    # ---- code side ----------------------------------------------------------------------------------------------
    m1 = replicate_mesh(cfgname, hist, uniform, reference=False)
    elems = list(m1.leaf_elements)
    N = len(elems)
    out['N'] = N
    if sorted(rect_of(e) for e in elems) != sorted(ref.crect):
        raise HarnessError('the two replays of {} {} give different leaf sets'.format(cfgname, hist))
    # position of each of the code's coarse elements in the reference numbering, by rectangle
    to_ref = np.array([ref.cidx[rect_of(e)] for e in elems])

    def ref_phi(Phi):
        v = np.zeros(N)
        v[to_ref] = Phi
        return v

    # quarters clause (structure of the virtual refinement)
    quarters_ok = True
    try:
        kids = _HIERmod.DummyElement.uniform_refinement(elems)
        for e, ch in zip(elems, kids):
            out['quarters'] += 1
            want = sorted(_fr(q) for q in estim_ref.quarter_rects(rect_of(e)).values())
            got = sorted(_fr(tuple(c.time_interval) + tuple(c.space_interval)) for c in ch)
            if got != want or any(c.gamma_space is not e.gamma_space for c in ch):
                quarters_ok = False
                viol('quarters', '-', 'virtual children of {} are {} (expected the quarters {})'.format(_fr(rect_of(e)), got, want), {})
        if len(kids) != N:
            quarters_ok = False
            viol('quarters', '-', 'uniform_refinement returned {} child lists for {} elements'.format(len(kids), N), {})
    except Exception as ex:
        quarters_ok = False
        viol('quarters', '-', 'DummyElement.uniform_refinement raised {!r}'.format(ex), {})

    SL1 = None
    for problem in problem_list:
        gname, m0name = PROBLEMS[problem]
        # operators for the code (memoised; one SL per mesh so that the memo is shared between problems)
        SL1, M01, g1 = make_ops(cfgname, m1, problem, memo=True, SL=SL1)
        M02 = None
        if m0name is not None:
            _, M02, _ = make_ops(cfgname, m2, problem, memo=False)
        data_f = ref.data(gname, M02)
        out['ref_single_calls'] += len(ref.fine) if M02 is not None else 0

        try:
            gal = galerkin_density(SL1, M01, g1, elems)
        except Exception as ex:
            viol('raised', problem, 'coarse Galerkin solve raised {!r}'.format(ex), {})
            continue

        hh2_est = _HH2mod.HH2ErrorEstimator(SL1, M01, g1, use_mp=False)
        hh2_pool = _HH2mod.HH2ErrorEstimator(SL1, M01, g1, use_mp=True)
        hier_est = _HIERmod.HierarchicalErrorEstimator(SL1, M01, g1)

        def call(kind, Phi):
            """returns (value or None, error string)"""
            try:
                if kind == 'hh2':
                    return hh2_est.estimate(elems, Phi), None
                if kind == 'hh2-pool':
                    return hh2_pool.estimate(elems, Phi), None
                return hier_est.estimate(elems, Phi), None
            except Exception as ex:
                return None, repr(ex)

        tags = density_tags(N, all_pairs or N <= PAIR_ALL_MAX)
        # the Galerkin density goes first: its first call fills the memo, its second call is answered from it
        tags = [tags[-1]] + tags[:-1]
        # supplement (not part of the exhaustive claim): one seeded Gaussian density per mesh and problem
        tags.append(('random', zlib.crc32(repr((cfgname, _hist_json(hist), uniform, problem)).encode()) ^ (int(seed) & 0xffffffff)))
        if only is not None:
            tags = [] if only[0] == 'vanish' else [tuple(only)]
        first = True
        for tag in tags:
            Phi = density_vector(tag, N, gal)
            out['densities'] += 1
            out['random'] += tag[0] == 'random'
            dj = {'density': list(tag)}
            # ---------- h-h/2
            val, err = call('hh2', Phi)
            if first:
                val_b, err_b = call('hh2', Phi)
                out['memo_checks'] += 1
                if err is None and err_b is None and _bits(val) != _bits(val_b):
                    raise HarnessError('memoised and direct h-h/2 calls differ in bits ({} vs {}): bilform is not a '
                                       'function of the values it reads'.format(val, val_b))
            r_est, r_scale, r_en = ref.hh2(data_f, ref_phi(Phi))
            if err is not None:
                viol('raised', problem, 'HH2ErrorEstimator.estimate raised {} for density {}'.format(err, tag), dj)
            else:
                out['cmp_hh2'] += 1
                out['nonneg'] += 1
                ok_shape = np.ndim(val) == 0
                if not ok_shape or not np.isfinite(val) or not val >= 0:
                    viol('nonneg', problem, 'h-h/2 estimator returned {!r} for density {}'.format(val, tag), dj)
                if ok_shape and np.isfinite(val):
                    out['min_returned'] = min(out['min_returned'], float(val))
                    rel = abs(float(val) - r_est) / r_scale
                    out['rel_hh2'] = max(out['rel_hh2'], rel)
                    if rel > TOL_VALUE:
                        viol('hh2-value', problem, 'density {}: code {:.15e}, definition {:.15e}, |diff|/scale = {:.3e} '
                             '(scale = energy norms {:.6e})'.format(tag, float(val), r_est, rel, r_scale), dj)
                    if r_est > 1e-6 * r_scale and tag[0] != 'random':
                        out['nontrivial'] += 1
            # ---------- the same density handed over as an (N, 1) COLUMN (what np.linalg.solve returns for a column right-hand side):
            # the h-h/2 value is a number and must be the same number
            if first and err is None:
                val_c, err_c = call('hh2', np.asarray(Phi, dtype=float).reshape(-1, 1))
                out['cmp_hh2'] += 1
                try:
                    vc = float(np.ravel(val_c)[0]) if err_c is None and np.size(val_c) == 1 else float('nan')
                except Exception:  # noqa: BLE001
                    vc = float('nan')
                if err_c is not None or not abs(vc - r_est) / r_scale <= TOL_VALUE:
                    viol('hh2-value', problem, 'density {} given as an (N, 1) column: code {!r}{}, definition {:.15e}'.format(
                        tag, val_c, '' if err_c is None else ' raised ' + err_c, r_est), dict(dj, column=True))
            # ---------- the element list in ANOTHER order (reversed; the density permuted with it): same number, same rows
            if first and err is None:
                try:
                    el_r, Phi_r = list(elems)[::-1], np.asarray(Phi, dtype=float)[::-1].copy()
                    v_r = hh2_est.estimate(el_r, Phi_r)
                    h_r = np.asarray(hier_est.estimate(el_r, Phi_r))
                    out['cmp_hh2'] += 1
                    out['cmp_hier'] += 1
                    r_ind_nat = ref.hier(data_f, ref_phi(Phi))
                    bad_r = None
                    if not abs(float(v_r) - r_est) / r_scale <= TOL_VALUE:
                        bad_r = 'h-h/2 {!r} instead of {:.15e}'.format(v_r, r_est)
                    elif h_r.shape != (N, 2) or not float(np.abs(h_r[::-1] - r_ind_nat[0][to_ref]).max()) / r_ind_nat[2] <= TOL_VALUE:
                        bad_r = 'hierarchical indicators are not the rows of the elements as listed'
                except Exception as ex:  # noqa: BLE001
                    bad_r = 'raised {!r}'.format(ex)
                if bad_r:
                    viol('list-order', problem, 'density {} with the element list reversed: {}'.format(tag, bad_r), dict(dj, reversed=True))
            # ---------- hierarchical
            val, err = call('hier', Phi)
            if first:
                val_b, err_b = call('hier', Phi)
                out['memo_checks'] += 1
                if err is None and err_b is None and _bits(val) != _bits(val_b):
                    raise HarnessError('memoised and direct hierarchical calls differ in bits')
            r_ind, r_terms, r_mag = ref.hier(data_f, ref_phi(Phi))
            r_ind = r_ind[to_ref]  # rows in the code's element order
            if err is not None:
                viol('raised', problem, 'HierarchicalErrorEstimator.estimate raised {} for density {}'.format(err, tag), dj)
            else:
                out['cmp_hier'] += 1
                out['nonneg'] += 1
                val = np.asarray(val)
                if val.shape != (N, 2) or not np.all(np.isfinite(val)) or not np.all(val >= 0):
                    viol('nonneg', problem, 'hierarchical indicators for density {}: shape {} min {}'.format(
                        tag, val.shape, np.min(val) if val.size else None), dj)
                if val.shape == (N, 2) and np.all(np.isfinite(val)):
                    out['min_returned'] = min(out['min_returned'], float(val.min()))
                    dev = np.abs(val - r_ind)
                    rel = float(dev.max()) / r_mag
                    out['rel_hier'] = max(out['rel_hier'], rel)
                    if rel > TOL_VALUE:
                        i, c = np.unravel_index(int(np.argmax(dev)), dev.shape)
                        viol('hier-value', problem, 'density {}: element {} {} indicator: code {:.15e}, definition {:.15e}; '
                             'max |diff|/S = {:.3e} (S = {:.6e}, largest reference indicator {:.6e})'.format(
                                 tag, _fr(rect_of(elems[i])), ('time', 'space')[c], val[i, c], r_ind[i, c], rel, r_mag, r_ind.max()), dj)
                    if r_ind.max() > 1e-6 * r_mag and tag[0] != 'random':
                        out['nontrivial'] += 1
            # ---------- pool path of HH2 (stand-in pool), on the first density only: the path does not depend on Phi
            if first:
                a, ea = call('hh2', Phi)
                b, eb = call('hh2-pool', Phi)
                out['pool'] += 1
                if (ea is None) != (eb is None) or (ea is None and _bits(a) != _bits(b)):
                    viol('pool-bits', problem, 'HH2 use_mp=False gives {!r}/{}, use_mp=True (serial stand-in pool) {!r}/{}'.format(a, ea, b, eb), dj)
                if only is not None or len(out['detail']) < 2:
                    out['detail'].append({'problem': problem, 'density': list(tag), 'hh2_ref': r_est, 'hh2_scale': r_scale,
                                          'hier_ref_max': float(r_ind.max()), 'hier_S': r_mag})
            first = False

        # ---------- vanish clause (data chosen such that the extension of Phi solves the fine system) ----------
        if (problem == 'Dirichlet' and quarters_ok and only is None) or (only is not None and only[0] == 'vanish'):
            vt = [('galerkin', ), ('ones', )] + [('e', i) for i in range(N)]
            if only is not None:
                vt = [tuple(only[1])]
            for tag in vt:
                Phi = density_vector(tag, N, gal)
                ext = ref.extension(ref_phi(Phi))
                load = ref.A @ ext

                def g_custom(fine_elems, load=load):
                    v = np.zeros(len(fine_elems))
                    for k, e in enumerate(fine_elems):
                        r = tuple(e.time_interval) + tuple(e.space_interval)
                        if r not in ref.fidx:
                            raise _NotAQuarter(r)
                        v[k] = load[ref.fidx[r]]
                    return v

                en = float(np.sqrt(ext @ ref.A @ ext))
                dj = {'density': ['vanish', list(tag)]}
                try:
                    val = _HH2mod.HH2ErrorEstimator(SL1, None, g_custom, use_mp=False).estimate(elems, Phi)
                except _NotAQuarter as ex:
                    viol('quarters', problem, 'g was called with a virtual child {} that is no quarter of a leaf'.format(ex), dj)
                    continue
                except Exception as ex:
                    viol('raised', problem, 'HH2 (vanish data) raised {!r} for density {}'.format(ex, tag), dj)
                    continue
                out['vanish'] += 1
                rel = float(val) / en if np.isfinite(val) else float('inf')
                out['rel_vanish'] = max(out['rel_vanish'], rel)
                if not rel <= TOL_VANISH:
                    viol('hh2-vanish', problem, 'density {}: extension solves the fine system, estimator {:.6e} = {:.3e} x energy '
                         'norm {:.6e}'.format(tag, float(val), rel, en), dj)
    return out


# =====================================================================================================
# Prolongate
def _vec(n):
    return np.array([0.1 * (i + 1) + 1.0 / (i + 3) for i in range(n)])


def prol_task(item):
    cfgname, hist, two_step = item
    cfg = CFGS[cfgname]
    out = {'pairs': 0, 'calls': 0, 'nonidentity': 0, 'viols': [], 'max_fine': 0}
    base = build(cfg, hist)
    ops = ops_of(base)
    targets = [('same', )] + [('ops', (op, )) for op in ops] + [('uniform', 1), ('uniform', 2), ('refine-all', )]
    if two_step:
        for op in ops:
            m = build(cfg, hist + (op, ))
            targets += [('ops', (op, op2)) for op2 in ops_of(m)]
    for tgt in targets:
        m = build(cfg, hist)
        coarse = list(m.leaf_elements)
        try:
            if tgt[0] == 'ops':
                for r, ax in tgt[1]:
                    m.refine_axis(find_leaf(m, r), ax)
            elif tgt[0] == 'uniform':
                for _ in range(tgt[1]):
                    m.uniform_refine()
            elif tgt[0] == 'refine-all':
                for e in coarse:
                    if not e.children:
                        m.refine(e)
        except Exception as ex:
            raise HarnessError('refinement {} of {} {} raised {!r}'.format(tgt, cfgname, hist, ex))
        fine = list(m.leaf_elements)
        out['pairs'] += 1
        out['max_fine'] = max(out['max_fine'], len(fine))
        if len(fine) != len(coarse):
            out['nonidentity'] += 1
        for order in ('natural', 'reversed', 'coarse-natural-fine-reversed', 'natural-after-further-refinement'):
            if order == 'natural-after-further-refinement':
                # the two stored element lists stay nested meshes when the mesh object is refined further
                try:
                    m.uniform_refine()
                except Exception as ex:
                    raise HarnessError('further refinement of {} {} raised {!r}'.format(cfgname, hist, ex))
            cl = coarse if order != 'reversed' else coarse[::-1]
            fl = fine if order not in ('reversed', 'coarse-natural-fine-reversed') else fine[::-1]
            vec = _vec(len(cl))
            want = estim_ref.prolongate_ref(vec, [rect_of(e) for e in cl], [rect_of(e) for e in fl])
            if any(w is None for w in want):
                raise HarnessError('containment not unique for {} {} {}'.format(cfgname, hist, tgt))
            out['calls'] += 1
            bad = None
            try:
                got = _MESHmod.Prolongate(vec, cl, fl)
                got = np.asarray(got)
                if got.shape != (len(fl), ):
                    bad = 'shape {}'.format(got.shape)
                else:
                    idx = [j for j in range(len(fl)) if not got[j] == want[j]]
                    if idx:
                        j = idx[0]
                        bad = '{} of {} entries differ, e.g. fine element {}: got {!r}, containment gives {!r}'.format(
                            len(idx), len(fl), _fr(rect_of(fl[j])), float(got[j]), float(want[j]))
            except Exception as ex:
                bad = 'raised {!r}'.format(ex)
            if bad and len(out['viols']) < MAXV:
                out['viols'].append(({'clause': 'prolongate', 'cfg': cfgname},
                                     'Prolongate on {} history={} target={} order={}: {}'.format(cfgname, _hist_json(hist), (tgt[0], _hist_json(tgt[1])) if tgt[0] == 'ops' else tgt, order, bad),
                                     {'kind': 'prolongate', 'cfg': cfgname, 'history': _hist_json(hist), 'two_step': two_step}))
    return out


# =====================================================================================================
# pool schedules (virtual pool) and the genuine pool
def _schedules(nchunks, cpu):
    """Chunk -> worker assignments for a pool call with `nchunks` chunks on `cpu` workers."""
    if nchunks <= 5:
        return [('partition', p) for p in vpool.set_partitions(nchunks, min(cpu, nchunks))]
    fam = [('round-robin', None), ('all-on-0', 'zero')]
    if cpu > 1:
        fam.append(('reversed-round-robin', 'rev'))
    return fam


def _assign_fn(spec):
    kind, p = spec
    if kind == 'partition':
        return lambda k, n: p[k] if k < len(p) else k % n
    if p is None:
        return None
    if p == 'zero':
        return lambda k, n: 0
    return lambda k, n: n - 1 - (k % n)


def _estimates(cfgname, hist, problem, use_pool):
    """Fresh objects, no memo: (hh2 use_mp=use_pool, hierarchical) with the Galerkin density."""
    m = build(CFGS[cfgname], hist)
    elems = list(m.leaf_elements)
    SL, M0, g = make_ops(cfgname, m, problem, memo=False)
    mat = np.array([[SL.bilform(tr, te) for tr in elems] for te in elems])
    rhs = np.zeros(len(elems))
    if M0:
        rhs -= np.array([M0.linform(e)[0] for e in elems])
    if g:
        rhs += g(elems)
    Phi = np.linalg.solve(mat, rhs)
    a = _HH2mod.HH2ErrorEstimator(SL, M0, g, use_mp=use_pool).estimate(elems, Phi)
    b = _HIERmod.HierarchicalErrorEstimator(SL, M0, g).estimate(elems, Phi)
    return a, b, len(elems)


def pool_task(item):
    cfgname, hist, problem, cpus = item
    out = {'schedules': 0, 'pools': 0, 'pool_calls': 0, 'uncontrolled': 0, 'viols': [], 'N': 0}
    set_mp('serial')
    try:
        a0, b0, N = _estimates(cfgname, hist, problem, use_pool=False)
    except HarnessError:
        raise
    except Exception as ex:  # the estimators fail on the serial path already: nothing to compare the pool path with
        out['viols'].append(({'clause': 'raised', 'cfg': cfgname, 'problem': problem},
                             'serial-path estimators raised {!r} on {} history={} problem={} (Galerkin density)'.format(
                                 ex, cfgname, _hist_json(hist), problem),
                             {'kind': 'pool', 'cfg': cfgname, 'history': _hist_json(hist), 'problem': problem, 'cpus': list(cpus)}))
        return out
    out['N'] = N
    # number of chunks of the hierarchical estimator's matrix call (trial = coarse): chunksize N // (16 cpu) + 1 = 1
    for cpu in cpus:
        nchunks = -(-N // (N // (16 * cpu) + 1)) if 4 * N * N >= 100 else 99
        for spec in _schedules(nchunks, cpu):
            set_mp('virtual')
            _CTL.configure(cpu, _assign_fn(spec))
            u0 = _CTL.uncontrolled
            try:
                with _CTL.window():
                    a, b, _ = _estimates(cfgname, hist, problem, use_pool=True)
                    log = list(_CTL.log)
                err = None
            except HarnessError:
                raise
            except Exception as ex:
                err = repr(ex)
                log = []
            finally:
                set_mp('serial')
            out['schedules'] += 1
            out['pools'] += len(log)
            out['pool_calls'] += sum(len(p['calls']) for p in log)
            out['uncontrolled'] += _CTL.uncontrolled - u0
            bad = None
            if err is not None:
                bad = 'raised {}'.format(err)
            elif _bits(a) != _bits(a0) or _bits(b) != _bits(b0):
                bad = 'bits differ from the serial path: hh2 {!r} vs {!r}; hierarchical max |diff| {!r}'.format(
                    a, a0, float(np.max(np.abs(np.asarray(b) - np.asarray(b0)))) if np.shape(b) == np.shape(b0) else 'shape')
            if bad and len(out['viols']) < MAXV:
                out['viols'].append(({'clause': 'pool-bits', 'cfg': cfgname, 'problem': problem},
                                     'virtual pool cpu={} schedule={} on {} history={} problem={}: {}'.format(cpu, spec, cfgname, _hist_json(hist), problem, bad),
                                     {'kind': 'pool', 'cfg': cfgname, 'history': _hist_json(hist), 'problem': problem, 'cpus': [cpu]}))
    return out


def genuine_pool_case(cfgname, hist, problem):
    """Main process only (a daemonic harness worker may not start a genuine pool)."""
    set_mp('serial')
    a0, b0, N = _estimates(cfgname, hist, problem, use_pool=False)
    set_mp('genuine')
    made = [0]
    orig_pool = _GENUINE_MP.Pool

    def counting_pool(*a, **k):
        made[0] += 1
        return orig_pool(*a, **k)

    _GENUINE_MP.Pool = counting_pool
    try:
        a, b, _ = _estimates(cfgname, hist, problem, use_pool=True)
    finally:
        _GENUINE_MP.Pool = orig_pool
        set_mp('serial')
    ok = _bits(a) == _bits(a0) and _bits(b) == _bits(b0)
    return ok, N, (a, a0), made[0]


# =====================================================================================================
def cross_curve_task(item):
    a, b, seed = item
    mesh_task((a, (), 0, ['Dirichlet'], False, None, seed))
    return mesh_task((b, (), 0, ['Dirichlet', 'MildSingular'], False, None, seed))


def _plan(ctx):
    quick = ctx.tier == 'quick'
    depth = 1 if quick else 2
    per = {}
    mesh_items = []
    prol_items = []
    states = {}
    for c in CURVES:
        hs = meshmc.all_states(ctx, c, depth, key='leaf')
        states[c] = hs
        per[c] = {'depth': depth, 'leaf_set_distinct_states': len(hs)}
        for h in hs:
            mesh_items.append((c, h, 0, ['Dirichlet', 'MildSingular'], True, None, ctx.seed))
            prol_items.append((c, h, not quick))
        # the once uniformly refined initial mesh (16 / 16 / 32 / 16 elements -> 64..128 after quartering)
        mesh_items.append((c, (), 1, ['Dirichlet', 'MildSingular'], not quick, None, ctx.seed))
    # custom non-uniform tensor grids: equal levels do not mean equal sizes there
    for c in CUSTOM_GRIDS:
        hs = meshmc.all_states(ctx, c, 0 if quick else 1, key='leaf')
        per[c] = {'depth': 0 if quick else 1, 'leaf_set_distinct_states': len(hs)}
        for h in hs:
            mesh_items.append((c, h, 0, ['Dirichlet', 'MildSingular'], True, None, ctx.seed))
            prol_items.append((c, h, not quick))
    # thorough: one more BFS level on two curves (value clauses only)
    if not quick:
        for c, d in EXTRA_DEPTH.items():
            hs = [h for h in meshmc.all_states(ctx, c, d, key='leaf') if len(h) > depth]
            per[c]['extra_depth'] = d
            per[c]['extra_states'] = len(hs)
            for h in hs:
                mesh_items.append((c, h, 0, ['Dirichlet', 'MildSingular'], True, None, ctx.seed))
    # initial data: the initial mesh of each combination (quick), plus every depth-1 state (thorough)
    init_items = []
    for c, p in INITIAL_COMBOS:
        hs1 = [h for h in states[c] if len(h) <= (0 if quick else 1)]
        if quick and p in ('Singular', ) and c == 'UnitSquare':
            hs1 = [h for h in states[c] if len(h) <= 1][:3]  # the initial mesh and its first two successors
        for h in hs1:
            init_items.append((c, h, 0, [p], True, None, ctx.seed))
    # pool schedules
    pool_items = []
    if vpool is not None:
        cpus = [1, 2, 3, 16]
        for c in CURVES:
            hs1 = [h for h in states[c] if len(h) <= 1]
            if quick:
                hs1 = hs1[:3] if c == 'UnitSquare' else hs1[:1]
            for h in hs1:
                for cpu in cpus:
                    pool_items.append((c, h, 'Dirichlet', [cpu]))
        pool_items.append(('UnitSquare', (), 'Singular', [1, 16]))
        pool_items.append(('UnitSquare', states['UnitSquare'][1], 'Dirichlet+Singular', [2] if quick else [2, 3]))
    return per, states, mesh_items, init_items, prol_items, pool_items


def run(ctx):
    per, states, mesh_items, init_items, prol_items, pool_items = _plan(ctx)
    if vpool is None:
        ctx.note('mc/vpool.py not usable ({}); schedule clause restricted to the serial stand-in and the genuine pool'.format(_VPOOL_ERR))
    # expensive items first
    items = init_items + mesh_items
    items.sort(key=lambda it: -(len(it[1]) + 100 * it[2] + (50 if PROBLEMS[it[3][0]][1] else 0)))
    res = pmap(mesh_task, items, ctx.jobs, chunksize=1)
    agg = {k: 0 for k in ('cmp_hh2', 'cmp_hier', 'vanish', 'pool', 'nonneg', 'quarters', 'memo_checks', 'nontrivial',
                          'ref_single_calls', 'densities', 'random')}
    worst = {'rel_hh2': 0.0, 'rel_hier': 0.0, 'rel_vanish': 0.0}
    per_problem = {}
    maxN = 0
    min_ret = float('inf')
    samples = []
    sample_keys = set()
    for it, r in zip(items, res):
        for k in agg:
            agg[k] += r[k]
        for k in worst:
            worst[k] = max(worst[k], r[k])
        maxN = max(maxN, r['N'])
        min_ret = min(min_ret, r['min_returned'])
        for p in it[3]:
            d = per_problem.setdefault(p, {'meshes': 0, 'largest_N': 0})
            d['meshes'] += 1
            d['largest_N'] = max(d['largest_N'], r['N'])
        for key, what, rp in r['viols']:
            ctx.violation(key, what, rp)
        if r['detail'] and (it[0], it[3][0], min(len(it[1]), 1)) not in sample_keys and len(samples) < 8:
            sample_keys.add((it[0], it[3][0], min(len(it[1]), 1)))
            samples.append({'cfg': it[0], 'history': _hist_json(it[1]), 'uniform': it[2], 'N': r['N'], 'case': r['detail'][0]})
    ctx.note('values: {} meshes x problems; {} h-h/2 and {} hierarchical comparisons; worst |diff|/scale h-h/2 {:.2e}, '
             'hierarchical {:.2e}; vanish clause {} cases, worst {:.2e}'.format(
                 sum(len(it[3]) for it in items), agg['cmp_hh2'], agg['cmp_hier'], worst['rel_hh2'], worst['rel_hier'],
                 agg['vanish'], worst['rel_vanish']))

    # Prolongate
    pres = pmap(prol_task, prol_items, ctx.jobs)
    n_pairs = sum(r['pairs'] for r in pres)
    n_pcalls = sum(r['calls'] for r in pres)
    n_nonid = sum(r['nonidentity'] for r in pres)
    for r in pres:
        for key, what, rp in r['viols']:
            ctx.violation(key, what, rp)
    ctx.note('Prolongate: {} nested mesh pairs ({} with a genuinely finer mesh), {} calls, largest fine mesh {}'.format(
        n_pairs, n_nonid, n_pcalls, max(r['max_fine'] for r in pres)))

    # cross-curve call histories in fresh processes: both estimators serve curve A (initial mesh), then curve B in the same process;
    # B's values are judged against the reference (pairs of curves whose meshes contain identical parameter rectangles)
    hist_pairs = [('UnitSquare', 'LShapeDriver'), ('LShapeDriver', 'UnitSquare'), ('PiSquare', 'Circle'), ('Circle', 'PiSquare'),
                  ('UnitSquare', 'UnitSquareT'), ('UnitSquareX', 'UnitSquare')]
    hres = common.pmap_fresh(cross_curve_task, [(a, b, ctx.seed) for a, b in hist_pairs], ctx.jobs)
    n_hist = 0
    for (a, b), r in zip(hist_pairs, hres):
        n_hist += r['cmp_hh2'] + r['cmp_hier']
        for key, what, rp in r['viols']:
            ctx.violation(dict(key, clause='history:' + key.get('clause', ''), after=a), '{} [in a process whose estimators served {} before]'.format(what, a), dict(rp, after=a))
    ctx.note('cross-curve histories in fresh processes: {} ordered pairs, {} value comparisons on the second curve'.format(len(hist_pairs), n_hist))

    # pool schedules
    sched = {'schedules': 0, 'pools': 0, 'pool_calls': 0, 'uncontrolled': 0}
    if pool_items:
        qres = pmap(pool_task, pool_items, ctx.jobs, chunksize=1)
        for r in qres:
            for k in sched:
                sched[k] += r[k]
            for key, what, rp in r['viols']:
                ctx.violation(key, what, rp)
        if sched['pools'] == 0 and ctx.n_viol == 0 and ctx.n_known == 0:
            raise HarnessError('virtual pool clause created no pool')
    # genuine pool, one configuration per problem kind
    genuine = []
    for c, h, p in (('UnitSquare', states['UnitSquare'][1], 'Dirichlet'), ('UnitSquare', states['UnitSquare'][1], 'Singular')):
        try:
            ok, N, vals, made = genuine_pool_case(c, h, p)
        except HarnessError:
            raise
        except Exception as ex:
            ok, N, vals, made = False, 0, 'raised {!r}'.format(ex), 0
        genuine.append({'cfg': c, 'history': _hist_json(h), 'problem': p, 'N': N, 'bits_equal': ok, 'pools_created': made})
        if not ok:
            ctx.violation({'clause': 'pool-bits', 'cfg': c, 'problem': p},
                          'genuine fork pool on {} history={} problem={}: estimators differ from the serial path: {}'.format(c, _hist_json(h), p, vals),
                          {'kind': 'genuine', 'cfg': c, 'history': _hist_json(h), 'problem': p})
    ctx.note('pool: {} stand-in comparisons, {} virtual-pool schedules ({} pools, {} pool calls, {} uncontrolled), genuine pool cases {}'.format(
        agg['pool'], sched['schedules'], sched['pools'], sched['pool_calls'], sched['uncontrolled'], len(genuine)))

    if ctx.n_viol == 0 and ctx.n_known == 0 and (agg['cmp_hh2'] < 50 or agg['cmp_hier'] < 50 or agg['vanish'] < 5 or n_nonid < 5
                                                 or agg['nontrivial'] < 50 or any(not g.get('pools_created') for g in genuine)):
        raise HarnessError('vacuous C20 run')
    evaluations = n_hist + agg['cmp_hh2'] + agg['cmp_hier'] + agg['vanish'] + agg['pool'] + agg['quarters'] + n_pcalls + sched['schedules'] + len(genuine)
    cov = {
        'evaluations': evaluations,
        'distinct_nontrivial': agg['nontrivial'] + n_nonid,
        'rule': 'one value case = (leaf-set-distinct mesh or uniformly refined initial mesh, problem, density in {0, e_i, e_i+e_j '
                '(i<=j), Galerkin}, estimator); distinct by construction (BFS states are leaf-set distinct, densities distinct); '
                'non-trivial = the reference value exceeds 1e-6 of its scale (the definition does not vanish); plus Prolongate '
                'pairs whose fine mesh is strictly finer than the coarse one',
        'exhaustive': True,
        'per_graph': per,
        'per_problem': per_problem,
        'largest_coarse_mesh': maxN,
        'largest_fine_mesh': 4 * maxN,
        'densities': agg['densities'],
        'of_which_supplementary_seeded_random_densities': agg['random'],
        'hh2_comparisons': agg['cmp_hh2'],
        'cross_curve_history_comparisons_in_fresh_processes': n_hist,
        'hier_comparisons': agg['cmp_hier'],
        'nonneg_checks': agg['nonneg'],
        'smallest_returned_value': min_ret,
        'vanish_cases': agg['vanish'],
        'quarter_checks': agg['quarters'],
        'memo_bitwise_selfchecks': agg['memo_checks'],
        'reference_single_pair_calls': agg['ref_single_calls'],
        'worst_rel_dev_hh2': worst['rel_hh2'],
        'worst_rel_dev_hier': worst['rel_hier'],
        'worst_vanish_ratio': worst['rel_vanish'],
        'tolerances': {'value': TOL_VALUE, 'vanish': TOL_VANISH},
        'prolongate_pairs': n_pairs,
        'prolongate_pairs_strictly_finer': n_nonid,
        'prolongate_calls': n_pcalls,
        'pool_standin_comparisons': agg['pool'],
        'virtual_pool': sched,
        'genuine_pool_cases': genuine,
        'samples': samples + [{'kind': 'prolongate', 'cfg': prol_items[-1][0], 'history': _hist_json(prol_items[-1][1]),
                               'fine': 'every successor, uniform x1, x2, refine-all'}]
        + [{'kind': 'pool-schedules', 'cfg': it[0], 'history': _hist_json(it[1]), 'problem': it[2], 'cpu': it[3]} for it in pool_items[-2:]],
    }
    assumptions = [
        'meshes bounded by BFS depth {} on the four closed curves plus the once uniformly refined initial meshes; problems with '
        'initial data only on the initial meshes (quick) / states of depth <= 1 (thorough)'.format(per[CURVES[0]]['depth']),
        'for the exhaustive value clauses the mp attribute of src.single_layer and src.initial_potential is an in-process serial '
        'stand-in (HierarchicalErrorEstimator always asks for a pool), and SL.bilform / M0.linform of the operator objects handed '
        'to the estimators are memoised by (piece, time interval, space interval); the first, memo-free call on every mesh is '
        'compared bitwise with a memoised one; fork-faithful virtual-pool schedules and the genuine pool are run on a subset '
        '(initial meshes and depth-1 states) without memo',
        'the reference uses the same kernel evaluations (single bilform / linform calls): the clause is about the estimators\' '
        'algebra, ordering and signs, not about quadrature accuracy (C01/C08)',
        'random densities are replaced by the basis {0, e_i, e_i+e_j, Galerkin} which determines a quadratic polynomial completely',
        'exhaustive enumeration of pool schedules of bilform_matrix / linform_vector themselves is C17\'s subject; here all set '
        'partitions only when a call has <= 5 chunks, otherwise three schedules per cpu count',
    ]
    return ctx.finish('exploration', cov, assumptions)


def replay(ctx, data):
    kind = data.get('kind', 'mesh')
    hist = _hist_from_json(data.get('history', []))
    if kind == 'mesh':
        only = data.get('density')
        if data.get('after'):  # cross-curve history: serve the first curve in this process, then the case itself
            mesh_task((data['after'], (), 0, ['Dirichlet'], False, None, ctx.seed))
        r = mesh_task((data['cfg'], hist, int(data.get('uniform', 0)), [data['problem']] if data['problem'] in PROBLEMS else ['Dirichlet'],
                       True, only, ctx.seed))
        for d in r['detail']:
            print('reference:', d)
        print('worst |diff|/scale: h-h/2 {:.3e}, hierarchical {:.3e}, vanish {:.3e}'.format(r['rel_hh2'], r['rel_hier'], r['rel_vanish']))
    elif kind == 'prolongate':
        r = prol_task((data['cfg'], hist, bool(data.get('two_step', False))))
    elif kind == 'pool':
        r = pool_task((data['cfg'], hist, data['problem'], data.get('cpus', [1, 2, 3, 16])))
    elif kind == 'genuine':
        ok, N, vals, made = genuine_pool_case(data['cfg'], hist, data['problem'])
        print('genuine pool vs serial:', vals)
        return ok
    else:
        raise HarnessError('unknown replay kind')
    for key, what, rp in r['viols']:
        print(' ', what)
    return not r['viols']
