"""C19 - grading post-processing terminates with every leaf in the parabolic window.

refine_grading(sigma, K=4) for sigma in {1, 1.5, 2} is executed from EVERY fingerprint-distinct state of the BFS
graphs rooted at the shipped curves (default and two-slab time grids, the driver's pre-refined L-shape), and from
every state of shallow graphs rooted at directed deep histories.  Oracle: returns under a refinement horizon
without exception; only refines; every leaf satisfies h_t/K < h_x^sigma < K h_t (exact rational comparison);
all C02/C10 invariants hold afterwards."""
from fractions import Fraction

from mc import common, meshmc
from mc.meshcheck import check_neighbours, check_tiling
from mc.meshmc import CFGS, Horizon, build, build_ref, horizon, leaf6, leafset
from mc.refmesh import ref_from_leaves

SIGMAS = (1, 1.5, 2)
K = 4
QUICK = {'UnitInterval': 4, 'Circle': 3, 'UnitSquare': 3, 'PiSquare': 3, 'LShape': 4, 'LShapeDriver': 2,
         'Circle2': 2, 'UnitSquare2': 2, 'LShape2': 2}
THOROUGH = {'UnitInterval': 6, 'Circle': 4, 'UnitSquare': 4, 'PiSquare': 4, 'LShape': 4, 'LShapeDriver': 3,
            'Circle2': 3, 'UnitSquare2': 3, 'LShape2': 3}
HLIMIT = 150000


def in_window(e, sigma):
    ht = Fraction(e[1]) - Fraction(e[0])
    hx = Fraction(e[3]) - Fraction(e[2])
    if sigma == 1:
        return ht / K < hx < K * ht
    if sigma == 2:
        return ht / K < hx * hx < K * ht
    assert sigma == 1.5  # compare squares: (h_t/K)^2 < h_x^3 < (K h_t)^2
    return (ht / K)**2 < hx**3 < (K * ht)**2


def contains(big, small):
    return big[0] <= small[0] and small[1] <= big[1] and big[2] <= small[2] and small[3] <= big[3]


def bisection_bound(before, sigma):
    """Rigorous upper bound on the number of leaves (hence bisections) of any terminating run.

    A leaf is time-marked only if h_t >= K h_x^sigma and space-marked only if h_x^sigma >= K h_t, and the conformity
    closure never creates an element smaller (per axis) than one that exists.  Hence the smallest final sizes obey
    ht_f >= min(ht_min, K hx_f^sigma / 2) and hx_f >= min(hx_min, (K ht_f)^(1/sigma) / 2); both second alternatives
    together would give 1 = K^2 / 2^(sigma+1) >= 2, impossible for sigma <= 2, K = 4.  So ht_f >= ht* and hx_f >= hx*
    below, and the final mesh has at most area / (ht* hx*) leaves."""
    ht_min = min(e[1] - e[0] for e in before)
    hx_min = min(e[3] - e[2] for e in before)
    ht_s = min(ht_min, K * hx_min**sigma / 2)
    hx_s = min(hx_min, (K * ht_min)**(1 / sigma) / 2)
    area = sum((e[1] - e[0]) * (e[3] - e[2]) for e in before)
    return int(area / (ht_s * hx_s) * 1.001) + 1


def grade_check(cfg, h, sigma, HLIMIT=None, light=False):
    HLIMIT = HLIMIT or globals()['HLIMIT']
    m = build(cfg, h)
    before = leafset(m)
    bound = bisection_bound(before, sigma)
    try:
        with horizon(min(bound, HLIMIT)) as hz:
            m.refine_grading(sigma=sigma, K=K)
    except Horizon:
        if bound > HLIMIT:
            return [], -1  # too large to decide within the budget: reported as undecided, not as a violation
        return [('no-termination', 'more than {} bisections, the rigorous bound for any terminating run'.format(bound))], 0
    except AssertionError as ex:
        import traceback
        tb = traceback.extract_tb(ex.__traceback__)[-1]
        return [('assertion', 'AssertionError at {}:{} `{}`'.format(tb.filename.split('/')[-1], tb.lineno, tb.line))], 0
    except Exception as ex:
        return [('raised', repr(ex))], 0
    after = leafset(m)
    errs = []
    # only refines: every new leaf lies inside exactly one old leaf with levels not smaller
    for a in after:
        par = [b for b in before if contains(b, a)]
        if len(par) != 1 or a[4] < par[0][4] or a[5] < par[0][5]:
            errs.append(('not-a-refinement', a))
            break
    bad = [a for a in after if not in_window(a, sigma)]
    if bad:
        errs.append(('outside-window', sorted(bad)[:3]))
    if not light:  # (light: window and refinement clauses only - meshes of 10^5 leaves)
        base = build_ref(cfg, ())
        post = ref_from_leaves(base, after)
        errs += check_tiling(m, post)
        errs += check_neighbours(m, post)
    return errs, len(after) - len(before)


def grade_sequence_check(cfg, h, s1, s2):
    """Two gradings on the SAME mesh object (sigma s1, then s2): the second call must establish the s2 window as if the mesh
    were fresh (whatever the first call left behind on the elements must not matter)."""
    m = build(cfg, h)
    before = leafset(m)
    try:
        with horizon(min(bisection_bound(before, s1), HLIMIT)):
            m.refine_grading(sigma=s1, K=K)
        mid = leafset(m)
        b2 = bisection_bound(mid, s2)
        if b2 > HLIMIT:
            return [], -1
        with horizon(b2):
            m.refine_grading(sigma=s2, K=K)
    except Horizon:
        return [], -1
    except Exception as ex:
        return [('sequence-raised', repr(ex))], 0
    after = leafset(m)
    errs = []
    bad = [a for a in after if not in_window(a, s2)]
    if bad:
        errs.append(('sequence-outside-window', {'first_sigma': s1, 'bad': sorted(bad)[:3]}))
    for a in after:
        par = [b for b in mid if contains(b, a)]
        if len(par) != 1:
            errs.append(('sequence-not-a-refinement', a))
            break
    return errs, len(after) - len(mid)


def state_fn(cfg, h, m, ref):
    errs = []
    added = 0
    undecided = 0
    for s in SIGMAS:
        e, a = grade_check(cfg, h, s)
        errs += [((t, s), d) for t, d in e]
        if a < 0:
            undecided += 1
        else:
            added += a
    nseq = 0
    if len(h) <= state_fn.seq_depth:
        for s1 in SIGMAS:
            for s2 in SIGMAS:
                if s1 == s2:
                    continue
                e, a = grade_sequence_check(cfg, h, s1, s2)
                errs += [((t, s2), d) for t, d in e]
                nseq += 1 if a >= 0 else 0
    return errs, {'gradings': len(SIGMAS), 'elements_added': added, 'undecided_too_large': undecided, 'grading_sequences': nseq}


state_fn.seq_depth = 2


def state_fn_frac(cfg, h, m, ref):
    """Only the fractional exponent (the integer exponents need ~4^k elements on the very deep strips)."""
    e, a = grade_check(cfg, h, 1.5)
    return [((t, 1.5), d) for t, d in e], {'gradings': 1, 'elements_added': max(a, 0), 'undecided_too_large': 1 if a < 0 else 0, 'grading_sequences': 0}


def report(ctx):
    def on_violation(cfgname, hist, v):
        if v[0] == 'refine-raised':
            ctx.refine_raised = getattr(ctx, 'refine_raised', 0) + 1  # a plain bisection failed: C02's business
            return
        (tag, sigma), detail = v
        ctx.violation({'cfg': cfgname, 'tag': tag, 'sigma': sigma},
                      'grading sigma={} K=4 on {} after history {}: {}: {}'.format(sigma, cfgname, list(hist), tag, detail),
                      {'cfg': cfgname, 'history': [[list(r), ax] for r, ax in hist], 'sigma': sigma,
                       'first_sigma': detail.get('first_sigma') if isinstance(detail, dict) else None, 'sequence': tag.startswith('sequence')})
    return on_violation


def run(ctx):
    depths = QUICK if ctx.tier == 'quick' else THOROUGH
    state_fn.seq_depth = 2 if ctx.tier == 'quick' else 3
    st = meshmc.Stats()
    onv = report(ctx)
    for cfgname, d in depths.items():
        meshmc.explore(ctx, cfgname, d, state_fn, None, onv, stats=st, hlimit=HLIMIT)
        ctx.note('{}: {}'.format(cfgname, st.per_cfg[cfgname]))
    # directed deep roots (refined k times towards t=0 / a corner / the seam), each the root of a shallow BFS
    k = 3 if ctx.tier == 'quick' else 4
    dd = 1 if ctx.tier == 'quick' else 2
    for cfgname in ('Circle', 'UnitSquare', 'LShapeDriver', 'PiSquare', 'UnitInterval'):
        for name, root in meshmc.deep_histories(cfgname, k).items():
            meshmc.explore(ctx, cfgname, dd, state_fn, None, onv, stats=st, hlimit=HLIMIT, root=root,
                           label='{}+deep:{}'.format(cfgname, name))
    # very deep time strips (h_t down to 2^-8 / 2^-11 / 2^-14 at t = 0): leaves that sit EXACTLY on a window edge for the
    # fractional exponent (h_x^1.5 == K h_t at h_x = 2^-4, h_t = 2^-8, ...) only exist at these time levels
    for cfgname in ('UnitSquare', 'LShapeDriver', 'UnitInterval'):
        for kk in ((8, ) if ctx.tier == 'quick' else (8, 11, 14)):
            root = meshmc.deep_histories(cfgname, kk)['t0']
            meshmc.explore(ctx, cfgname, 0 if (ctx.tier == 'quick' or kk > 8) else 1, state_fn if kk == 8 else state_fn_frac, None, onv, stats=st, hlimit=HLIMIT, root=root,
                           label='{}+deep:t0x{}'.format(cfgname, kk))
    # gradings that need MANY sweeps (each sweep bisects a leaf once): one-slab strips whose only leaf is 17 / 18 space bisections
    # away from the window (2^17 .. 2^19 leaves afterwards)
    if True:
        for T_, s_ in (((2.0**-18, 1), ) if ctx.tier == 'quick' else ((2.0**-18, 1), (2.0**-36, 2), (2.0**-20, 1))):
            cfg_ = ('plain', False, (0.0, 1.0), (0.0, T_))
            e_, a_ = grade_check(cfg_, (), s_, HLIMIT=1500000, light=True)
            st.extra['many_sweep_gradings'] = st.extra.get('many_sweep_gradings', 0) + 1
            ctx.note('many-sweep grading on [0,1] x [0,{}] sigma={}: {} elements added, {}'.format(T_, s_, a_, 'ok' if not e_ else e_[0][0]))
            for t_, d_ in e_:
                ctx.violation({'cfg': 'strip', 'tag': t_ + '|many-sweeps', 'sigma': s_},
                              'grading sigma={} K=4 on the one-element mesh [0,1] x [0,{}]: {}: {}'.format(s_, T_, t_, str(d_)[:300]),
                              {'many_sweeps': [T_, s_]})
    # supplementary random histories (seeded; not part of the exhaustive claim)
    nrw = 0
    nund = 0
    for i in range(9 if ctx.tier == 'quick' else 60):
        cfgname = sorted(depths)[(ctx.seed + i) % len(depths)]
        h = meshmc.random_history(cfgname, ctx.seed * 15485863 + i, 40 if ctx.tier == 'quick' else 200, (0.2, 0.5, 0.8)[i % 3],
                                  max_leaves=150)
        for s in SIGMAS:
            e, a_ = grade_check(CFGS[cfgname], h, s, HLIMIT=4000)
            nrw += 1 if a_ >= 0 else 0
            nund += 1 if a_ < 0 else 0
            for t, d in e:
                onv(cfgname, h, ((t, s), d))
    if not st.extra.get('elements_added'):
        raise common.HarnessError('grading never refined anything: vacuous')
    cov = {
        'states': st.states, 'transitions': st.transitions + int(st.extra.get('gradings', 0)),
        'traces_validated_against_impl': int(st.extra.get('gradings', 0)),
        'grading_calls': int(st.extra.get('gradings', 0)), 'two_grading_sequences_on_one_object': int(st.extra.get('grading_sequences', 0)), 'elements_added_by_grading': int(st.extra.get('elements_added', 0)),
        'per_config': st.per_cfg, 'samples': st.samples[:8], 'supplementary_random_gradings': nrw, 'supplementary_random_gradings_undecided_too_large': nund,
        'undecided_too_large_in_exhaustive_part': int(st.extra.get('undecided_too_large', 0)),
        'horizon_bisections': HLIMIT, 'exhaustive': not any(c['capped'] for c in st.per_cfg.values()) and not st.extra.get('undecided_too_large'),
        'explanation': 'grading applied as a leaf transition (on a fresh replay) at every distinct state of the BFS graphs',
    }
    return ctx.finish('model_checking', cov, [
        'only the shipped curves with their default / two-slab initial grids (strongly anisotropic custom root grids are a documented non-goal: window and 1-irregularity can be jointly unsatisfiable)',
        'sigma in {1,1.5,2}, K=4'])


def replay(ctx, data):
    if data.get('many_sweeps'):
        T_, s_ = data['many_sweeps']
        e_, a_ = grade_check(('plain', False, (0.0, 1.0), (0.0, float(T_))), (), s_, HLIMIT=1500000, light=True)
        print('elements added', a_, 'errors', [(t, str(d)[:200]) for t, d in e_])
        return not e_
    cfg = CFGS[data['cfg']]
    h = tuple((tuple(r), ax) for r, ax in data['history'])
    if data.get('sequence'):
        firsts = [data['first_sigma']] if data.get('first_sigma') else [x for x in SIGMAS if x != data['sigma']]
        ok = True
        for s1 in firsts:
            e, added = grade_sequence_check(cfg, h, s1, data['sigma'])
            print('grading with sigma', s1, 'then', data['sigma'], '->', e[:3])
            ok = ok and not e
        return ok
    e, added = grade_check(cfg, h, data['sigma'])
    print('elements added:', added)
    for x in e[:10]:
        print('  ', x)
    return not e
