"""C18 - curves are arc-length, closed, piecewise consistent; elements sit on one piece; >= 3 elements per slab.

Finite spaces, enumerated completely:
  1. shipped curves x parameter alphabet (break points, +-1 ulp neighbours, dyadic points of every piece, mid points);
  2. all simple rectilinear lattice polygons with vertices in {0..3}^2 and at most 8 vertices, every start vertex and
     both orientations: the constructor either rejects (assertion) or yields a curve with all properties of 1;
  3. meshes: curve x time grid (1..6 slabs uniform + irregular) x space grid (pieces, halved pieces, first piece in
     three) x every state of the bisection BFS graph to a depth bound."""
import itertools
import math

import numpy as np

from mc import common, meshmc
from mc.common import pmap
from mc.meshmc import Horizon, horizon, leaf6

import src.parametrization as P
from src.mesh import MeshParametrized

CURVES = ('UnitInterval', 'Circle', 'UnitSquare', 'PiSquare', 'LShape')
EXPECTED_VERTS = {
    'UnitInterval': [(0, 0), (1, 0)],
    'UnitSquare': [(0, 0), (1, 0), (1, 1), (0, 1), (0, 0)],
    'PiSquare': [(0, 0), (math.pi, 0), (math.pi, math.pi), (0, math.pi), (0, 0)],
    'LShape': [(0, 0), (0, -1), (1, -1), (1, 1), (-1, 1), (-1, 0), (0, 0)],
}


def ulp_nbrs(x, L):
    out = {x}
    for y in (np.nextafter(x, -np.inf), np.nextafter(x, np.inf)):
        if 0 <= y <= L:
            out.add(float(y))
    return out


def alphabet(g):
    L = float(g.gamma_length)
    A = set()
    for s in g.pw_start:
        A |= ulp_nbrs(float(s), L)
    for i in range(len(g.pw_gamma)):
        a, b = float(g.pw_start[i]), float(g.pw_start[i + 1])
        for j in range(0, 5):
            for k in range(2**j + 1):
                A.add(a + (b - a) * k / 2**j)
        A.add(a + (b - a) / 3)
    return sorted(x for x in A if 0 <= x <= L)


def piece_index(g, x):
    """Indices of the pieces whose closed parameter range contains x."""
    return [i for i in range(len(g.pw_gamma)) if g.pw_start[i] <= x <= g.pw_start[i + 1]]


def pt(v):
    return np.asarray(v, dtype=float).reshape(-1)


def check_curve(g, verts=None, circle=False, light=False):
    """All curve clauses on the alphabet; returns (list of (tag, detail), number of evaluations)."""
    errs = []
    n = 0
    L = float(g.gamma_length)
    A = alphabet(g)
    scale = max(1.0, L)
    tol = 8 * np.finfo(float).eps * scale * 4
    if g.pw_start[0] != 0 or any(g.pw_start[i] >= g.pw_start[i + 1] for i in range(len(g.pw_gamma))):
        errs.append(('pw_start-not-increasing', list(map(float, g.pw_start))))
        return errs, 1
    # piece lengths equal side lengths
    if verts is not None:
        for i in range(len(verts) - 1):
            side = math.dist(verts[i], verts[i + 1])
            n += 1
            if abs((g.pw_start[i + 1] - g.pw_start[i]) - side) > tol:
                errs.append(('piece-length', (i, float(g.pw_start[i + 1] - g.pw_start[i]), side)))
            for x, v in ((g.pw_start[i], verts[i]), (g.pw_start[i + 1], verts[i + 1])):
                if np.max(np.abs(pt(g.pw_gamma[i](x)) - np.array(v, dtype=float))) > tol:
                    errs.append(('piece-endpoint', (i, float(x))))
    if circle:
        n += 1
        if abs(L - 2 * math.pi) > tol:
            errs.append(('piece-length', ('circle', L)))
    # continuity at break points from both sides, closedness
    for i in range(1, len(g.pw_gamma)):
        s = g.pw_start[i]
        n += 1
        if np.max(np.abs(pt(g.pw_gamma[i - 1](s)) - pt(g.pw_gamma[i](s)))) > tol:
            errs.append(('discontinuous', (i, float(s))))
    if g.closed:
        n += 1
        if np.max(np.abs(pt(g.eval(0.0)) - pt(g.eval(L)))) > tol or \
                np.max(np.abs(pt(g.pw_gamma[0](0.0)) - pt(g.pw_gamma[-1](L)))) > tol:
            errs.append(('not-closed', None))
    # eval agrees with the containing piece(s) on the whole alphabet (scalar and vectorised)
    for x in A:
        ev = pt(g.eval(x))
        n += 1
        for i in piece_index(g, x):
            if np.max(np.abs(ev - pt(g.pw_gamma[i](x)))) > tol:
                errs.append(('eval-vs-piece', (float(x), i)))
    evv = np.asarray(g.eval(np.array(A)))
    if evv.shape != (2, len(A)):
        errs.append(('eval-shape', evv.shape))
    else:
        for k, x in enumerate(A):
            if not np.max(np.abs(evv[:, k] - pt(g.eval(x)))) <= tol:
                errs.append(('eval-vector-vs-scalar', float(x)))
    # ... and for parameter arrays in EVERY order class: reversed, every cyclic rotation, interleaved, and for every ordered
    # pair of pieces (i, j) an array that starts and ends on piece i with entries of piece j (interior and break points) between
    AA = list(A)
    orders = [('reversed', AA[::-1]), ('interleaved', AA[::2] + AA[1::2])] + [('rotation%d' % r, AA[r:] + AA[:r]) for r in (sorted({1, len(AA) // 2, len(AA) - 1}) if light else range(1, len(AA)))]
    npc = len(g.pw_gamma)
    inner = [[x for x in AA if g.pw_start[i] < x < g.pw_start[i + 1]] for i in range(npc)]
    for i in range(npc):
        for j in range(npc):
            if i != j and len(inner[i]) >= 2 and inner[j]:
                orders.append(('piece%d-piece%d-piece%d' % (i, j, i), [inner[i][0], g.pw_start[j], inner[j][0], g.pw_start[j + 1], inner[i][-1]]))
                orders.append(('piece%d-piece%d-piece%d-descending' % (i, j, i), [inner[i][-1], inner[j][-1], inner[i][0]]))
    for oname, arr in orders:
        n += 1
        try:
            ev2 = np.asarray(g.eval(np.array(arr, dtype=float)))
        except Exception as ex:
            errs.append(('eval-array-raised', (oname, repr(ex))))
            continue
        if ev2.shape != (2, len(arr)):
            errs.append(('eval-shape', (oname, ev2.shape)))
            continue
        for k, x in enumerate(arr):
            if not any(np.max(np.abs(ev2[:, k] - pt(g.pw_gamma[i](x)))) <= tol for i in piece_index(g, x)):
                errs.append(('eval-array-vs-containing-piece', (oname, float(x))))
                break
    # arc length: |gamma(x)-gamma(y)| for every pair of alphabet points inside one piece
    for i in range(len(g.pw_gamma)):
        a, b = g.pw_start[i], g.pw_start[i + 1]
        pts = [x for x in A if a <= x <= b]
        G = g.pw_gamma[i](np.array(pts))
        for (k, x), (l, y) in itertools.combinations(enumerate(pts), 2):
            d = math.hypot(G[0, k] - G[0, l], G[1, k] - G[1, l])
            exact = 2 * math.sin(abs(x - y) / 2) if circle else abs(x - y)
            n += 1
            if abs(d - exact) > tol:
                errs.append(('arc-length', (i, float(x), float(y), d, exact)))
        # |gamma'| = 1 by central differences at interior alphabet points
        hh = 1e-6 * scale
        for x in pts:
            if a + hh <= x <= b - hh:
                dv = (pt(g.pw_gamma[i](x + hh)) - pt(g.pw_gamma[i](x - hh))) / (2 * hh)
                n += 1
                if abs(math.hypot(*dv) - 1) > 1e-8:
                    errs.append(('speed', (i, float(x), float(math.hypot(*dv)))))
    return errs, n


# ---------------------------------------------------------------------------------------------------
def lattice_polygons(nmax=8, K=3):
    """All simple closed rectilinear polygons with vertices in {0..K}^2 and at most nmax vertices, as vertex lists
    (every start vertex, both orientations), sides strictly alternating horizontal/vertical."""
    pts = [(x, y) for x in range(K + 1) for y in range(K + 1)]
    out = []

    def cross(p, q, r, s):
        """Do the closed axis-parallel segments pq and rs intersect?"""
        return (min(p[0], q[0]) <= max(r[0], s[0]) and min(r[0], s[0]) <= max(p[0], q[0])
                and min(p[1], q[1]) <= max(r[1], s[1]) and min(r[1], s[1]) <= max(p[1], q[1]))

    def simple(path):
        n = len(path)
        edges = [(path[i], path[(i + 1) % n]) for i in range(n)]
        for i in range(n):
            for j in range(i + 1, n):
                if j == i + 1 or (i == 0 and j == n - 1):
                    continue  # adjacent sides are perpendicular and share exactly the joint
                if cross(*edges[i], *edges[j]):
                    return False
        return True

    def rec(path, horiz):
        p = path[-1]
        n = len(path)
        if n >= 4 and n % 2 == 0:
            q = path[0]
            first_h = path[0][1] == path[1][1]
            closing_h = p[1] == q[1] and p[0] != q[0]
            closing_v = p[0] == q[0] and p[1] != q[1]
            if (closing_h or closing_v) and closing_h == horiz and closing_h != first_h and simple(path):
                out.append(list(path) + [q])
        if n >= nmax:
            return
        for q in pts:
            if q in path:
                continue
            if horiz and (q[1] != p[1] or q[0] == p[0]):
                continue
            if (not horiz) and (q[0] != p[0] or q[1] == p[1]):
                continue
            rec(path + [q], not horiz)

    for p0 in pts:
        rec([p0], True)
        rec([p0], False)
    return out


def polygon_task(verts):
    """verts: closed vertex list (first == last), or ('open', vertex list) for the open polyline without the closing side."""
    is_open = verts and verts[0] == 'open'
    if is_open:
        verts = verts[1]
    V = [np.array(v) for v in verts]
    try:
        g = P.PiecewisePolygon(V, closed=False) if is_open else P.PiecewisePolygon(V)
    except AssertionError:
        return 'rejected', [], 0
    except Exception as ex:
        return 'raised', [('polygon-constructor-raised', repr(ex))], 1
    errs, n = check_curve(g, verts=[tuple(map(float, v)) for v in verts], light=True)
    return 'accepted', errs, n


# ---------------------------------------------------------------------------------------------------
def space_grids(g):
    ps = [float(x) for x in g.pw_start]
    halved = sorted(set(ps + [(a + b) / 2 for a, b in zip(ps, ps[1:])]))
    three = sorted(set(ps + [ps[0] + (ps[1] - ps[0]) / 3, ps[0] + 2 * (ps[1] - ps[0]) / 3]))
    return {'pieces': None, 'halved': halved, 'first-in-three': three}


def time_grids():
    out = {}
    for k in range(1, 7):
        out['uniform{}'.format(k)] = [j / k for j in range(k + 1)]
    out['irregular4'] = [0, 0.3, 0.35, 1.5, 2.0]
    out['irregular3'] = [0, 0.3, 0.6, 1]
    return out


def check_mesh(m, g):
    errs = []
    leaves = list(m.leaf_elements)
    pieces = list(g.pw_gamma)
    for e in leaves:
        x0, x1 = e.space_interval
        idx = [i for i in range(len(pieces)) if g.pw_start[i] <= x0 and x1 <= g.pw_start[i + 1]]
        if len(idx) != 1:
            errs.append(('element-straddles-pieces', leaf6(e)))
        elif e.gamma_space is not pieces[idx[0]]:
            errs.append(('wrong-piece', leaf6(e)))
    if g.closed:
        L = float(g.gamma_length)
        ts = sorted(set(t for e in leaves for t in e.time_interval))
        for a, b in zip(ts, ts[1:]):
            tm = (a + b) / 2
            slab = [e for e in leaves if e.time_interval[0] < tm < e.time_interval[1]]
            if len(slab) < 3:
                errs.append(('slab-fewer-than-3', (a, b, len(slab))))
            for e1, e2 in itertools.combinations(slab, 2):
                ends1 = set(x % L for x in e1.space_interval)
                ends2 = set(x % L for x in e2.space_interval)
                if len(ends1 & ends2) > 1:
                    errs.append(('touch-in-two-points', (leaf6(e1), leaf6(e2))))
            if len(slab) >= 1:
                ends_all = [tuple(x % L for x in e.space_interval) for e in slab]
                if any(p[0] == p[1] for p in ends_all):
                    errs.append(('element-wraps-whole-curve', (a, b)))
    return errs


def mesh_task(item):
    cname, tg_name, tg, sg_name, sg, depth = item
    g = meshmc.curve(cname)
    cfg = ('param', cname, None if sg is None else tuple(sg), tuple(float(t) for t in tg), '')
    errs = []
    nstates = 0
    try:
        m0 = meshmc.fresh(cfg)
    except Exception as ex:
        return [('mesh-constructor-raised', repr(ex))], 0, 0
    # BFS to `depth` on this configuration (sequential inside the task; leaf-set dedup is sound here because the
    # checked predicate is a function of the leaves and their gamma_space, which is inherited from the root)
    seen = set()
    frontier = [()]
    nleaf = 0
    for d in range(depth + 1):
        new = []
        for h in frontier:
            try:
                with horizon(5000):
                    m = meshmc.build(cfg, h)
            except (Exception, Horizon) as ex:
                errs.append(('history-raised', (h, repr(ex))))
                continue
            k = common.digest(sorted(meshmc.leafset(m)))
            if k in seen:
                continue
            seen.add(k)
            nstates += 1
            nleaf += len(m.leaf_elements)
            for t, dd in check_mesh(m, g):
                if len(errs) < 5:
                    errs.append((t, {'history': h, 'detail': dd}))
            if d < depth:
                new.extend(h + (op, ) for op in meshmc.ops_of(m))
        frontier = new
    return errs, nstates, nleaf


def grid_history_task(item):
    """Histories of mesh constructions on ONE curve object: every ordered pair of space grids (incl. different grids of the SAME
    length) x two time grids; whatever the curve object remembers from the first construction must not leak into the second."""
    cname = item
    import src.parametrization as P_
    errs = []
    n = 0
    g0 = meshmc.curve(cname)
    ps = [float(x) for x in g0.pw_start]
    grids = dict(space_grids(g0))
    grids['second-in-three'] = sorted(set(ps + [ps[-2] + (ps[-1] - ps[-2]) / 3, ps[-2] + 2 * (ps[-1] - ps[-2]) / 3]))
    grids['first-halved-last-halved'] = sorted(set(ps + [(ps[0] + ps[1]) / 2, (ps[-2] + ps[-1]) / 2]))
    grids['first-in-three-b'] = sorted(set(ps + [ps[0] + (ps[1] - ps[0]) / 4, ps[0] + (ps[1] - ps[0]) / 2]))
    names = sorted(grids)
    for a in names:
        for b in names:
            if a == b:
                continue
            g = getattr(P_, cname)()  # one fresh curve object per history
            for tg in ([0.0, 1.0], [0.0, 0.5, 2.0]):
                for nm in (a, b):
                    sg = grids[nm]
                    try:
                        m = MeshParametrized(g, initial_space_mesh=None if sg is None else list(sg), initial_time_mesh=list(tg))
                        m.uniform_refine()
                    except Exception as ex:
                        errs.append(('grid-history-raised', {'curve': cname, 'first': a, 'second': b, 'exc': repr(ex)}))
                        continue
                    n += 1
                    for t, d in check_mesh(m, g):
                        if len(errs) < 4:
                            errs.append(('grid-history:' + t, {'curve': cname, 'first_grid': a, 'second_grid': b, 'grid': nm, 'time_grid': tg, 'detail': d}))
    return errs, n


HIST_CURVES = CURVES + ('ThinRect', 'ShiftedSquare', 'OpenEll')


def _history_grids(g):
    """Space grids for the cross-curve histories: the shipped ones plus grids made of the break points and ALL integers / half
    integers below the length - parameter values that other curves also use, lying on a different piece there."""
    ps = [float(x) for x in g.pw_start]
    L = ps[-1]
    grids = dict(space_grids(g))
    ints = [float(k) for k in range(int(np.floor(L)) + 1) if k < L]
    grids['integers'] = sorted(set(ps + ints))
    grids['half-integers'] = sorted(set(ps + [k / 2 for k in range(int(np.floor(2 * L)) + 1) if k / 2 < L]))
    return grids


def cross_curve_task(item):
    """Histories of mesh constructions on TWO curves in one brand-new process: every grid on a fresh object of the first curve,
    then every grid on a fresh object of the second; whatever module / class-level state the first curve leaves behind must not
    change the piece an element of the second carries (and vice versa on a third pass over the first)."""
    a, b = item
    errs = []
    n = 0
    for cname in (a, b, a):
        g = meshmc.curve(cname)
        for nm, sg in sorted(_history_grids(g).items()):
            try:
                m = MeshParametrized(g, initial_space_mesh=None if sg is None else list(sg), initial_time_mesh=[0.0, 0.5, 1.0])
                m.uniform_refine()
            except Exception as ex:
                errs.append(('cross-curve-history-raised', {'first': a, 'second': b, 'curve': cname, 'grid': nm, 'exc': repr(ex)}))
                continue
            n += 1
            for t, d in check_mesh(m, g):
                if len(errs) < 4:
                    errs.append(('cross-curve-history:' + t, {'first': a, 'second': b, 'curve': cname, 'grid': nm, 'space_grid': sg, 'detail': d}))
    return errs, n


def run(ctx):
    nviol_before = ctx.n_viol
    ncases = 0
    per = {}
    # 1. shipped curves
    for cname in CURVES + ('ThinRect', 'ShiftedSquare', 'OpenEll'):  # the custom polygons (the curved custom curves serve C09 / C20)
        try:
            g = meshmc.curve(cname)
        except Exception as ex:  # noqa: BLE001 - integer / dyadic vertices are bit-exact: the constructor has no reason to refuse
            ctx.violation({'part': 'curve', 'curve': cname, 'tag': 'constructor-raised'}, 'curve {}: the constructor raised {!r}'.format(cname, ex),
                          {'part': 'curve', 'curve': cname})
            continue
        errs, n = check_curve(g, verts=EXPECTED_VERTS.get(cname), circle=(cname == 'Circle'))
        if g.closed != (cname not in ('UnitInterval', 'OpenEll')):
            errs.append(('closed-flag', g.closed))
        ncases += n
        per['curve:' + cname] = n
        for tag, d in errs[:5]:
            ctx.violation({'part': 'curve', 'curve': cname, 'tag': tag}, 'curve {}: {} {}'.format(cname, tag, d),
                          {'part': 'curve', 'curve': cname})
    # 2. lattice polygons
    polys = lattice_polygons(8 if ctx.tier == 'thorough' else 6, 3 if ctx.tier == 'thorough' else 3)
    # ... and the open polylines obtained by dropping the closing side (they end in a vertex that is not the start vertex)
    n_closed = len(polys)
    polys = polys + [('open', v[:-1]) for v in polys]
    res = pmap(polygon_task, polys, ctx.jobs)
    acc = rej = 0
    for verts, (status, errs, n) in zip(polys, res):
        ncases += n
        acc += status == 'accepted'
        rej += status == 'rejected'
        for tag, d in errs[:2]:
            ctx.violation({'part': 'polygon', 'tag': tag}, 'lattice polygon {}: {} {}'.format(verts, tag, d),
                          {'part': 'polygon', 'vertices': verts})
    per['polygons'] = {'enumerated': len(polys), 'closed': n_closed, 'open_polylines': len(polys) - n_closed, 'accepted': acc, 'rejected_by_constructor': rej}
    if acc < 10:
        raise common.HarnessError('polygon enumeration vacuous')
    # 3. meshes
    depth = 1 if ctx.tier == 'quick' else 2
    items = []
    for cname in CURVES:
        g = meshmc.curve(cname)
        for tn, tg in time_grids().items():
            for sn, sg in space_grids(g).items():
                dd = depth if (len(tg) <= 3 or ctx.tier == 'thorough') else min(depth, 1)
                if sn != 'pieces' and len(tg) > 4:
                    dd = min(dd, 1)
                items.append((cname, tn, tg, sn, sg, dd))
    res = pmap(mesh_task, items, ctx.jobs, chunksize=1)
    nstates = 0
    nleaf = 0
    for it, (errs, ns, nl) in zip(items, res):
        nstates += ns
        nleaf += nl
        for tag, d in errs[:2]:
            ctx.violation({'part': 'mesh', 'curve': it[0], 'tag': tag, 'slabs': len(it[2]) - 1, 'space_grid': it[3]},
                          'MeshParametrized({}, time grid {}, space grid {}): {} {}'.format(it[0], it[2], it[3], tag, d),
                          {'part': 'mesh', 'curve': it[0], 'time_grid': it[2], 'space_grid_name': it[3], 'space_grid': it[4],
                           'history': d.get('history') if isinstance(d, dict) else None})
    per['mesh_configs'] = len(items)
    resH = pmap(grid_history_task, list(CURVES), ctx.jobs, chunksize=1)
    nH = 0
    for cname, (errs, nn) in zip(CURVES, resH):
        nH += nn
        for tag, d in errs[:3]:
            ctx.violation({'part': 'mesh-history', 'curve': cname, 'tag': tag}, 'construction history on one curve object: {} {}'.format(tag, d),
                          {'part': 'mesh-history', 'curve': cname})
    per['grid_histories_meshes_built'] = nH
    nstates += nH
    hpairs = [(a, b) for a in HIST_CURVES for b in HIST_CURVES if a != b]
    nX = 0
    for pr, (errs, nn) in zip(hpairs, common.pmap_fresh(cross_curve_task, hpairs, ctx.jobs)):
        nX += nn
        for tag, d in errs[:2]:
            ctx.violation({'part': 'cross-curve-history', 'first': pr[0], 'second': pr[1], 'tag': tag},
                          'construction history over two curves in one process: {} {}'.format(tag, d),
                          {'part': 'cross-curve-history', 'first': pr[0], 'second': pr[1]})
    per['cross_curve_histories_in_fresh_processes'] = len(hpairs)
    per['cross_curve_history_meshes_built'] = nX
    nstates += nX
    cov = {
        'evaluations': ncases + nleaf, 'distinct_nontrivial': ncases + nstates,
        'rule': 'curve clauses: one evaluation per (curve, alphabet point / pair of alphabet points in one piece / break point); '
                'polygons: every simple rectilinear lattice polygon in {0..3}^2 (every start vertex, both orientations); meshes: every '
                'leaf-set-distinct state of the bisection BFS to the depth bound for every (curve, time grid, space grid); all distinct by construction',
        'curve_and_polygon_evaluations': ncases, 'mesh_states': nstates, 'mesh_leaves_checked': nleaf, 'detail': per,
        'samples': [{'polygon': polys[0]}, {'polygon': polys[len(polys) // 2]},
                    {'mesh': list(items[0][:2]) + [items[0][3]]}, {'mesh': list(items[-1][:2]) + [items[-1][3]]}],
        'exhaustive': True,
    }
    return ctx.finish('exploration', cov, ['continuous parameters represented by the alphabet of break points, ulp neighbours and dyadic points',
                                           'polygons: lattice {0..3}^2, <= 8 vertices (thorough) / 6 (quick)'])


def replay(ctx, data):
    if data['part'] == 'curve':
        g = meshmc.curve(data['curve'])
        errs, n = check_curve(g, verts=EXPECTED_VERTS.get(data['curve']), circle=(data['curve'] == 'Circle'))
    elif data['part'] == 'polygon':
        vv = data['vertices']
        status, errs, n = polygon_task(('open', [tuple(v) for v in vv[1]]) if vv and vv[0] == 'open' else [tuple(v) for v in vv])
        print('constructor:', status)
    elif data['part'] == 'mesh-history':
        errs, n = grid_history_task(data['curve'])
    elif data['part'] == 'cross-curve-history':
        errs, n = common.pmap_fresh(cross_curve_task, [(data['first'], data['second'])], 1)[0]
    else:
        g = meshmc.curve(data['curve'])
        cfg = ('param', data['curve'], None if data['space_grid'] is None else tuple(data['space_grid']),
               tuple(float(t) for t in data['time_grid']), '')
        h = tuple((tuple(r), ax) for r, ax in (data.get('history') or ()))
        m = meshmc.build(cfg, h)
        errs = check_mesh(m, g)
    for e in errs[:10]:
        print('  ', e)
    return not errs
