"""C13 - the symmetric part of the single-layer matrix is positive definite.

Exhaustive over every leaf-set-distinct mesh state of the bisection BFS graphs on the four closed curves (plus
uniform refinements and directed deep roots) whose leaves all have aspect <= 32: the matrix from bilform_matrix,
S = (A + A^T)/2, smallest eigenvalue of D^-1/2 S D^-1/2 > 0.01; every 4x4 child block of the hierarchical
estimator and its three scalings coefs^T S coefs > 0.  Both switch values."""
import numpy as np

from mc import common, meshmc, universe
from mc.common import pmap
from mc.meshmc import CFGS, build

from src.hierarchical_error_estimator import DummyElement
from src.single_layer import SingleLayerOperator

ASPECT = 32.0
LAMBDA_MIN = 0.01
COEFS = ([1, 1, -1, -1], [1, -1, 1, -1], [1, -1, -1, 1])


def lam_min(A):
    S = (A + A.T) / 2
    d = np.sqrt(np.diag(S))
    return float(np.linalg.eigvalsh(S / np.outer(d, d))[0])


def task(item):
    cfgname, h, uniform = item
    cfg = CFGS[cfgname]
    m = build(cfg, h)
    for _ in range(uniform):
        m.uniform_refine()
    elems = list(m.leaf_elements)
    out = {'n': 0, 'blocks': 0, 'viols': [], 'lam': [], 'skipped': 0, 'N': len(elems), 'unstable': 0}
    if any(universe.aspect(e) > ASPECT for e in elems):
        out['skipped'] = 1
        return out
    for sw in (False, True):
        SL = SingleLayerOperator(m, pw_exact=sw)
        try:
            A = SL.bilform_matrix(elems, elems)
            lam = lam_min(A)
        except Exception as ex:
            out['viols'].append(('raised', {'cfg': cfgname, 'history': h, 'uniform': uniform, 'pw_exact': sw, 'exc': repr(ex)}))
            continue
        out['n'] += 1
        out['lam'].append(lam)
        if not (lam > LAMBDA_MIN) or np.any(np.diag(A) <= 0):
            out['viols'].append(('not-positive-definite', {'cfg': cfgname, 'history': h, 'uniform': uniform, 'pw_exact': sw, 'lambda_min': lam, 'N': len(elems)}))
        if uniform == 0 and h and len(elems) <= 64:
            # the driver's lifecycle: ONE operator is created on the initial mesh and serves every later mesh of the adaptive loop
            # (example.py creates SL before the loop; the estimator re-registers the elements each iteration): build the operator on
            # the root mesh, assemble there, re-register, THEN apply the bisection history and assemble again with the same object
            try:
                m2 = build(cfg, ())
                SLd = SingleLayerOperator(m2, pw_exact=sw)
                e0 = list(m2.leaf_elements)
                SLd.bilform_matrix(e0, e0)
                SLd._init_elems(e0)
                half = len(h) // 2
                for k, (rect, ax) in enumerate(h):
                    if k == half and half > 0:
                        ek = list(m2.leaf_elements)
                        SLd.bilform_matrix(ek, ek)
                        SLd._init_elems(ek)
                    m2.refine_axis(meshmc.find_leaf(m2, rect), ax)
                e2 = list(m2.leaf_elements)
                Ad = SLd.bilform_matrix(e2, e2)
                lamd = lam_min(Ad) if np.all(np.diag(Ad) > 0) else float('-inf')
                out['lifecycle'] = out.get('lifecycle', 0) + 1
                if not lamd > LAMBDA_MIN:
                    out['viols'].append(('not-positive-definite-with-operator-created-before-refinement',
                                         {'cfg': cfgname, 'history': h, 'uniform': uniform, 'pw_exact': sw, 'lambda_min': lamd, 'lambda_min_fresh_operator': lam}))
            except Exception as ex:
                out['viols'].append(('raised-with-operator-created-before-refinement', {'cfg': cfgname, 'history': h, 'uniform': uniform, 'pw_exact': sw, 'exc': repr(ex)}))
        if len(elems) <= 40 or sw is False:
            # operator history: serve the child blocks twice (the second time with NEW virtual children, the first ones having been
            # freed) and re-assemble on the same operator; C13 is judged on what the operator returns AFTER that history
            # (bitwise instability alone is counted as an observation - it is C17's / C01's business)
            blocks = {}
            for rep in (0, 1):
                for e, children in zip(elems, DummyElement.uniform_refinement(elems)):
                    if any(universe.aspect(c) > ASPECT for c in children):
                        continue
                    S4r = SL.bilform_matrix(children, children)
                    if rep == 0:
                        blocks[id(e)] = S4r
                        continue
                    if not np.array_equal(S4r, blocks[id(e)]):
                        out['unstable'] = out.get('unstable', 0) + 1
                    l4r = lam_min(S4r) if np.all(np.diag(S4r) > 0) else float('-inf')
                    sc_bad = [float(np.array(c) @ (S4r @ np.array(c).T)) for c in COEFS if not float(np.array(c) @ (S4r @ np.array(c).T)) > 0]
                    if not l4r > LAMBDA_MIN or sc_bad:
                        out['viols'].append(('child-block-after-operator-history', {'cfg': cfgname, 'history': h, 'uniform': uniform, 'pw_exact': sw,
                                                                                    'lambda_min': l4r, 'elem': [e.time_interval, e.space_interval]}))
                        break
            A2 = SL.bilform_matrix(elems, elems)
            if not np.array_equal(A2, A):
                out['unstable'] = out.get('unstable', 0) + 1
            lam2 = lam_min(A2) if np.all(np.diag(A2) > 0) else float('-inf')
            if not lam2 > LAMBDA_MIN:
                out['viols'].append(('not-positive-definite-after-operator-history', {'cfg': cfgname, 'history': h, 'uniform': uniform, 'pw_exact': sw,
                                                                                      'lambda_min': lam2, 'lambda_min_first_assembly': lam}))
            for e, children in zip(elems, DummyElement.uniform_refinement(elems)):
                if any(universe.aspect(c) > ASPECT for c in children):
                    continue
                S4 = SL.bilform_matrix(children, children)
                out['blocks'] += 1
                bad = None
                l4 = lam_min(S4)
                if not l4 > LAMBDA_MIN:
                    bad = ('child-block-lambda', l4)
                for c in COEFS:
                    c = np.array(c)
                    sc = float(c @ (S4 @ c.T))
                    if not sc > 0:
                        bad = ('scaling-not-positive', sc)
                if bad:
                    out['viols'].append((bad[0], {'cfg': cfgname, 'history': h, 'uniform': uniform, 'pw_exact': sw, 'value': bad[1],
                                                  'elem': [e.time_interval, e.space_interval]}))
    out['viols'] = out['viols'][:3]
    return out


GRAPHS = {'quick': {'UnitSquare': 3, 'PiSquare': 2, 'LShape': 2, 'Circle': 3, 'LShapeDriver': 1, 'UnitSquare2': 1, 'Circle2': 1,
                    'UnitSquareT': 1, 'CircleT': 1, 'UnitSquareX': 1, 'UnitSquareEnds': 1, 'StadiumFine': 0, 'BigCircleFine': 0, 'ThinRectFine': 0},  # custom non-uniform tensor grids, custom closed curves
          'thorough': {'UnitSquare': 3, 'PiSquare': 3, 'LShape': 2, 'Circle': 3, 'LShapeDriver': 2, 'UnitSquare2': 2, 'Circle2': 2, 'LShape2': 1,
                       'UnitSquareT': 2, 'CircleT': 2, 'UnitSquareX': 2, 'UnitSquareEnds': 2, 'StadiumFine': 1, 'BigCircleFine': 1, 'ThinRectFine': 1}}


def run(ctx):
    items = []
    per = {}
    for cfgname, d in GRAPHS[ctx.tier].items():
        hs = meshmc.all_states(ctx, cfgname, d, key='leaf')
        per[cfgname] = {'depth': d, 'leaf_set_distinct_states': len(hs)}
        items += [(cfgname, h, 0) for h in hs]
    # space-refined roots (elements long in time, short in space: strong coupling) with every single further bisection
    for cfgname in ('UnitSquare', 'Circle', 'PiSquare', 'LShapeDriver'):
        for k in ((2, 3) if ctx.tier == 'quick' else (1, 2, 3, 4)):
            if cfgname != 'UnitSquare' and ctx.tier == 'quick' and k == 3:
                continue
            root = meshmc.uniform_history(cfgname, k)
            hs = meshmc.all_states(ctx, cfgname, 1 if (ctx.tier == 'quick' or k == 4) else 2, key='leaf', root=root)
            per['{}+space{}'.format(cfgname, k)] = {'root_len': len(root), 'leaf_set_distinct_states': len(hs)}
            items += [(cfgname, h, 0) for h in hs]
    # alternating-time meshes: uniform space refinement, then every other element (in space order) bisected in time - spatially
    # adjacent elements alternate between two time levels (couplings between long-time and short-time neighbours accumulate)
    for cfgname in ('UnitSquare', 'Circle', 'PiSquare', 'LShapeDriver'):
        for k in ((2, ) if ctx.tier == 'quick' else (1, 2, 3)):
            root = meshmc.uniform_history(cfgname, k)
            mm = meshmc.build(CFGS[cfgname], root)
            rects = sorted((meshmc.rect_of(e) for e in mm.leaf_elements), key=lambda r: (r[2], r[0]))
            for phase in (0, 1):
                hh = root + tuple((r, 0) for i, r in enumerate(rects) if i % 2 == phase)
                items.append((cfgname, hh, 0))
            per['{}+space{}+alternating-time'.format(cfgname, k)] = {'leaves': len(rects)}
    # uniform refinements and deep roots
    for cfgname in ('UnitSquare', 'PiSquare', 'LShapeDriver', 'Circle'):
        for u in ((1, 2) if ctx.tier == 'quick' else (1, 2, 3)):
            items.append((cfgname, (), u))
        for name, root in meshmc.deep_histories(cfgname, 3 if ctx.tier == 'quick' else 4).items():
            items.append((cfgname, root, 0))
            if ctx.tier == 'thorough':
                items.append((cfgname, root, 1))
    # space-graded towards the start / end of the parameter interval (a corner of the polygons), 5 - 7 bisections: touching panels
    # of very different length on one straight side in every slab - where a wrong term of the closed forms no longer cancels
    for cfgname in ('UnitSquare', 'UnitSquare2', 'LShapeDriver', 'PiSquare'):
        for kk in ((5, 6) if ctx.tier == 'quick' else (5, 6, 7)):
            dh = meshmc.deep_histories(cfgname, kk)
            for name in ('seamL', 'seamR'):
                items.append((cfgname, dh[name], 0))
            per['{}+space-graded{}'.format(cfgname, kk)] = {'meshes': 2}
    res = pmap(task, items, ctx.jobs, chunksize=1)
    n = blocks = skipped = unstable = lifecycle = 0
    lams = []
    maxN = 0
    for it, r in zip(items, res):
        n += r['n']
        blocks += r['blocks']
        skipped += r['skipped']
        unstable += r.get('unstable', 0)
        lifecycle += r.get('lifecycle', 0)
        lams += r['lam']
        maxN = max(maxN, r['N'] if not r['skipped'] else 0)
        for tag, v in r['viols']:
            ctx.violation({'tag': tag, 'cfg': v['cfg'], 'pw_exact': v['pw_exact']}, '{}: {}'.format(tag, v), v)
    if n < 10 or blocks < 10:
        raise common.HarnessError('vacuous C13 run')
    cov = {'evaluations': n + blocks, 'distinct_nontrivial': n + blocks,
           'rule': 'one case = (leaf-set-distinct mesh, switch value) or (element child block, switch value); meshes with a leaf of aspect > 32 skipped',
           'meshes_x_switch': n, 'driver_lifecycle_assemblies_operator_created_before_refinement': lifecycle, 'child_blocks': blocks, 'meshes_skipped_by_aspect': skipped, 'observation_bitwise_unstable_results_along_operator_histories': unstable, 'per_graph': per,
           'smallest_lambda_min_seen': min(lams), 'largest_mesh': maxN,
           'samples': [{'cfg': items[1][0], 'history': list(items[1][1])}, {'cfg': items[-1][0], 'history': list(items[-1][1]), 'uniform': items[-1][2]}],
           'exhaustive': True}
    return ctx.finish('exploration', cov, ['meshes bounded by BFS depth / uniform level as listed'])


def replay(ctx, data):
    r = task((data['cfg'], tuple((tuple(rr), ax) for rr, ax in data['history']), data.get('uniform', 0)))
    print('lambda_min', r['lam'], r['viols'])
    return not r['viols']
