"""C13 - the symmetric part of the single-layer matrix is positive definite.

Exhaustive over every leaf-set-distinct mesh state of the bisection BFS graphs on the four closed curves (plus
uniform refinements and directed deep roots) whose leaves all have aspect <= 32: the matrix from bilform_matrix,
S = (A + A^T)/2, smallest eigenvalue of D^-1/2 S D^-1/2 > 0.01; every 4x4 child block of the hierarchical
estimator and its three scalings coefs^T S coefs > 0.  Both switch values."""
import numpy as np

from mc import common, meshmc, universe
from mc.common import pmap
from mc.meshmc import CFGS, build

from src.hierarchical_error_estimator import DummyElement
from src.single_layer import SingleLayerOperator

ASPECT = 32.0
LAMBDA_MIN = 0.01
COEFS = ([1, 1, -1, -1], [1, -1, 1, -1], [1, -1, -1, 1])


def lam_min(A):
    S = (A + A.T) / 2
    d = np.sqrt(np.diag(S))
    return float(np.linalg.eigvalsh(S / np.outer(d, d))[0])


def task(item):
    cfgname, h, uniform = item
    cfg = CFGS[cfgname]
    m = build(cfg, h)
    for _ in range(uniform):
        m.uniform_refine()
    elems = list(m.leaf_elements)
    out = {'n': 0, 'blocks': 0, 'viols': [], 'lam': [], 'skipped': 0, 'N': len(elems)}
    if any(universe.aspect(e) > ASPECT for e in elems):
        out['skipped'] = 1
        return out
    for sw in (False, True):
        SL = SingleLayerOperator(m, pw_exact=sw)
        try:
            A = SL.bilform_matrix(elems, elems)
            lam = lam_min(A)
        except Exception as ex:
            out['viols'].append(('raised', {'cfg': cfgname, 'history': h, 'uniform': uniform, 'pw_exact': sw, 'exc': repr(ex)}))
            continue
        out['n'] += 1
        out['lam'].append(lam)
        if not (lam > LAMBDA_MIN) or np.any(np.diag(A) <= 0):
            out['viols'].append(('not-positive-definite', {'cfg': cfgname, 'history': h, 'uniform': uniform, 'pw_exact': sw, 'lambda_min': lam, 'N': len(elems)}))
        if len(elems) <= 40 or sw is False:
            blocks = {}
            for rep in (0, 1):
                # second pass: NEW virtual children (the first ones have been freed) on the same operator must give the
                # same blocks bit for bit - an operator must not remember transient elements
                for e, children in zip(elems, DummyElement.uniform_refinement(elems)):
                    if any(universe.aspect(c) > ASPECT for c in children):
                        continue
                    S4r = SL.bilform_matrix(children, children)
                    if rep == 0:
                        blocks[id(e)] = S4r
                    elif not np.array_equal(S4r, blocks[id(e)]):
                        out['viols'].append(('operator-history-child-block', {'cfg': cfgname, 'history': h, 'uniform': uniform, 'pw_exact': sw,
                                                                              'elem': [e.time_interval, e.space_interval]}))
                        break
            A2 = SL.bilform_matrix(elems, elems)
            Afresh = SingleLayerOperator(m, pw_exact=sw).bilform_matrix(elems, elems)
            if not (np.array_equal(A2, A) and np.array_equal(Afresh, A)):
                out['viols'].append(('operator-history-matrix', {'cfg': cfgname, 'history': h, 'uniform': uniform, 'pw_exact': sw,
                                                                 'detail': 're-assembly after serving the child blocks, or assembly by a fresh operator, differs'}))
            for e, children in zip(elems, DummyElement.uniform_refinement(elems)):
                if any(universe.aspect(c) > ASPECT for c in children):
                    continue
                S4 = SL.bilform_matrix(children, children)
                out['blocks'] += 1
                bad = None
                l4 = lam_min(S4)
                if not l4 > LAMBDA_MIN:
                    bad = ('child-block-lambda', l4)
                for c in COEFS:
                    c = np.array(c)
                    sc = float(c @ (S4 @ c.T))
                    if not sc > 0:
                        bad = ('scaling-not-positive', sc)
                if bad:
                    out['viols'].append((bad[0], {'cfg': cfgname, 'history': h, 'uniform': uniform, 'pw_exact': sw, 'value': bad[1],
                                                  'elem': [e.time_interval, e.space_interval]}))
    out['viols'] = out['viols'][:3]
    return out


GRAPHS = {'quick': {'UnitSquare': 3, 'PiSquare': 2, 'LShape': 2, 'Circle': 3, 'LShapeDriver': 1, 'UnitSquare2': 1, 'Circle2': 1},
          'thorough': {'UnitSquare': 3, 'PiSquare': 3, 'LShape': 2, 'Circle': 3, 'LShapeDriver': 2, 'UnitSquare2': 2, 'Circle2': 2, 'LShape2': 1}}


def run(ctx):
    items = []
    per = {}
    for cfgname, d in GRAPHS[ctx.tier].items():
        hs = meshmc.all_states(ctx, cfgname, d, key='leaf')
        per[cfgname] = {'depth': d, 'leaf_set_distinct_states': len(hs)}
        items += [(cfgname, h, 0) for h in hs]
    # space-refined roots (elements long in time, short in space: strong coupling) with every single further bisection
    for cfgname in ('UnitSquare', 'Circle', 'PiSquare', 'LShapeDriver'):
        for k in ((2, 3) if ctx.tier == 'quick' else (1, 2, 3, 4)):
            if cfgname != 'UnitSquare' and ctx.tier == 'quick' and k == 3:
                continue
            root = meshmc.uniform_history(cfgname, k)
            hs = meshmc.all_states(ctx, cfgname, 1 if (ctx.tier == 'quick' or k == 4) else 2, key='leaf', root=root)
            per['{}+space{}'.format(cfgname, k)] = {'root_len': len(root), 'leaf_set_distinct_states': len(hs)}
            items += [(cfgname, h, 0) for h in hs]
    # uniform refinements and deep roots
    for cfgname in ('UnitSquare', 'PiSquare', 'LShapeDriver', 'Circle'):
        for u in ((1, 2) if ctx.tier == 'quick' else (1, 2, 3)):
            items.append((cfgname, (), u))
        for name, root in meshmc.deep_histories(cfgname, 3 if ctx.tier == 'quick' else 4).items():
            items.append((cfgname, root, 0))
            if ctx.tier == 'thorough':
                items.append((cfgname, root, 1))
    res = pmap(task, items, ctx.jobs, chunksize=1)
    n = blocks = skipped = 0
    lams = []
    maxN = 0
    for it, r in zip(items, res):
        n += r['n']
        blocks += r['blocks']
        skipped += r['skipped']
        lams += r['lam']
        maxN = max(maxN, r['N'] if not r['skipped'] else 0)
        for tag, v in r['viols']:
            ctx.violation({'tag': tag, 'cfg': v['cfg'], 'pw_exact': v['pw_exact']}, '{}: {}'.format(tag, v), v)
    if n < 10 or blocks < 10:
        raise common.HarnessError('vacuous C13 run')
    cov = {'evaluations': n + blocks, 'distinct_nontrivial': n + blocks,
           'rule': 'one case = (leaf-set-distinct mesh, switch value) or (element child block, switch value); meshes with a leaf of aspect > 32 skipped',
           'meshes_x_switch': n, 'child_blocks': blocks, 'meshes_skipped_by_aspect': skipped, 'per_graph': per,
           'smallest_lambda_min_seen': min(lams), 'largest_mesh': maxN,
           'samples': [{'cfg': items[1][0], 'history': list(items[1][1])}, {'cfg': items[-1][0], 'history': list(items[-1][1]), 'uniform': items[-1][2]}],
           'exhaustive': True}
    return ctx.finish('exploration', cov, ['meshes bounded by BFS depth / uniform level as listed'])


def replay(ctx, data):
    r = task((data['cfg'], tuple((tuple(rr), ax) for rr, ax in data['history']), data.get('uniform', 0)))
    print('lambda_min', r['lam'], r['viols'])
    return not r['viols']
