"""C09 - Sobolev and weighted-L2 indicators equal their definition on every patch.

Universe: four closed curves x every leaf-set-distinct mesh state of the bisection BFS graph x every element x the
residual family of mc/oracle_slobo.FAMILY x quadrature orders.  For every element the list of patch contributions
returned by sobolev_space / sobolev_time is compared, patch by patch, with an independent evaluation of the double
integral on the GEOMETRIC union patch (neighbours taken from the reference mesh, seam identified):
  * polynomial residual, patch on one straight piece, degrees inside the exactness range of the order: 1e-8 relative;
  * everything else (curved piece, patch across a corner or the seam, trigonometric/exponential residual): 1e-4 at
    order 17.
Residuals that are polynomial in the parameter x_hat are discontinuous across the closing seam (x_hat jumps from L to
0) and are therefore not used on seam patches.  Further: neighbour sets, weighted L2 against exact/high-order
integrals, estimate_sobolev (symmetry shortcut) == direct per-element sums, rigid symmetries of curve and residual
permute the indicators."""
import math

import numpy as np

from mc import common, meshmc, oracle_slobo as OS
from mc.common import pmap
from mc.meshmc import CFGS, build, curve, leaf6
from mc.refmesh import ref_from_leaves

import src.error_estimator as EE
from src.error_estimator import ErrorEstimator

EE.print = lambda *a, **k: None

POLY_ORDERS = (1, 3, 5, 7, 9, 11, 13, 15, 17, 19)
SMOOTH_ORDER = 17
_memo = {}


def piece_of(g, e6):
    for i in range(len(g.pw_gamma)):
        if g.pw_start[i] <= e6[2] and e6[3] <= g.pw_start[i + 1]:
            return i
    raise ValueError(e6)


_STRAIGHT = {}


def piece_class(g, e6):
    """'straight' / 'curved' for the piece carrying the leaf (by geometry: three collinear points), so that custom curves
    mixing straight and curved pieces are classified piece by piece."""
    i = piece_of(g, e6)
    k = (id(g), i)
    if k not in _STRAIGHT:
        a, b = float(g.pw_start[i]), float(g.pw_start[i + 1])
        P_ = np.asarray(g.pw_gamma[i](np.array([a, a + 0.3 * (b - a), a + 0.7 * (b - a)])), dtype=float)
        u, v = P_[:, 1] - P_[:, 0], P_[:, 2] - P_[:, 0]
        _STRAIGHT[k] = abs(u[0] * v[1] - u[1] * v[0]) <= 1e-12 * (b - a)**2
    return 'straight' if _STRAIGHT[k] else 'curved'


def arc_segments(g, e1, e2):
    """Union arc of two space-adjacent leaves (or one leaf) as ordered segments; also its class."""
    L = float(g.gamma_length)
    if e2 is None:
        return [(g.pw_gamma[piece_of(g, e1)], e1[2], e1[3])], piece_class(g, e1)
    if e1[3] == e2[2]:
        first, second, seam = e1, e2, False
    elif e2[3] == e1[2]:
        first, second, seam = e2, e1, False
    elif e1[3] == L and e2[2] == 0:
        first, second, seam = e1, e2, True
    elif e2[3] == L and e1[2] == 0:
        first, second, seam = e2, e1, True
    else:
        raise ValueError(('not adjacent', e1, e2))
    p1, p2 = piece_of(g, first), piece_of(g, second)
    if p1 == p2 and not seam:
        return [(g.pw_gamma[p1], first[2], second[3])], piece_class(g, first)
    return [(g.pw_gamma[p1], first[2], first[3]), (g.pw_gamma[p2], second[2], second[3])], 'seam' if seam else 'corner'


def space_oracle(g, res, e, n):
    ta, tb = max(e[0], n[0]) if n else e[0], min(e[1], n[1]) if n else e[1]
    segs, cl = arc_segments(g, e, n)
    key = ('s', res.name, ta, tb, tuple((id(s[0]), s[1], s[2]) for s in segs))
    if key not in _memo:
        _memo[key] = OS.space_patch(res, ta, tb, segs)
    return _memo[key], cl


def time_oracle(g, res, e, n):
    xa, xb = (max(e[2], n[2]), min(e[3], n[3])) if n else (e[2], e[3])
    ta, tb = (min(e[0], n[0]), max(e[1], n[1])) if n else (e[0], e[1])
    gam = g.pw_gamma[piece_of(g, e)]
    key = ('t', res.name, ta, tb, xa, xb, id(gam))
    if key not in _memo:
        _memo[key] = OS.time_patch(res, ta, tb, xa, xb, gam)
    return _memo[key], piece_class(g, e)


def l2_oracle(g, res, e):
    gam = g.pw_gamma[piece_of(g, e)]
    key = ('l', res.name, e[:4], id(gam))
    if key not in _memo:
        _memo[key] = OS.l2_patch(res, e[0], e[1], e[2], e[3], gam)
    return _memo[key]


def tol_for(res, cl, order, kind):
    """(tolerance, applies) for a patch of class cl at the given order; kind in 'space','time','l2'."""
    poly = res.deg_x is not None
    if poly and cl == 'straight':
        if kind == 'space':
            ok = res.deg_x <= (order - 1) // 2 and 2 * res.deg_t <= order
        elif kind == 'time':
            ok = res.deg_t <= (order - 1) // 2 and 2 * res.deg_x <= order
        else:
            ok = 2 * res.deg_t <= order and 2 * res.deg_x <= order
        if ok:
            return 1e-8, True
    if order == SMOOTH_ORDER:
        return 1e-4, True
    return None, False


def task(item):
    cfgname, h = item
    cfg = CFGS[cfgname]
    g = curve(cfg[1])
    L = float(g.gamma_length)
    m = build(cfg, h)
    elems = list(m.leaf_elements)
    by_idx = {e.glob_idx: e for e in elems}
    ref = ref_from_leaves(meshmc.build_ref(cfg, ()), [leaf6(e) for e in elems])
    out = {'n': 0, 'viols': [], 'classes': {}, 'nbr_checks': 0}

    def add(tag, rec):
        if len(out['viols']) < 4:
            rec.update(cfg=cfgname, history=h)
            out['viols'].append((tag, rec))

    def stat(cl, err):
        c = out['classes'].setdefault(cl, [0, 0.0])
        c[0] += 1
        c[1] = max(c[1], err)

    # construction history: estimators with OTHER order tuples (sharing three of the four orders with the ones under test, the
    # fourth being 1) are created first in this process and stay alive - rule objects shared between instances would show up as
    # wrong orders in the estimators under test (the driver itself passes a tuple, e.g. 5355)
    decoys = [ErrorEstimator(m, N_poly=tuple(1 if k == pos else N for k in range(4))) for N in POLY_ORDERS for pos in (3, 2, 1, 0)]  # the tuple differing in the LAST order first (first-wins caches)
    out['decoys'] = len(decoys)
    ests = {N: ErrorEstimator(m, N_poly=N) for N in POLY_ORDERS}
    decoys += [ErrorEstimator(m, N_poly=tuple((3 if N != 3 else 7) if k == pos else N for k in range(4))) for N in POLY_ORDERS for pos in range(4)]  # ... and afterwards
    out['decoys'] = len(decoys)
    for e in elems:
        e6 = leaf6(e)
        geo_space = sorted(set(ref.nbrs(e6, 1) + ref.nbrs(e6, 3)))
        geo_time = sorted(set(ref.nbrs(e6, 0) + ref.nbrs(e6, 2)))
        for res in OS.family_for(L):
            for N in POLY_ORDERS:
                est = ests[N]
                # ---- space indicator (H^1/2 over the union with each space neighbour)
                try:
                    tot, ips = est.sobolev_space(e, res.fun)
                except Exception as ex:
                    add('sobolev_space-raised', {'elem': e6, 'residual': res.name, 'order': N, 'exc': repr(ex)})
                    ips = None
                if ips is not None:
                    got_nb = sorted(leaf6(by_idx[i]) for i, _ in ips if i != e.glob_idx)
                    out['nbr_checks'] += 1
                    if got_nb != geo_space or sum(1 for i, _ in ips if i == e.glob_idx) != 1:
                        add('space-patch-set', {'elem': e6, 'got': got_nb, 'expected': geo_space})
                    if tot != math.fsum(v for _, v in ips):
                        add('space-sum', {'elem': e6, 'residual': res.name, 'order': N})
                    for i, v in ips:
                        n6 = None if i == e.glob_idx else leaf6(by_idx[i])
                        segs_cl = arc_segments(g, e6, n6)[1]
                        if segs_cl == 'seam' and not res.geometric:
                            continue
                        tol, applies = tol_for(res, segs_cl, N, 'space')
                        if not applies:
                            continue
                        exact, cl = space_oracle(g, res, e6, n6)
                        out['n'] += 1
                        err = abs(v - exact) / max(abs(exact), 1e-13)
                        if abs(v - exact) <= 1e-13:
                            err = 0.0
                        stat('space|' + cl + ('|poly' if tol == 1e-8 else '|smooth'), err)
                        if not err <= tol:
                            add('space-patch-value', {'elem': e6, 'nbr': n6, 'residual': res.name, 'order': N, 'class': cl,
                                                      'value': float(v), 'exact': exact, 'err': err, 'tol': tol})
                # ---- time indicator (H^1/4 over the union with each time neighbour)
                try:
                    tot, ips = est.sobolev_time(e, res.fun)
                except Exception as ex:
                    add('sobolev_time-raised', {'elem': e6, 'residual': res.name, 'order': N, 'exc': repr(ex)})
                    ips = None
                if ips is not None:
                    got_nb = sorted(leaf6(by_idx[i]) for i, _ in ips if i != e.glob_idx)
                    out['nbr_checks'] += 1
                    if got_nb != geo_time or sum(1 for i, _ in ips if i == e.glob_idx) != 1:
                        add('time-patch-set', {'elem': e6, 'got': got_nb, 'expected': geo_time})
                    if tot != math.fsum(v for _, v in ips):
                        add('time-sum', {'elem': e6, 'residual': res.name, 'order': N})
                    for i, v in ips:
                        n6 = None if i == e.glob_idx else leaf6(by_idx[i])
                        cl0 = piece_class(g, e6)
                        tol, applies = tol_for(res, cl0, N, 'time')
                        if not applies:
                            continue
                        exact, cl = time_oracle(g, res, e6, n6)
                        out['n'] += 1
                        err = abs(v - exact) / max(abs(exact), 1e-13)
                        if abs(v - exact) <= 1e-13:
                            err = 0.0
                        stat('time|' + cl + ('|poly' if tol == 1e-8 else '|smooth'), err)
                        if not err <= tol:
                            add('time-patch-value', {'elem': e6, 'nbr': n6, 'residual': res.name, 'order': N, 'class': cl,
                                                     'value': float(v), 'exact': exact, 'err': err, 'tol': tol})
                # ---- weighted L2
                cl0 = piece_class(g, e6)
                tol, applies = tol_for(res, cl0, N, 'l2')
                if applies:
                    try:
                        wt, ws = est.weighted_l2(e, res.fun)
                        exact = l2_oracle(g, res, e6)
                        ht, hx = e6[1] - e6[0], e6[3] - e6[2]
                        out['n'] += 1
                        for nm, v, ex_ in (('time', wt, exact / math.sqrt(ht)), ('space', ws, exact / hx)):
                            err = abs(v - ex_) / max(abs(ex_), 1e-13)
                            stat('l2|' + cl0 + ('|poly' if tol == 1e-8 else '|smooth'), err)
                            if not err <= tol:
                                add('weighted-l2-value', {'elem': e6, 'which': nm, 'residual': res.name, 'order': N, 'value': float(v), 'exact': ex_, 'err': err})
                    except Exception as ex:
                        add('weighted_l2-raised', {'elem': e6, 'residual': res.name, 'order': N, 'exc': repr(ex)})
    # ---- estimate_sobolev (neighbour-symmetry shortcut) == direct per-element sums; estimate_weighted_l2 == per-element
    natural = list(elems)
    orders_ = [('natural', natural), ('reversed', natural[::-1]), ('by-slab', sorted(natural, key=lambda e_: (e_.time_interval, e_.space_interval))),
               ('by-arc', sorted(natural, key=lambda e_: (e_.space_interval, e_.time_interval)))]
    for N, (oname, elems) in [(N_, o_) for N_ in (5, 17) for o_ in orders_ if N_ == 5 or o_[0] == 'natural']:
        est = ests[N]
        for res in (OS.BYNAME['sin(2*X2)*t'], OS.BYNAME['exp(X1)'], OS.BYNAME['t^2']):
            try:
                S = est.estimate_sobolev(elems, res.fun, use_mp=False)
                W = est.estimate_weighted_l2(elems, res.fun, use_mp=False)
            except Exception as ex:
                add('estimate-raised', {'residual': res.name, 'order': N, 'list_order': oname, 'exc': repr(ex)})
                continue
            for i, e in enumerate(elems):
                dt = est.sobolev_time(e, res.fun, nbrs_symmetry=False)[0]
                ds = est.sobolev_space(e, res.fun, nbrs_symmetry=False)[0]
                out['n'] += 1
                sc = max(abs(dt), abs(ds), 1e-300)
                if abs(S[i, 0] - dt) > 1e-12 * max(abs(dt), 1e-15 * sc) + 1e-16 * sc or abs(S[i, 1] - ds) > 1e-12 * max(abs(ds), 1e-15 * sc) + 1e-16 * sc:
                    add('symmetry-shortcut', {'elem': leaf6(e), 'residual': res.name, 'order': N, 'list_order': oname, 'shortcut': [float(S[i, 0]), float(S[i, 1])], 'direct': [float(dt), float(ds)]})
                w = est.weighted_l2(e, res.fun)
                if tuple(W[i]) != tuple(w):
                    add('estimate_weighted_l2-differs', {'elem': leaf6(e), 'residual': res.name, 'order': N, 'list_order': oname})
    elems = natural
    return out


# ---- pool call histories ---------------------------------------------------------------------------------
def pool_history_task(item):
    """Successive pool calls on ONE estimator with the SAME element list object and DIFFERENT residuals (fork-faithful virtual
    pool): every call must equal the serial evaluation of the residual it was given."""
    from mc import vpool
    cfgname, h = item
    cfg = CFGS[cfgname]
    g = curve(cfg[1])
    L = float(g.gamma_length)
    m = build(cfg, h)
    elems = list(m.leaf_elements)
    ctl = vpool.install()
    fam = [OS.BYNAME['t'], OS.BYNAME['exp(X1)'], OS.family_for(L)[-1], OS.BYNAME['sin(2*X2)*t']]
    out = {'n': 0, 'viols': []}
    # one window around each history: pools that the code keeps alive between calls stay alive (a correct implementation may do
    # that); they are reaped only at the end of the history.  Histories: every ordered pair of calls (fn1, r1) -> (fn2, r2) with
    # different residuals on a fresh estimator, plus one long alternating history.
    fns = ('estimate_weighted_l2', 'estimate_sobolev')
    serial = {}

    def want(fn, res):
        if (fn, res.name) not in serial:
            serial[(fn, res.name)] = np.asarray(getattr(ErrorEstimator(m, N_poly=5), fn)(elems, res.fun, use_mp=False))
        return serial[(fn, res.name)]

    def run_history(calls, cpu):
        est = ErrorEstimator(m, N_poly=5)
        with ctl.window():
            ctl.configure(cpu=cpu, assign=None)
            for k, (fn, res) in enumerate(calls):
                out['n'] += 1
                try:
                    got = np.asarray(getattr(est, fn)(elems, res.fun, use_mp=True))
                    bad = None if np.array_equal(got, want(fn, res)) else 'pool result differs from the serial evaluation of the same residual'
                except Exception as ex:
                    bad = 'raised {!r}'.format(ex)
                if bad and len(out['viols']) < 3:
                    out['viols'].append(('pool-call-history', {'cfg': cfgname, 'history': h, 'fn': fn, 'residual': res.name, 'cpu': cpu,
                                                               'calls': [(f, r.name) for f, r in calls[:k + 1]], 'detail': bad}))
                    return

    r1, r2 = fam[1], fam[2]
    for cpu in (1, 3):
        for f1 in fns:
            for f2 in fns:
                run_history([(f1, r1), (f2, r2)], cpu)
        run_history([(fn, res) for res in fam for fn in fns] + [(fn, res) for res in reversed(fam) for fn in reversed(fns)], cpu)
    return out


# ---- rigid symmetries ----------------------------------------------------------------------------------
def rot_history(cfgname, h, shift, L):
    out = []
    for (t0, t1, x0, x1), ax in h:
        a, b = x0 + shift, x1 + shift
        if a >= L:
            a, b = a - L, b - L
        out.append(((t0, t1, a, b), ax))
    return tuple(out)


def symmetry_task(item):
    cfgname, h = item
    cfg = CFGS[cfgname]
    g = curve(cfg[1])
    L = float(g.gamma_length)
    cname = cfg[1]
    if cname == 'LShape':
        return {'n': 0, 'viols': []}
    side = L / 4
    # rotation R about the centre by +90 degrees maps gamma(x) to gamma(x + L/4) on the squares and the circle
    c = np.array([[0.0], [0.0]]) if cname == 'Circle' else np.array([[side / 2], [side / 2]])

    def Rinv(X):
        Y = X - c
        return np.vstack([Y[1], -Y[0]]) + c

    res = OS.BYNAME['exp(X1)']
    res2 = OS.Residual('exp(X1)oRinv', lambda t, xh, X: np.exp(Rinv(X)[0]) + 0 * t, 0, None, True)
    res_t = OS.BYNAME['sin(2*X2)*t']
    res_t2 = OS.Residual('sin(2X2)t o Rinv', lambda t, xh, X: np.sin(2 * Rinv(X)[1]) * t, 1, None, True)
    out = {'n': 0, 'viols': []}
    try:
        h2 = rot_history(cfgname, h, side, L)
        m1, m2 = build(cfg, h), build(cfg, tuple((tuple(float(np.float64(v)) for v in r), ax) for r, ax in h2))
    except KeyError:
        return out  # rotated coordinates are not representable exactly (pi square rounding): skip
    e1 = list(m1.leaf_elements)
    e2 = list(m2.leaf_elements)
    pos2 = {}
    for j, e in enumerate(e2):
        pos2[(e.time_interval, tuple(round(x, 9) for x in e.space_interval))] = j
    for N in (5, 9):
        E1, E2 = ErrorEstimator(m1, N_poly=N), ErrorEstimator(m2, N_poly=N)
        for ra, rb in ((res, res2), (res_t, res_t2)):
            A = E1.estimate_sobolev(e1, ra.fun)
            B = E2.estimate_sobolev(e2, rb.fun)
            W1 = E1.estimate_weighted_l2(e1, ra.fun)
            W2 = E2.estimate_weighted_l2(e2, rb.fun)
            sc = max(float(np.max(np.abs(A))), 1e-300)
            for i, e in enumerate(e1):
                a, b = e.space_interval[0] + side, e.space_interval[1] + side
                if a >= L - 1e-9:
                    a, b = a - L, b - L
                j = pos2.get((e.time_interval, (round(a, 9), round(b, 9))))
                out['n'] += 1
                if j is None:
                    out['viols'].append(('symmetry-image-missing', {'cfg': cfgname, 'history': h, 'elem': leaf6(e)}))
                    continue
                if np.max(np.abs(A[i] - B[j])) > 1e-9 * sc or np.max(np.abs(W1[i] - W2[j])) > 1e-9 * max(float(np.max(np.abs(W1))), 1e-300):
                    out['viols'].append(('symmetry-indicator', {'cfg': cfgname, 'history': h, 'elem': leaf6(e), 'order': N, 'residual': ra.name,
                                                                'indicator': A[i].tolist(), 'image_indicator': B[j].tolist()}))
    out['viols'] = out['viols'][:3]
    return out


GRAPHS = {'quick': {'UnitSquare': 1, 'PiSquare': 1, 'LShape': 1, 'Circle': 1, 'BigCircleFine': 0, 'StadiumFine': 0, 'ThinRectFine': 0},  # + custom closed curves
          'thorough': {'UnitSquare': 2, 'PiSquare': 2, 'LShape': 2, 'Circle': 2, 'LShapeDriver': 1, 'UnitSquare2': 1, 'Circle2': 1,
                       'BigCircleFine': 1, 'StadiumFine': 1, 'ThinRectFine': 1}}


def run(ctx):
    OS.selftest()
    items = []
    per = {}
    for cfgname, d in GRAPHS[ctx.tier].items():
        hs = meshmc.all_states(ctx, cfgname, d, key='leaf')
        per[cfgname] = {'depth': d, 'states': len(hs)}
        items += [(cfgname, h) for h in hs]
    res = pmap(task, items, ctx.jobs, chunksize=1)
    n = 0
    classes = {}
    nb = 0
    for it, r in zip(items, res):
        n += r['n']
        nb += r['nbr_checks']
        for k, (c, mx) in r['classes'].items():
            cc = classes.setdefault(k, [0, 0.0])
            cc[0] += c
            cc[1] = max(cc[1], mx)
        for tag, v in r['viols']:
            ctx.violation({'tag': tag, 'curve': CFGS[v['cfg']][1], 'class': v.get('class'), 'residual_geometric': None},
                          '{}: {}'.format(tag, v), dict(v, tag=tag))
    sitems = [it for it in items if CFGS[it[0]][1] in ('UnitSquare', 'Circle', 'PiSquare')]
    resS = pmap(symmetry_task, sitems, ctx.jobs, chunksize=1)
    ns = 0
    for r in resS:
        ns += r['n']
        for tag, v in r['viols']:
            ctx.violation({'tag': tag, 'curve': CFGS[v['cfg']][1]}, '{}: {}'.format(tag, v), dict(v, tag=tag))
    pitems = [(c, ()) for c in GRAPHS[ctx.tier]]
    resP = pmap(pool_history_task, pitems, ctx.jobs, chunksize=1)
    npool = 0
    for r in resP:
        npool += r['n']
        for tag, v in r['viols']:
            ctx.violation({'tag': tag, 'curve': CFGS[v['cfg']][1], 'fn': v['fn']}, '{}: {}'.format(tag, v), dict(v, tag=tag))
    need = ['space|straight|poly', 'space|corner|smooth', 'space|seam|smooth', 'space|curved|smooth', 'time|straight|poly', 'time|curved|smooth', 'l2|straight|poly']
    missing = [c for c in need if c not in classes]
    if missing or not ns:
        raise common.HarnessError('vacuity guard C09: missing {} symmetry {}'.format(missing, ns))
    cov = {'evaluations': n + ns + npool, 'distinct_nontrivial': n + ns + npool,
           'rule': 'one case = (mesh state, element, residual, order, patch) whose class/order combination carries a tolerance in the property; '
                   'plus (mesh, element) pairs of the shortcut and symmetry clauses; distinct by construction',
           'per_graph': per, 'neighbour_set_checks': nb,
           'class_count_and_worst_relative_error': {k: [v[0], float('%.3g' % v[1])] for k, v in sorted(classes.items())},
           'symmetry_element_checks': ns, 'pool_history_calls': npool, 'orders': list(POLY_ORDERS), 'residual_family': [r.name for r in OS.FAMILY] + ['cos(k*xh)+t*sin(2k*xh), k=2pi/L (x_hat-dependent, continuous across the seam)'],
           'samples': [{'cfg': items[0][0], 'history': list(items[0][1]), 'residual': 't*x', 'order': 5},
                       {'cfg': items[-1][0], 'history': list(items[-1][1]), 'residual': 'exp(X1)', 'order': 17}],
           'exhaustive': True}
    return ctx.finish('exploration', cov, ['patch oracle mc/oracle_slobo.py (self-tested against exact rational closed forms on every run)',
                                           'pool path: covered by C17 (virtual pool schedules of the two estimator maps)'])


def replay(ctx, data):
    r = task((data['cfg'], tuple((tuple(rr), ax) for rr, ax in data['history'])))
    for v in r['viols']:
        print(v)
    if data.get('tag') == 'pool-call-history':
        r3 = pool_history_task((data['cfg'], tuple((tuple(rr), ax) for rr, ax in data['history'])))
        print(r3['viols'])
        return not r3['viols']
    if data.get('tag', '').startswith('symmetry-'):
        r2 = symmetry_task((data['cfg'], tuple((tuple(rr), ax) for rr, ax in data['history'])))
        print(r2['viols'])
        return not r2['viols']
    return not r['viols']
