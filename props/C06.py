"""C06 - Doerfler marking refines a minimal bulk set, in exactly the marked directions.

Space explored (all exhaustive, on every fingerprint-distinct state of the listed BFS graphs):
  A. marking rule: every indicator vector over {0,1,2} (isotropic: 3^N; anisotropic: 3^(2N) for small N and all
     matrices with at most 3 non-zero entries beyond) x theta in {1/4, 1/2, 3/4, 0.9};
  B. closure: every non-empty subset S of the leaves as the marked set (indicator 1_S, theta = 0.99, which marks
     exactly S), isotropic; every pair (S_time, S_space) for the anisotropic variant;
  C. two marking steps in a row (thorough).
Oracle: the marks observed at the top-level refine calls form an admissible shortest prefix; the final leaf set
equals reference closure_space(closure_time(prev, marked_time), marked_space'); marked elements end up bisected in
the marked directions; the call never fails (under a horizon)."""
import itertools
from fractions import Fraction

import numpy as np

from mc import common, meshmc
from mc.meshmc import CFGS, Horizon, all_states, build, build_ref, horizon, leaf6, leafset
from mc.refmesh import halves, ref_from_leaves
from mc.meshcheck import check_neighbours, check_tiling

import src.mesh as M

THETAS = (0.25, 0.5, 0.75, 0.9)
TH2 = {0.25: Fraction(1, 16), 0.5: Fraction(1, 4), 0.75: Fraction(9, 16), 0.9: Fraction(81, 100), 0.99: Fraction(9801, 10000)}

_PRINTS = []
M.print = lambda *a, **k: _PRINTS.append(a[0] if a else '')


def contains(big, small):
    return big[0] <= small[0] and small[1] <= big[1] and big[2] <= small[2] and small[3] <= big[3]


# magnitudes: the marking is invariant under scaling of the indicators; powers of two scale every float operation of the
# criterion exactly, so the integer oracle stays valid (squared estimators of a converged run are of order 1e-10 and smaller)
SCALES = (2.0**-30, 2.0**-50, 2.0**-100, 2.0**40)


def lay_out(arr, layout):
    """The same indicator values in another memory layout (the property quantifies over indicator VALUES; a Fortran-ordered or
    strided array of the same shape holds the same indicators): 'F' = Fortran order, 'V' = non-contiguous view into a larger
    array whose other entries are large decoys."""
    if layout == 'C':
        return arr
    if layout == 'F':
        out = np.asfortranarray(arr) if arr.ndim == 2 else np.full(2 * len(arr), 1e6)[::2]
        if arr.ndim == 1:
            out[:] = arr
        return out
    big = np.full(tuple(2 * k for k in arr.shape), 1e6)
    view = big[::2, ::2] if arr.ndim == 2 else big[::2]
    view[...] = arr
    return view


def run_call(cfg, h, kind, eta, theta, scale=1.0, layout='C'):
    """Executes one Doerfler call on a fresh replay; returns (error or None, info)."""
    if scale != 1.0:
        eta = np.array(eta, dtype=float) * scale
    m = build(cfg, h)
    elems = list(m.leaf_elements)
    before = [leaf6(e) for e in elems]
    log = []
    del _PRINTS[:]
    try:
        with horizon(20000, log=log):
            if kind == 'iso':
                m.dorfler_refine_isotropic(lay_out(np.array(eta, dtype=float), layout), theta)
            else:
                m.dorfler_refine_anisotropic(lay_out(np.array(eta, dtype=float).reshape(len(elems), 2), layout), theta)
    except (Exception, Horizon) as ex:
        return ('raised', repr(ex)), None
    top = [(r, ax) for d, r, ax in log if d == 0]
    return None, (m, before, top, list(_PRINTS))


def oracle(ref, kind, eta, theta, m, before, top, prints):
    """Returns a violation tuple or None."""
    th2 = TH2[theta]
    idx = {b[:4]: i for i, b in enumerate(before)}
    b6 = {b[:4]: b for b in before}
    mt = [r for r, ax in top if ax == 0]
    ms = [r for r, ax in top if ax == 1]
    # --- which (element, axis) contributions were marked
    if any(r not in idx for r in mt) or len(set(mt)) != len(mt):
        return ('marked-time-not-leaf', mt)
    if kind == 'iso':
        vals = [Fraction(int(v)) for v in eta]
        marked = list(mt)
        mvals = [vals[idx[r]] for r in marked]
        unmarked_vals = [vals[i] for r, i in idx.items() if r not in set(marked)]
        # space phase must be exactly the time halves of the marked elements
        exp_ms = sorted(hh[:4] for r in marked for hh in halves(b6[r], 0))
        if sorted(ms) != exp_ms:
            return ('iso-space-phase', {'got': sorted(ms), 'expected': exp_ms})
        ms_orig = set(marked)
    else:
        vals2 = [[Fraction(int(v)) for v in row] for row in np.array(eta).reshape(len(before), 2)]
        ms_orig = set()
        for r in ms:
            cands = [b for b in idx if contains(b, r)]
            if len(cands) != 1:
                return ('aniso-space-mark-unmapped', r)
            o = cands[0]
            if r != o and r not in [hh[:4] for hh in halves(b6[o], 0)]:
                return ('aniso-space-mark-not-half', r)
            ms_orig.add(o)
        # if an original was replaced by its halves both halves must be present
        for o in ms_orig:
            got = [r for r in ms if contains(o, r)]
            if got != [o] and sorted(got) != sorted(hh[:4] for hh in halves(b6[o], 0)):
                return ('aniso-space-mark-partial', (o, got))
        marked = [(r, 0) for r in mt] + [(o, 1) for o in ms_orig]
        mvals = [vals2[idx[r]][ax] for r, ax in marked]
        mk = set(marked)
        unmarked_vals = [vals2[i][ax] for r, i in idx.items() for ax in (0, 1) if (r, ax) not in mk]
        vals = [v for row in vals2 for v in row]
    total = sum(vals)
    # --- (i) admissible shortest prefix of a descending order
    if total == 0:
        if len(marked) > 1:
            return ('prefix-zero-total', len(marked))
    else:
        if not marked:
            return ('prefix-empty', None)
        if unmarked_vals and min(mvals) < max(unmarked_vals):
            return ('prefix-not-descending', {'marked': list(map(int, mvals)), 'unmarked_max': int(max(unmarked_vals))})
        if sum(mvals) < th2 * total:
            return ('prefix-too-short', {'sum': int(sum(mvals)), 'total': int(total)})
        if sum(mvals) - min(mvals) >= th2 * total:
            return ('prefix-not-shortest', {'sum': int(sum(mvals)), 'min': int(min(mvals)), 'total': int(total)})
    # printed counts
    for p in prints:
        if isinstance(p, str) and p.startswith('Marked '):
            try:
                n = int(p.split()[1])
            except (ValueError, IndexError):
                continue  # a reworded message is not a property violation
            if ' / ' in p and n != len(marked):
                return ('printed-count', p)
            if 'time' in p and n != len(mt):
                return ('printed-count', p)
            if 'space' in p and n != len(ms_orig):
                return ('printed-count', p)
    # --- (ii) reference two-phase closure
    r = ref.copy()
    for e in sorted((b6[x] for x in mt), key=lambda e: (e[4], e)):
        if e in r.leaves:
            r.bisect(e, 0)
    targets = []
    for o in sorted(ms_orig):
        e = b6[o]
        if e in r.leaves:
            targets.append(e)
        else:
            targets.extend(halves(e, 0))
    for e in sorted(targets, key=lambda e: (e[5], e)):
        if e in r.leaves:
            r.bisect(e, 1)
    got = leafset(m)
    if got != r.leaves:
        return ('final-leaves', {'only_impl': sorted(got - r.leaves)[:4], 'only_ref': sorted(r.leaves - got)[:4]})
    # order independence of the reference itself (descending processing)
    r2 = ref.copy()
    for e in sorted((b6[x] for x in mt), key=lambda e: (-e[4], e), reverse=True):
        if e in r2.leaves:
            r2.bisect(e, 0)
    t2 = []
    for o in sorted(ms_orig, reverse=True):
        e = b6[o]
        t2.extend([e] if e in r2.leaves else halves(e, 0))
    for e in reversed(t2):
        if e in r2.leaves:
            r2.bisect(e, 1)
    if r2.leaves != r.leaves:
        raise common.HarnessError('reference Doerfler closure depends on processing order')
    # --- marked elements are bisected in the marked directions
    for x in mt:
        e = b6[x]
        if any(contains(e, g) and g[4] < e[4] + 1 for g in got):
            return ('marked-not-time-bisected', e)
    for o in ms_orig:
        e = b6[o]
        if any(contains(e, g) and g[5] < e[5] + 1 for g in got):
            return ('marked-not-space-bisected', e)
    return None


def vectors_iso(N, full_max):
    if N <= full_max:
        return itertools.product((0, 1, 2), repeat=N)
    return sparse_vectors(N, 3)


def sparse_vectors(n, k):
    """All vectors of length n over {0,1,2} with at most k non-zero entries (deviation bound)."""
    out = []
    for kk in range(k + 1):
        for pos in itertools.combinations(range(n), kk):
            for vs in itertools.product((1, 2), repeat=kk):
                v = [0] * n
                for p, x in zip(pos, vs):
                    v[p] = x
                out.append(tuple(v))
    return out


_W = {}


def work(item):
    cfgname, h, mode = item
    cfg = CFGS[cfgname]
    ref = build_ref(cfg, h)
    N = len(ref.leaves)
    P = _W['params']
    viols = []
    n = 0
    outcomes = set()
    classes = set()

    def one(kind, eta, theta, scale=1.0, layout='C'):
        nonlocal n
        n += 1
        err, info = run_call(cfg, h, kind, eta, theta, scale, layout)
        if err is None:
            m, before, top, prints = info
            err = oracle(ref, kind, eta, theta, m, before, top, prints)
            outcomes.add(common.digest(sorted(leafset(m))))
            if err is None and (sum(1 for v in eta if v) <= 1 or all(eta)):
                # full C02/C10 invariants (tiling, bookkeeping, neighbours) on the mesh a marking step leaves behind
                post = ref_from_leaves(ref, leafset(m))
                bad = check_tiling(m, post) + check_neighbours(m, post)
                if bad:
                    err = ('mesh-invariant-after-marking:' + bad[0][0], bad[0][1])
            classes.add((kind, len([1 for r, ax in top if ax == 0]), len([1 for r, ax in top if ax == 1])))
        if err is not None and len(viols) < 3:
            viols.append((err[0] + ('' if scale == 1.0 else '|scaled-indicators') + ('' if layout == 'C' else '|array-layout-' + layout),
                          {'cfg': cfgname, 'history': h, 'kind': kind, 'eta': list(map(int, eta)), 'theta': theta,
                           'scale': scale, 'layout': layout, 'detail': err[1]}))

    if mode == 'A':
        if N <= P['A_iso_max']:
            for v in vectors_iso(N, P['A_iso_full']):
                for th in THETAS:
                    one('iso', v, th)
                    if N <= P.get('A_scaled_max', 4):
                        for sc in SCALES:
                            one('iso', v, th, sc)
                one('iso', v, 0.75, layout='V')
        if N <= P.get('A_scaled_max', 4) // 2 + 1:
            for v in itertools.product((0, 1, 2), repeat=2 * N):
                for th in THETAS:
                    for sc in SCALES:
                        one('aniso', v, th, sc)
        if N <= P['A_aniso_max']:
            vs = itertools.product((0, 1, 2), repeat=2 * N) if N <= P['A_aniso_full'] else sparse_vectors(2 * N, 3)
            for v in vs:
                for th in THETAS:
                    one('aniso', v, th)
                # the same indicators in the other memory layouts (one theta: the layout can only change WHICH entry is read)
                one('aniso', v, 0.75, layout='F')
                if N <= P['A_aniso_full']:
                    one('aniso', v, 0.75, layout='V')
    elif mode == 'B':
        if N <= P['B_iso_max']:
            for bits in range(1, 2**N):
                one('iso', [(bits >> i) & 1 for i in range(N)], 0.99)
        if N <= P['B_aniso_max']:
            for bits in range(1, 4**N):
                one('aniso', [(bits >> i) & 1 for i in range(2 * N)], 0.99)
    elif isinstance(mode, tuple) and mode[0] == 'D':
        # very deep directed roots (time / space level 17 and more in one branch): every ORDERED pair of leaves (i, j) in the
        # index range of this item carries the indicators (3, 2), all other leaves 0; theta = 0.9 marks exactly {i, j}, i first
        lo, hi = mode[1], mode[2]
        lv = [max(e[4], e[5]) for e in sorted(ref.leaves)]
        # (the leaf order of the code under test is the order of `before` in run_call; indices here refer to that order, so the
        # deep leaves are selected by level through the real mesh)
        m_ = build(cfg, h)
        lv = [max(e.levels) for e in m_.leaf_elements]
        top = max(lv)
        for i in range(lo, min(hi, N)):
            if lv[i] < top - 4:
                continue  # i ranges over the leaves of the five deepest levels, j over ALL leaves
            for j in range(N):
                if i == j:
                    continue
                for a_, b_ in ((3, 2), (2, 3)):
                    v = [0] * N
                    v[i], v[j] = a_, b_
                    one('iso', v, 0.9)
                    for ax_i in (0, 1):
                        for ax_j in (0, 1):
                            w = [0] * (2 * N)
                            w[2 * i + ax_i], w[2 * j + ax_j] = a_, b_
                            one('aniso', w, 0.9)
    elif mode == 'C':
        # two marking steps on the SAME mesh object: every subset first (isotropic, or anisotropic with other magnitudes), then all
        # singletons, the full set and 'every other leaf' (isotropic and anisotropic) - state left behind by the first call
        # (scratch buffers, flags on elements) must not influence the second
        if N <= P['C_max']:
            def first(m, kind1, eta1):
                if kind1 == 'iso':
                    m.dorfler_refine_isotropic(np.array(eta1, dtype=float), 0.99)
                else:
                    m.dorfler_refine_anisotropic(np.array([3.0 * v for v in eta1 for _ in (0, 1)]).reshape(len(eta1), 2), 0.99)
            for kind1 in ('iso', 'aniso'):
                for bits in range(1, 2**N):
                    if N > P['C_full'] and bin(bits).count('1') > 1:
                        continue  # beyond C_full leaves: first-step marked sets of one element only (deviation bound 1)
                    eta1 = [(bits >> i) & 1 for i in range(N)]
                    m = build(cfg, h)
                    try:
                        with horizon(20000):
                            first(m, kind1, eta1)
                    except (Exception, Horizon) as ex:
                        continue  # reported by mode B
                    mid_leaves = [leaf6(e) for e in m.leaf_elements]
                    N1 = len(mid_leaves)
                    ref1 = ref_from_leaves(ref, mid_leaves)
                    seconds = [[1 if j == i else 0 for j in range(N1)] for i in range(N1)]
                    seconds += [[1] * N1, [j % 2 for j in range(N1)]]
                    for eta2 in seconds:
                        for kind, theta2 in (('iso', 0.99), ('aniso', 0.99), ('iso', 0.5)):
                            n += 1
                            log = []
                            m2 = build(cfg, h)
                            with horizon(20000):
                                first(m2, kind1, eta1)
                            before = [leaf6(e) for e in m2.leaf_elements]
                            assert before == mid_leaves
                            del _PRINTS[:]
                            e2 = eta2 if kind == 'iso' else [x for v in eta2 for x in (v, 1 - v if v else 0)]
                            try:
                                with horizon(20000, log=log):
                                    if kind == 'iso':
                                        m2.dorfler_refine_isotropic(np.array(e2, dtype=float), theta2)
                                    else:
                                        m2.dorfler_refine_anisotropic(np.array(e2, dtype=float).reshape(N1, 2), theta2)
                                top = [(r, ax) for d, r, ax in log if d == 0]
                                err = oracle(ref1, kind, e2, theta2, m2, before, top, list(_PRINTS))
                                outcomes.add(common.digest(sorted(leafset(m2))))
                            except (Exception, Horizon) as ex:
                                err = ('raised', repr(ex))
                            if err is not None and len(viols) < 3:
                                viols.append((err[0] + '-step2', {'cfg': cfgname, 'history': h, 'kind': kind, 'eta1': eta1, 'kind1': kind1,
                                                                  'eta': list(map(int, e2)), 'theta': theta2, 'detail': err[1]}))
    return viols, n, len(outcomes), sorted(classes)


PARAMS = {
    'quick': dict(A_iso_max=6, A_iso_full=6, A_aniso_max=5, A_aniso_full=3, B_iso_max=9, B_aniso_max=5, C_max=6, C_full=3,
                  graphs={'open1x1': 3, 'glued1x1': 3, 'glued2x1': 2, 'glued3x1': 2, 'UnitInterval': 3, 'UnitSquare': 1,
                          'Circle': 1, 'LShape': 1, 'PiSquare': 1, 'open_irreg3x3': 0, 'glued2x2': 1}),
    'thorough': dict(A_iso_max=8, A_iso_full=7, A_aniso_max=7, A_aniso_full=4, B_iso_max=12, B_aniso_max=6, C_max=8, C_full=5,
                     graphs={'open1x1': 4, 'glued1x1': 4, 'glued2x1': 3, 'glued3x1': 3, 'UnitInterval': 4,
                             'UnitSquare': 2, 'Circle': 2, 'LShape': 2, 'LShapeDriver': 1, 'PiSquare': 2,
                             'open_irreg3x3': 1, 'glued_irreg3x3': 1, 'glued2x2': 2, 'Circle2': 1}),
}


def run(ctx):
    P = PARAMS[ctx.tier]
    _W['params'] = P
    items = []
    nstates = 0
    per = {}
    for cfgname, d in P['graphs'].items():
        hs = all_states(ctx, cfgname, d)
        nstates += len(hs)
        per[cfgname] = {'depth': d, 'states': len(hs)}
        for h in hs:
            for mode in ('A', 'B', 'C'):
                items.append((cfgname, h, mode))
    # mode D: deep directed roots
    from mc.meshmc import deep_histories, deep_end_histories, build_ref as _bref
    deep_roots = [('UnitSquare', deep_histories('UnitSquare', 17)['t0']), ('UnitSquare', deep_end_histories('UnitSquare', 17)['xEnd'])]
    if ctx.tier == 'thorough':
        deep_roots += [('glued2x2', deep_histories('glued2x2', 20)['t0']), ('UnitSquare', deep_end_histories('UnitSquare', 18)['tEnd']),
                       ('UnitSquare', deep_end_histories('UnitSquare', 17, 3)['staircase'])]
    for cfgname, root in deep_roots:
        Nd = len(_bref(CFGS[cfgname], root).leaves)
        per.setdefault('deep_roots', []).append({'cfg': cfgname, 'root_len': len(root), 'leaves': Nd})
        step = max(1, Nd // (2 * ctx.jobs))
        for lo in range(0, Nd, step):
            items.append((cfgname, root, ('D', lo, lo + step)))
    res = common.pmap(work, items, ctx.jobs, chunksize=1)
    ncalls = 0
    nout = 0
    classes = set()
    samples = []
    by_mode = {'A': 0, 'B': 0, 'C': 0, 'D': 0}
    for it, (viols, n, no, cl) in zip(items, res):
        ncalls += n
        nout += no
        by_mode[it[2] if isinstance(it[2], str) else it[2][0]] += n
        classes.update(map(tuple, cl))
        for tag, rep in viols:
            ctx.violation({'tag': tag, 'kind': rep['kind']},
                          '{}: {} Doerfler on {} after {} with eta={} theta={}: {}'.format(
                              tag, rep['kind'], rep['cfg'], list(rep['history']), rep['eta'], rep['theta'], rep['detail']),
                          rep)
    if ncalls == 0 or not classes:
        raise common.HarnessError('C06 explored nothing')
    samples = [{'cfg': items[0][0], 'history': list(items[0][1]), 'mode': 'A', 'example_eta': [2, 0, 1], 'theta': 0.5},
               {'cfg': items[-1][0], 'history': list(items[-1][1]), 'mode': items[-1][2]}]
    cov = {
        'states': nstates, 'transitions': ncalls, 'traces_validated_against_impl': ncalls,
        'calls_by_mode': by_mode, 'distinct_final_meshes_summed_over_states': nout,
        'distinct_mark_count_classes': len(classes), 'per_config': per, 'params': {k: v for k, v in P.items() if k != 'graphs'},
        'samples': samples, 'exhaustive': True,
        'explanation': 'every fingerprint-distinct mesh state of the listed BFS graphs; on each, every indicator vector '
                       'of the bounded alphabet (A), every subset as marked set (B), two-step sequences (C); each call on '
                       'a fresh replay of the real mesh and compared with the reference marking rule and two-phase closure',
    }
    return ctx.finish('model_checking', cov, [
        'indicator alphabet {0,1,2} (all weak orders of the entries), theta in {1/4,1/2,3/4,0.9,0.99}',
        'memory layouts of the indicator array: C order everywhere; Fortran order and a strided view at theta = 3/4 in mode A',
        'for an all-zero indicator vector both "mark nothing" and "mark one element" are accepted'])


def replay(ctx, data):
    cfg = CFGS[data['cfg']]
    h = tuple((tuple(r), ax) for r, ax in data['history'])
    ref = build_ref(cfg, h)
    if 'eta1' in data:
        print('two-step replay: first step eta1 =', data['eta1'])
        m = build(cfg, h)
        if data.get('kind1', 'iso') == 'iso':
            m.dorfler_refine_isotropic(np.array(data['eta1'], dtype=float), 0.99)
        else:
            m.dorfler_refine_anisotropic(np.array([3.0 * v for v in data['eta1'] for _ in (0, 1)]).reshape(len(data['eta1']), 2), 0.99)
        from mc.refmesh import ref_from_leaves
        ref = ref_from_leaves(ref, [leaf6(e) for e in m.leaf_elements])
        log = []
        before = [leaf6(e) for e in m.leaf_elements]
        try:
            with horizon(20000, log=log):
                if data['kind'] == 'iso':
                    m.dorfler_refine_isotropic(np.array(data['eta'], dtype=float), data['theta'])
                else:
                    m.dorfler_refine_anisotropic(np.array(data['eta'], dtype=float).reshape(len(before), 2), data['theta'])
        except (Exception, Horizon) as ex:
            print('raised', repr(ex))
            return False
        err = oracle(ref, data['kind'], data['eta'], data['theta'], m, before, [(r, ax) for d, r, ax in log if d == 0], [])
    else:
        err, info = run_call(cfg, h, data['kind'], data['eta'], data['theta'], float(data.get('scale', 1.0)), data.get('layout', 'C'))
        if err is None:
            err = oracle(ref, data['kind'], data['eta'], data['theta'], *info)
    print('result:', err)
    return err is None
