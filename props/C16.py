"""C16 - domain quadtree: tiling, 2:1 balance, unique vertices, boundary-segment targeting.

(a) explicit-state BFS over all histories of InitialMesh.refine(leaf) on the three shipped domains, lock-step with the
    reference quadtree (mc/refquad.py); uniform_refine as a leaf transition at every state, under three iteration
    orders of the leaf set;
(b) the complete finite set of boundary-targeting calls refine_msh_bdr(v0, v1): every unit piece of the boundary x
    every dyadic segment [k/2^l,(k+1)/2^l], l <= L x every float realisation of the end points x both orientations x
    argument types (tuple, list, 2x1 array; int tuple where integral), on a fresh mesh and on BFS states.

What is demanded is what the property states.  Not demanded (only recorded in the evidence): that uniform_refine
completes on a non-uniform mesh (the property speaks about cell refinements), that targeting succeeds where the mesh
is already finer than the segment (impossible by refining; such (state, segment) pairs are skipped and counted)."""
import time

import numpy as np

from mc import common, quadmc
from mc.common import HarnessError
from mc.quadmc import (DOMS, Horizon, build, build_ref, check_signature, check_state, find_leaf, horizon, leaf5, leafset,
                       rect_of, with_order, xy)
from mc.refquad import DYADIC, P, RefQuad, dyadic_coord

QUICK = {'depth': {'UnitSquare': 5, 'PiSquare': 5, 'LShape': 4}, 'L': 6,
         'state_depth': {'UnitSquare': 3, 'PiSquare': 3, 'LShape': 2}, 'state_L': 3,
         'walks': 2, 'walk_steps': 40}
THOROUGH = {'depth': {'UnitSquare': 6, 'PiSquare': 6, 'LShape': 5}, 'L': 10,
            'state_depth': {'UnitSquare': 4, 'PiSquare': 4, 'LShape': 3}, 'state_L': 5,
            'walks': 8, 'walk_steps': 150}
HLIMIT = 5000
ORDERS = ('native', 'coarse-first', 'fine-first')


# ===================================================================================================
# (a) state function: invariants + uniform_refine as leaf transition
def uniform_ops(dom, h, ref):
    """uniform_refine on a fresh replay of the state, for the native and two adversarial iteration orders of the
    leaf set.  Completed: the result must be 'every leaf replaced by its quadrants' and satisfy all invariants.
    Raised: recorded (the property does not promise uniform_refine on non-uniform meshes), invariants of the
    interrupted mesh recorded as well."""
    errs = []
    extra = {'uniform_calls': 0, 'uniform_completed': 0, 'uniform_raised': {}, 'uniform_raised_corrupt': 0,
             'uniform_raised_examples': []}
    exp = ref.copy()
    exp.uniform()
    if exp.unbalanced():
        raise HarnessError('model: uniform refinement of a balanced mesh is not balanced')
    for order in ORDERS:
        m = build(dom, h)
        if order != 'native':
            with_order(m, order)
        extra['uniform_calls'] += 1
        try:
            with horizon(HLIMIT * 4):
                m.uniform_refine()
        except (Exception, Horizon) as ex:
            k = order + ':' + type(ex).__name__
            extra['uniform_raised'][k] = extra['uniform_raised'].get(k, 0) + 1
            if check_state(dom, m):
                extra['uniform_raised_corrupt'] += 1
            if len(h) <= 2:
                extra['uniform_raised_examples'].append({'domain': dom, 'history': [list(r) for r in h],
                                                         'order': order, 'exc': repr(ex)})
            continue
        extra['uniform_completed'] += 1
        if leafset(m) != exp.leaves:
            errs.append(('uniform:' + order, {'n_impl': len(m.leaf_elements), 'n_expected': len(exp.leaves)}))
        else:
            errs.extend(('uniform:' + order + ':' + t, d) for t, d in check_state(dom, m, exp))
    return errs, extra


def state_fn(dom, h, m, ref):
    errs = check_state(dom, m, ref)
    extra = {'states_checked': 1, 'leaves_checked': len(m.leaf_elements)}
    if ref.unbalanced() or ref.area() != ref.domain_area():
        raise HarnessError('reference model lost its own invariants')
    e2, x2 = uniform_ops(dom, h, ref)
    errs += e2
    extra.update(x2)
    return errs, extra


# ===================================================================================================
# (b) boundary targeting
_SIDES = {}


def gamma_sides(dom):
    """Unit pieces of the shipped boundary curve of the domain: [(fun, u0, u1)] with fun the 2x1-array valued
    parametrisation of the side (what Element.gamma_space is in the space-time mesh) and [u0,u1] the parameter
    interval of the unit piece (long sides of the L-shape are halved, as the drivers do)."""
    if dom not in _SIDES:
        import src.parametrization as PM
        g = getattr(PM, dom)()
        unit = 1.0 if DYADIC[dom] else P
        out = []
        for i, fun in enumerate(g.pw_gamma):
            u0, u1 = g.pw_start[i], g.pw_start[i + 1]
            n = int(round((u1 - u0) / unit))
            if n == 1:
                out.append((fun, u0, u1))
            elif n == 2:
                um = (u0 + u1) / 2
                out += [(fun, u0, um), (fun, um, u1)]
            else:
                raise HarnessError('unexpected side length')
        _SIDES[dom] = out
    return _SIDES[dom]


def pt(axis, fixed, c):
    return (fixed, c) if axis == 0 else (c, fixed)


def realisations(dom, piece, l, k):
    """Float realisations of the two end points of the segment [k/2^l,(k+1)/2^l] of the piece (measured from its low
    end).  'mid': model coordinates (double midpoint recursion - the doubles a quadtree vertex carries);
    'mul': lo + t*(hi-lo) evaluated in doubles; 'gamma': the point the shipped boundary parametrisation returns at
    the dyadic parameter (production input of InitialOperator.linform).  On the dyadic domains all three coincide."""
    axis, fixed, lo, hi = piece
    out = []
    cm = [dyadic_coord(lo, hi, j, l) for j in (k, k + 1)]
    out.append(('mid', [pt(axis, fixed, c) for c in cm], None))
    cu = [lo + (j / (1 << l)) * (hi - lo) for j in (k, k + 1)]
    out.append(('mul', [pt(axis, fixed, c) for c in cu], None))
    A, B = pt(axis, fixed, lo), pt(axis, fixed, hi)
    tol = 1e-9
    found = 0
    for fun, u0, u1 in gamma_sides(dom):
        E0, E1 = (tuple(float(c) for c in fun(u).flatten()) for u in (u0, u1))
        close = lambda p, q: abs(p[0] - q[0]) <= tol and abs(p[1] - q[1]) <= tol  # noqa: E731
        if close(E0, A) and close(E1, B):
            js = (k, k + 1)
        elif close(E0, B) and close(E1, A):
            js = ((1 << l) - k, (1 << l) - k - 1)
        else:
            continue
        found += 1
        arrs = [fun(dyadic_coord(u0, u1, j, l)) for j in js]
        out.append(('gamma', [tuple(float(c) for c in a.flatten()) for a in arrs], arrs))
    if found != 1:
        raise HarnessError('boundary piece {} of {} matched {} sides of the shipped curve'.format(piece, dom, found))
    # dedupe on the exact coordinate values (keep the raw arrays of 'gamma' if it is the first with these values)
    seen = {}
    res = []
    for name, pts, raw in out:
        key = tuple(pts)
        if key in seen:
            seen[key][0] += '=' + name
            if raw is not None and seen[key][2] is None:
                seen[key][2] = raw
            continue
        seen[key] = [name, pts, raw]
        res.append(seen[key])
    # harness precondition: every realisation is the model segment up to rounding
    scale = 1.0 if DYADIC[dom] else P
    for name, pts, raw in res:
        for p, c in zip(pts, cm):
            q = pt(axis, fixed, c)
            d = max(abs(p[0] - q[0]), abs(p[1] - q[1]))
            if (d != 0.0) if DYADIC[dom] else (d > 1e-12 * scale):
                raise HarnessError('realisation {} of segment {} {} {} is off by {}'.format(name, piece, l, k, d))
    return res, cm


def as_arg(p, argtype, raw=None):
    if argtype == 'tuple':
        return (p[0], p[1])
    if argtype == 'list':
        return [p[0], p[1]]
    if argtype == 'array':
        return raw if raw is not None else np.array([[p[0]], [p[1]]])
    if argtype == 'tuple-int':
        return (int(p[0]), int(p[1]))
    raise ValueError(argtype)


def argtypes_for(pts, mode):
    if mode == 'light':
        return ('array', )
    ts = ['tuple', 'list', 'array']
    if all(float(c).is_integer() for p in pts for c in p):
        ts.append('tuple-int')
    return ts


def edge_sets(e):
    vs = [xy(v) for v in e.vertices]
    return [frozenset((vs[i], vs[(i + 1) % len(vs)])) for i in range(len(vs))]


def run_case(dom, hist, piece, l, k, rname, pts, raw, orient, argtype, cm, expected, target, first_fp, verbose=False):
    """One boundary-targeting call on a fresh replay of `hist`.  Returns (list of (clause, tag/exc, detail),
    check signature or None, counters).  The full state check is skipped when the signature (everything the state
    check reads) equals that of the first variant of the same segment, which was checked."""
    axis, fixed, lo, hi = piece
    out = []
    cnt = {'bdr_calls': 1, 'bdr_completed': 0, 'vfc_calls': 0, 'full_state_checks': 0}
    p0, p1 = (pts[0], pts[1]) if orient == 0 else (pts[1], pts[0])
    r0, r1 = (None, None) if raw is None else ((raw[0], raw[1]) if orient == 0 else (raw[1], raw[0]))
    a0, a1 = as_arg(p0, argtype, r0), as_arg(p1, argtype, r1)
    q = [pt(axis, fixed, c) for c in cm]  # model end points (exact mesh doubles)
    m = build(dom, hist)
    ret = None
    ok = False
    if orient == 1:
        # call history on ONE mesh object: the end points are looked up BEFORE the refinement that creates them (second
        # orientation of every case; the first orientation keeps the plain sequence).  A lookup may answer None or an existing
        # vertex - either way it must not change what the lookups after the refinement answer.
        for a in (a0, a1):
            try:
                pre = m.vertex_from_coords(a)
                cnt['vfc_calls'] += 1
                if pre is not None and not any(pre is v for v in m.vertices):
                    out.append(('vertex-from-coords', 'tag', 'probe-returns-foreign-object', repr(pre)))
            except Exception as ex:
                out.append(('vertex-from-coords', 'exc', type(ex).__name__, 'probe before refinement: ' + repr(ex)))
    try:
        with horizon(HLIMIT) as hz:
            ret = m.refine_msh_bdr(a0, a1)
        ok = True
    except Horizon:
        out.append(('bdr-target', 'exc', 'Horizon', 'no result after {} refinements'.format(HLIMIT)))
    except Exception as ex:
        out.append(('bdr-target', 'exc', type(ex).__name__, repr(ex)))
    fp = None
    if ok:
        cnt['bdr_completed'] = 1
        cnt['refinements'] = hz.used
        els = list(m.elements)
        parents = set(id(e.parent) for e in els if e.parent is not None)
        is_leaf = (ret is not None and any(ret is e for e in m.leaf_elements) and id(ret) not in parents
                   and any(ret is e for e in els))
        if not is_leaf:
            out.append(('bdr-target', 'tag', 'returns-nonleaf', repr(ret)))
        # exactly one leaf has an edge equal to the segment: exact against the model end points, and against the
        # given end points exactly (dyadic domains) / within 1e-12 of the domain size (pi square: the given doubles
        # are a rounding of the segment; distinct candidate edges differ by >= 2^-L of the side)
        want = frozenset(q)
        hits = [e for e in m.leaf_elements if want in edge_sets(e)]
        if len(hits) != 1:
            out.append(('bdr-target', 'tag', 'edge-count', {'leaves_with_that_edge': [leaf5(e) for e in hits]}))
        tol = 0.0 if DYADIC[dom] else 1e-12 * P
        near = lambda a, b: abs(a[0] - b[0]) <= tol and abs(a[1] - b[1]) <= tol  # noqa: E731
        hits2 = []
        for e in m.leaf_elements:
            vs = [xy(v) for v in e.vertices]
            for i in range(4):
                a, b = vs[i], vs[(i + 1) % 4]
                if (near(a, p0) and near(b, p1)) or (near(a, p1) and near(b, p0)):
                    hits2.append(e)
        if len(hits2) != 1:
            out.append(('bdr-target', 'tag', 'edge-count-given', {'leaves': [leaf5(e) for e in hits2]}))
        if is_leaf and len(hits) == 1 and hits[0] is not ret:
            out.append(('bdr-target', 'tag', 'returns-other-leaf', {'returned': leaf5(ret), 'has_edge': leaf5(hits[0])}))
        if is_leaf and leaf5(ret) != target:
            out.append(('bdr-target', 'tag', 'returned-cell', {'returned': leaf5(ret), 'expected': target}))
        got = leafset(m)
        if got != expected.leaves:
            # Observation only: the property does not demand that boundary targeting produces the LEAST balanced
            # refinement (the real code does); an over-refining but correct implementation must not be flagged.
            cnt['result_differs_from_least_balanced_refinement'] = 1
        fp = check_signature(m)
        if first_fp is None or fp != first_fp:
            cnt['full_state_checks'] = 1
            for t, d in check_state(dom, m):
                out.append(('bdr-state', 'tag', t, d))
    else:
        # the call failed: drive the descent from the harness (plain refine calls along the model's descent path) so
        # that the end-point lookup can still be examined on the mesh the call should have produced
        try:
            m = build(dom, hist)
            r = build_ref(dom, hist)
            while True:
                c = r.edge_leaves(axis, fixed, cm[0], cm[1])
                if c[0][1]:
                    break
                m.refine(find_leaf(m, c[0][0][:4]))
                r.refine(c[0][0])
            ret = find_leaf(m, target[:4])
        except (Exception, Horizon):
            m = None
    if m is not None:
        for p, qq in ((p0, q[0] if orient == 0 else q[1]), (p1, q[1] if orient == 0 else q[0])):
            for at in ('tuple', 'list', 'array'):
                cnt['vfc_calls'] += 1
                try:
                    v = m.vertex_from_coords(as_arg(p, at))
                except Exception as ex:
                    out.append(('vertex-from-coords', 'exc', type(ex).__name__, {'argtype': at, 'point': p,
                                                                                   'exc': repr(ex)}))
                    continue
                if v is None:
                    out.append(('vertex-from-coords', 'tag', 'none', {'argtype': at, 'point': p}))
                elif not (isinstance(getattr(v, 'idx', None), int) and 0 <= v.idx < len(m.vertices)
                          and m.vertices[v.idx] is v):
                    out.append(('vertex-from-coords', 'tag', 'not-a-mesh-vertex', {'argtype': at, 'point': p}))
                elif xy(v) != qq:
                    out.append(('vertex-from-coords', 'tag', 'wrong-vertex', {'argtype': at, 'point': p, 'got': xy(v)}))
                elif ret is not None and not any(v is w for w in ret.vertices):
                    out.append(('vertex-from-coords', 'tag', 'not-on-leaf', {'argtype': at, 'point': p}))
    if verbose:
        print('  call refine_msh_bdr({!r}, {!r}) on {} after {}'.format(a0, a1, dom, [list(r) for r in hist]))
        print('  returned', None if ret is None else leaf5(ret), 'expected leaf', target,
              'leaves', None if m is None else len(m.leaf_elements), 'expected', len(expected.leaves))
        for o in out:
            print('  ', o)
    return out, fp, cnt


def expected_mesh(dom, hist, piece, cm, l):
    """Reference result of targeting: (mesh, target leaf) or None if the state is already finer than the segment."""
    axis, fixed = piece[0], piece[1]
    r = build_ref(dom, hist)
    t = r.target(axis, fixed, cm[0], cm[1])
    if t is None:
        return None
    if l <= 4:
        r2 = build_ref(dom, hist)
        t2 = r2.target(axis, fixed, cm[0], cm[1], lifo=False)
        r3 = build_ref(dom, hist)
        t3 = r3.target_by_closure(axis, fixed, cm[0], cm[1])
        if not (r2.leaves == r.leaves == r3.leaves and t2 == t == t3):
            raise HarnessError('reference targeting depends on the processing order')
    if r.unbalanced() or r.area() != r.domain_area():
        raise HarnessError('reference model lost its own invariants while targeting')
    return r, t


def bdr_unit(u):
    """All variants of one (domain, state, piece, l, k).  Returns (violations, counters, sample)."""
    dom, hist, pi, l, k, mode = u
    piece = RefQuad(dom).boundary_pieces()[pi]
    cnt = {'units': 1, 'infeasible_units': 0}
    reals, cm = realisations(dom, piece, l, k)
    exp = expected_mesh(dom, hist, piece, cm, l)
    if exp is None:
        cnt['infeasible_units'] = 1
        return [], cnt, None
    expected, target = exp
    viols = []
    first_fp = None
    sample = None
    for rname, pts, raw in reals:
        if mode == 'light' and rname.startswith('mul'):
            continue
        cnt['realisations'] = cnt.get('realisations', 0) + 1
        for orient in (0, 1):
            for at in argtypes_for(pts, mode):
                out, fp, c = run_case(dom, hist, piece, l, k, rname, pts, raw if at == 'array' else None, orient, at,
                                      cm, expected, target, first_fp)
                if first_fp is None:
                    first_fp = fp
                for kk, vv in c.items():
                    cnt[kk] = cnt.get(kk, 0) + vv
                case = {'kind': 'bdr', 'domain': dom, 'history': [list(r) for r in hist], 'piece': pi,
                        'piece_geometry': list(piece), 'l': l, 'k': k, 'realisation': rname, 'points': pts,
                        'orientation': orient, 'argtype': at}
                if sample is None:
                    sample = dict(case, returned=list(target), leaves=len(expected.leaves))
                for clause, kind, tag, detail in out:
                    call = 'refine_msh_bdr({}, {}) with end points as {} (realisation {})'.format(
                        pts[orient], pts[1 - orient], at, rname)
                    if clause == 'vertex-from-coords':
                        call = 'vertex_from_coords(<{}> {}) on the mesh targeted by '.format(
                            detail['argtype'], detail['point']) + call
                    viols.append(({'clause': clause, kind: tag, 'domain': dom},
                                  '{} [{}={}]: {}() after history {}, {}: {}'.format(
                                      clause, kind, tag, dom, [list(r) for r in hist], call, detail), case))
    return viols, cnt, sample


# ===================================================================================================
class Reporter:
    """First violation per key goes to ctx.violation (the enumeration is in BFS / ascending-level order, so the first
    is a shortest one); all are counted."""
    def __init__(self, ctx):
        self.ctx = ctx
        self.counts = {}

    def __call__(self, key, what, replay):
        k = repr(sorted(key.items()))
        self.counts[k] = self.counts.get(k, 0) + 1
        if self.counts[k] == 1:
            self.ctx.violation(key, what, replay)

    def state(self, dom, hist, v):
        tag, detail = v
        clause = 'uniform' if tag.startswith('uniform') else ('transition' if tag in ('transition', 'refine-raised')
                                                              else 'state')
        self({'clause': clause, 'tag': tag, 'domain': dom},
             '{} after history {} on {}: {}'.format(tag, [list(r) for r in hist], dom, detail),
             {'kind': 'history', 'domain': dom, 'history': [list(r) for r in hist], 'tag': tag})


def merge(total, c):
    for k, v in c.items():
        total[k] = total.get(k, 0) + v


def run_bdr(ctx, rep, units, label, totals, samples):
    t0 = time.time()
    res = common.pmap(bdr_unit, units, ctx.jobs)
    c = {}
    for (viols, cnt, sample), u in zip(res, units):
        merge(c, cnt)
        for key, what, case in viols:
            rep(key, what, case)
        if sample is not None and (len(samples) < 3 or (u[3] >= 5 and len(samples) < 6)):
            samples.append(sample)
    c['wall_s'] = round(time.time() - t0, 1)
    totals[label] = c
    ctx.note('boundary targeting {}: {}'.format(label, c))
    return c


def walk_unit(u):
    """One supplementary seeded long history: lock-step with the reference, invariants at the end, all one-step
    refinements from the end state.  Returns (violations [(dom, hist, v)], steps, history, info)."""
    dom, seed, nsteps = u
    viols = []
    steps = 0
    h = quadmc.random_history(dom, seed, nsteps)
    m = quadmc.fresh(dom)
    ref = RefQuad(dom)
    for n, r in enumerate(h):
        try:
            with horizon(HLIMIT):
                m.refine(find_leaf(m, r))
        except (Exception, Horizon) as ex:
            viols.append((dom, h[:n + 1], ('refine-raised', repr(ex))))
            return viols, steps, None, None
        ref.refine_rect(r)
        steps += 1
        if leafset(m) != ref.leaves:
            viols.append((dom, h[:n + 1], ('transition', 'random walk diverged from the reference')))
            return viols, steps, None, None
    for v in check_state(dom, m, ref):
        viols.append((dom, h, v))
    for op in sorted(rect_of(e) for e in m.leaf_elements):
        try:
            with horizon(HLIMIT):
                m2 = build(dom, h + (op, ))
        except (Exception, Horizon) as ex:
            viols.append((dom, h + (op, ), ('refine-raised', repr(ex))))
            continue
        v = quadmc.trans_check(dom, h, op, m2, ref)
        steps += 1
        if v is not None:
            viols.append((dom, h + (op, ), v))
        for v in quadmc.check_numbering(m2):
            viols.append((dom, h + (op, ), v))
    info = {'domain': dom, 'seed': seed, 'steps': len(h), 'leaves': len(m.leaf_elements),
            'max_level': max(e.level for e in m.leaf_elements)}
    return viols, steps, h, info


def random_walks(ctx, rep, cfg):
    """Supplementary seeded long histories (never counted towards the exhaustive claim) and a light targeting
    sweep (l <= 4) from their end states."""
    us = [(DOMS[(ctx.seed + i) % 3], ctx.seed * 7919 + i, cfg['walk_steps']) for i in range(cfg['walks'])]
    steps_total = 0
    extra_units = []
    infos = []
    for (dom, _, _), (viols, steps, h, info) in zip(us, common.pmap(walk_unit, us, ctx.jobs, chunksize=1)):
        steps_total += steps
        for d, hh, v in viols:
            rep.state(d, hh, v)
        if h is None:
            continue
        infos.append(info)
        for pi in range(len(RefQuad(dom).boundary_pieces())):
            for l in range(0, 5):
                for k in range(1 << l):
                    extra_units.append((dom, h, pi, l, k, 'light'))
    return steps_total, extra_units, infos


def run(ctx):
    cfg = QUICK if ctx.tier == 'quick' else THOROUGH
    rep = Reporter(ctx)
    st = quadmc.Stats()
    states_for_bdr = {}
    # ---- (a) BFS over refine histories
    for dom in DOMS:
        coll = []
        quadmc.explore(ctx, dom, cfg['depth'][dom], state_fn, rep.state, hlimit=HLIMIT, stats=st, collect=coll)
        states_for_bdr[dom] = [h for h in coll if 0 < len(h) <= cfg['state_depth'][dom]]
        ctx.note('{}: {}'.format(dom, st.per_dom[dom]))
    ur = st.extra.get('uniform_raised', {})
    ctx.note('uniform_refine as leaf transition: {} calls, {} completed (all compared with the reference), raised: {} '
             '(interrupted meshes violating an invariant: {})'.format(
                 int(st.extra.get('uniform_calls', 0)), int(st.extra.get('uniform_completed', 0)), ur,
                 int(st.extra.get('uniform_raised_corrupt', 0))))
    # ---- (b) boundary targeting, fresh meshes: complete set
    totals = {}
    samples = []
    npieces = {dom: len(RefQuad(dom).boundary_pieces()) for dom in DOMS}
    if npieces != {'UnitSquare': 4, 'PiSquare': 4, 'LShape': 8}:
        raise HarnessError('boundary pieces: {}'.format(npieces))
    units = [(dom, (), pi, l, k, 'full') for l in range(cfg['L'] + 1) for dom in DOMS for pi in range(npieces[dom])
             for k in range(1 << l)]
    cf = run_bdr(ctx, rep, units, 'fresh(l<={})'.format(cfg['L']), totals, samples)
    # ---- (b+) deep targets on fresh meshes: levels beyond the complete set, k at both ends, around the middle and at an odd place
    deep_L = (8, 10, 12) if ctx.tier == 'quick' else (8, 9, 10, 11, 12, 14)
    units_deep = [(dom, (), pi, l, k, 'light') for l in deep_L for dom in DOMS for pi in range(npieces[dom])
                  for k in sorted({0, 1, (1 << l) // 2 - 1, (1 << l) // 2, (1 << l) // 3, (1 << l) - 2, (1 << l) - 1})]
    cd = run_bdr(ctx, rep, units_deep, 'fresh-deep(l in {})'.format(list(deep_L)), totals, samples)
    if not cd.get('bdr_calls', 0):
        raise HarnessError('deep boundary targeting had no cases')
    # ---- (b') on every state of the shallow BFS graph
    units2 = [(dom, h, pi, l, k, 'light') for l in range(cfg['state_L'] + 1) for dom in DOMS
              for h in states_for_bdr[dom] for pi in range(npieces[dom]) for k in range(1 << l)]
    cs = run_bdr(ctx, rep, units2, 'states(l<={})'.format(cfg['state_L']), totals, samples)
    # ---- supplementary random roots
    rw_steps, rw_units, rw_info = random_walks(ctx, rep, cfg)
    cr = run_bdr(ctx, rep, rw_units, 'random-roots(l<=4)', totals, samples) if rw_units else {}
    # ---- vacuity guards
    if not (st.states > 3 and st.transitions > 0 and int(st.extra.get('uniform_completed', 0)) > 0):
        raise HarnessError('empty state graph')
    for c, name in ((cf, 'fresh'), (cs, 'states')):
        if not (c.get('bdr_calls', 0) > 0 and c.get('vfc_calls', 0) > 0 and c.get('units', 0) > c.get('infeasible_units', 0)):
            raise HarnessError('boundary targeting ({}) had no cases'.format(name))
        if ctx.n_viol == 0 and ctx.n_known == 0 and c.get('bdr_completed', 0) != c.get('bdr_calls', 0):
            raise HarnessError('calls did not complete but no violation was reported')
    if cf['units'] != sum(npieces.values()) * ((1 << (cfg['L'] + 1)) - 1) or cf['infeasible_units'] != 0:
        raise HarnessError('fresh targeting set incomplete: {}'.format(cf))
    n_b = sum(c.get('bdr_calls', 0) for c in (cf, cs, cd))
    cov = {
        'states': st.states,
        'transitions': st.transitions + int(st.extra.get('uniform_calls', 0)) + n_b,
        'traces_validated_against_impl': st.transitions + int(st.extra.get('uniform_completed', 0))
        + sum(c.get('bdr_completed', 0) for c in (cf, cs, cd)),
        'refine_transitions': st.transitions,
        'uniform_refine_transitions': int(st.extra.get('uniform_calls', 0)),
        'uniform_refine_completed': int(st.extra.get('uniform_completed', 0)),
        'uniform_refine_raised_by_order': ur,
        'uniform_refine_raised_and_invariant_broken': int(st.extra.get('uniform_raised_corrupt', 0)),
        'uniform_refine_raised_examples': st.extra.get('uniform_raised_examples', [])[:4],
        'boundary_targeting': totals,
        'boundary_targeting_calls_exhaustive': n_b,
        'distinct_leaf_sets': st.leafsets,
        'per_domain': st.per_dom,
        'leaves_checked': int(st.extra.get('leaves_checked', 0)),
        'samples': st.samples[:6] + samples[:6],
        'supplementary_random_walk_steps': rw_steps,
        'supplementary_random_roots': rw_info,
        'supplementary_random_root_targeting_calls': cr.get('bdr_calls', 0),
        'violating_cases_by_key': rep.counts,
        'exhaustive': True,
        'explanation': 'BFS over all InitialMesh.refine histories up to the per-domain depth on real objects, states '
                       'merged on the structural fingerprint, every transition compared with the reference closure, '
                       'every state checked (exact tiling, squares, descent, bookkeeping, balance, vertices, gmsh), '
                       'uniform_refine under three leaf-set orders at every state; complete set of boundary-targeting '
                       'calls (pieces x dyadic segments l<=L x realisations x orientations x argument types) on fresh '
                       'meshes and (light variant set) on every state of the shallow graph.',
    }
    return ctx.finish('model_checking', cov, [
        'bisection = IEEE double midpoint (reference model)', 'domains: the three shipped factories only',
        'histories beyond the depth bound only through the supplementary random roots (seeded, not exhaustive)',
        'pi square: given end points are realisations of the segment within 1e-12 of the side length '
        '(midpoint recursion, lo+t*(hi-lo), shipped boundary parametrisation); mesh-vs-model comparisons are exact',
        'iteration order of the leaf set: native order plus coarse-first and fine-first (uniform_refine only)',
        'targeting on states where the mesh is already finer than the segment is outside the property (skipped, counted)'])


# ===================================================================================================
def replay(ctx, data):
    dom = data['domain']
    hist = tuple(tuple(float(c) for c in r) for r in data['history'])
    if data['kind'] == 'history':
        ok = True
        m = None
        for n in range(len(hist) + 1):
            try:
                with horizon(HLIMIT):
                    m = build(dom, hist[:n])
            except (Exception, Horizon) as ex:
                print('history step', n, 'raised', repr(ex))
                return False
            ref = build_ref(dom, hist[:n])
            if leafset(m) != ref.leaves:
                print('step', n, 'leaf set differs from reference:', sorted(leafset(m) ^ ref.leaves)[:6])
                ok = False
                break
        errs, _ = state_fn(dom, hist, m, ref) if ok else (check_state(dom, m), None)
        for e in errs[:10]:
            print('  ', e)
        return ok and not errs
    if data['kind'] == 'bdr':
        piece = RefQuad(dom).boundary_pieces()[data['piece']]
        reals, cm = realisations(dom, piece, data['l'], data['k'])
        exp = expected_mesh(dom, hist, piece, cm, data['l'])
        if exp is None:
            print('segment is finer than the mesh: outside the property')
            return True
        for rname, pts, raw in reals:
            if rname == data['realisation']:
                at = data['argtype']
                out, _, _ = run_case(dom, hist, piece, data['l'], data['k'], rname, pts, raw if at == 'array' else None,
                                     data['orientation'], at, cm, exp[0], exp[1], None, verbose=True)
                return not out
        raise HarnessError('unknown realisation in replay file')
    raise HarnessError('unknown replay kind')
