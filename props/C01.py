"""C01 - single-layer Galerkin entries equal the 4-fold heat-kernel integral.

Layer A (model checking of the panel recursion): SingleLayerOperator.__integrate is driven, with recording proxies in
place of its rule objects, on EVERY ordered pair of dyadic parameter intervals up to a level bound under every root
of every shipped curve; every execution must terminate, tile [a,b]x[c,d] exactly with its terminal panels and put
the geometric singularity of each terminal panel on the graded set of the rule applied to it; bilform's variable
swap is observed through recording parametrisations.
Layer B (values): every ordered pair of the dyadic rectangle universe R(Lt,Lx) (real elements from real bisection)
on the five curves and several time grids, both values of the pw_exact switch, against the independent entry
oracle with the property's tolerance 1e-7*sqrt(D_test*D_trial), aspect h_x^2/h_t <= 32."""
import itertools
import math
import os
from fractions import Fraction

import numpy as np

from mc import common, meshmc, oracle, universe
from mc.common import pmap
from mc.meshmc import curve

CURVES = ('UnitSquare', 'PiSquare', 'LShape', 'Circle', 'UnitInterval')
TOL = 1e-7
ASPECT = 32.0


# =====================================================================================================
# Layer A
class Rec:
    """Recording stand-in for a QuadScheme2D-like rule object."""
    def __init__(self, log, kind, mirror=''):
        self.log, self.kind, self.mirror = log, kind, mirror

    def mirror_x(self):
        return Rec(self.log, self.kind, self.mirror + 'x')

    def mirror_y(self):
        return Rec(self.log, self.kind, self.mirror + 'y')

    def integrate(self, f, a, b, c, d):
        self.log.append((self.kind, self.mirror, a, b, c, d))
        if f is not None:
            f(np.array([[(a + b) / 2], [(c + d) / 2]]))
        return 0.0


def dyadic_intervals(g, lev, pre_split_long=False):
    """All dyadic sub-intervals up to `lev` extra levels under every root piece (closed one-piece curves start at
    space level 2, as the mesh guard enforces)."""
    out = []
    roots = list(zip(map(float, g.pw_start[:-1]), map(float, g.pw_start[1:])))
    if g.closed and len(roots) < 3:
        base = []
        for a, b in roots:
            q = [a + (b - a) * k / 4 for k in range(5)]
            q = [a, (a + b) / 2 / 2 + a / 2, (a + b) / 2, ((a + b) / 2 + b) / 2, b]
            base += list(zip(q, q[1:]))
        roots = base
    for a, b in roots:
        cur = [(a, b)]
        for l in range(lev + 1):
            out.extend(cur)
            cur = [p for (x, y) in cur for p in ((x, (x + y) / 2), ((x + y) / 2, y))]
    return out


def install_recorders(SL, log):
    """Every 2-D rule object of the operator is replaced by a recorder.  The two rules the recursion uses today keep their names
    ('duffy', 'loglog': their orientation is checked against the geometric singularity); any OTHER 2-D rule the code may use on a
    terminal panel (e.g. a tensor Gauss rule for separated panels) is recorded as 'other:<attribute>' - its accuracy is layer B's
    business, layer A only checks that the panels tile the rectangle."""
    for name, obj in list(vars(SL).items()):
        if hasattr(obj, 'integrate') and hasattr(obj, 'mirror_x') and hasattr(obj, 'mirror_y') and not isinstance(obj, Rec):
            kind = {'duff_log_log': 'duffy', 'log_log': 'loglog'}.get(name, 'other:' + name)
            setattr(SL, name, Rec(log, kind))


def find_panel_recursion(SL):
    """The private panel recursion of the operator: `__integrate` today; after a rename, the one bound method whose parameters are
    (f, a, b, c, d).  None if no such method exists (layer A is then skipped - it is a structural extra, the values are layer B's)."""
    import inspect
    m = getattr(SL, '_SingleLayerOperator__integrate', None)
    if m is not None:
        return m
    cands = []
    for name in dir(type(SL)):
        if name.startswith('__') and name.endswith('__'):
            continue
        fn = getattr(SL, name, None)
        if not callable(fn):
            continue
        try:
            params = list(inspect.signature(fn).parameters)
        except (TypeError, ValueError):
            continue
        if params == ['f', 'a', 'b', 'c', 'd']:
            cands.append(fn)
    return cands[0] if len(cands) == 1 else None


def layerA_curve(args):
    cname, lev = args
    g = curve(cname)
    L = float(g.gamma_length)
    SL = universe.make_SL(cname)
    log = []
    install_recorders(SL, log)
    integ = find_panel_recursion(SL)
    if integ is None:
        return cname, 0, 0, 0, [], 0, []  # the private recursion cannot be located on this tree: layer A not applicable, layer B decides
    ivs = dyadic_intervals(g, lev)
    dyadic = cname in ('UnitSquare', 'LShape', 'UnitInterval')
    viols = []
    n = 0
    nterm = 0
    sigs = {}
    for I in ivs:
        for J in ivs:
            if not (I <= J):
                continue
            a, b = I
            c, d = J
            # structural precondition (C18): two distinct elements touch in at most one end point
            if g.closed and (a, b) != (c, d) and b == c and a == 0 and d == L:
                continue
            del log[:]
            n += 1
            try:
                integ(None, a, b, c, d)
            except RecursionError:
                viols.append(('recursion-no-termination', (I, J)))
                continue
            except AssertionError as ex:
                import traceback
                tb = traceback.extract_tb(ex.__traceback__)[-1]
                viols.append(('assertion', (I, J, '{}:{} {}'.format(tb.filename.split('/')[-1], tb.lineno, tb.line))))
                continue
            except Exception as ex:  # noqa: BLE001
                viols.append(('raised', (I, J, repr(ex))))
                continue
            nterm += len(log)
            sig = tuple((k, m) for k, m, *_ in log)
            sigs[sig] = sigs.get(sig, 0) + 1
            err = check_panels(log, a, b, c, d, L, g.closed, dyadic)
            if err:
                viols.append((err[0], (I, J, err[1])))
    return cname, n, nterm, len(sigs), viols[:5], len(viols), sorted(sigs.items(), key=lambda kv: -kv[1])[:6]


def check_panels(log, a, b, c, d, L, closed, dyadic):
    F = Fraction
    tol = 0 if dyadic else 1e-12 * max(1.0, L)**2
    area = sum((F(p[3]) - F(p[2])) * (F(p[5]) - F(p[4])) for p in log)
    if abs(area - (F(b) - F(a)) * (F(d) - F(c))) > tol:
        return ('panels-area', float(area))
    eps = 0 if dyadic else 1e-12 * max(1.0, L)
    for i, p in enumerate(log):
        if not (a - eps <= p[2] < p[3] <= b + eps and c - eps <= p[4] < p[5] <= d + eps):
            return ('panel-outside', p)
        for q in log[i + 1:]:
            if min(p[3], q[3]) - max(p[2], q[2]) > eps and min(p[5], q[5]) - max(p[4], q[4]) > eps:
                return ('panels-overlap', (p, q))
    for kind, mirror, pa, pb, pc, pd in log:
        close = (lambda x, y: x == y) if dyadic else (lambda x, y: abs(x - y) <= 1e-12 * max(1.0, L))
        ident = close(pa, pc) and close(pb, pd)
        touch = close(pb, pc)                                   # gamma(x=pb) == gamma(y=pc): corner (b,c)
        seam = closed and close(pa, 0.0) and close(pd, L)       # gamma(x=0) == gamma(y=L): corner (a,d)
        touch2 = close(pd, pa)                                  # y-interval left of x-interval: corner (a,d)
        if min(pb, pd) - max(pa, pc) > eps and not ident:
            return ('terminal-panel-overlapping-intervals', (kind, mirror, pa, pb, pc, pd))
        if kind.startswith('other:'):
            continue  # a rule object layer A does not know: whether it suits the panel is decided by the values (layer B)
        if ident:
            if (kind, mirror) != ('duffy', ''):
                return ('rule-identical', (kind, mirror, pa, pb, pc, pd))
        elif touch and seam:
            return ('panel-touches-twice', (pa, pb, pc, pd))
        elif touch:
            if (kind, mirror) != ('duffy', 'x'):
                return ('rule-touching', (kind, mirror, pa, pb, pc, pd))
        elif seam or touch2:
            if (kind, mirror) != ('duffy', 'y'):
                return ('rule-seam-touching', (kind, mirror, pa, pb, pc, pd))
        else:
            # disjoint: graded towards the nearer corner in the cyclic metric
            if kind != 'loglog' or mirror not in ('x', 'y'):
                return ('rule-disjoint', (kind, mirror, pa, pb, pc, pd))
            if pb < pc:
                direct, through = pc - pb, (L - pd + pa) if closed else float('inf')
                want = 'x' if direct < through else ('y' if through < direct else mirror)
            else:
                direct, through = pa - pd, (L - pb + pc) if closed else float('inf')
                want = 'y' if direct < through else ('x' if through < direct else mirror)
            if mirror != want:
                return ('rule-disjoint-wrong-corner', (kind, mirror, pa, pb, pc, pd))
    return None


def layerA_swap(cname):
    """bilform's ordering / variable swap: recording parametrisations see which interval they are evaluated on."""
    g = curve(cname)
    SL = universe.make_SL(cname)
    log = []
    install_recorders(SL, log)
    U = universe.rect_universe(cname, (0., 1.), 0, 1)
    els = universe.all_elements(U)
    viols = []
    n = 0

    class E:
        """The real element with a recording parametrisation: every other attribute is the real element's."""
        def __init__(self, real):
            object.__setattr__(self, '_real', real)

        def __getattr__(self, name):
            return getattr(object.__getattribute__(self, '_real'), name)

    for te in els:
        for tr in els:
            seen = []

            def mk(tag, e):
                def gam(x):
                    seen.append((tag, float(np.ravel(x)[0])))
                    return e.gamma_space(x)
                return gam
            a = E(te)
            a.time_interval, a.space_interval, a.gamma_space = te.time_interval, te.space_interval, mk('test', te)
            b = E(tr)
            b.time_interval, b.space_interval, b.gamma_space = tr.time_interval, tr.space_interval, mk('trial', tr)
            if g.closed and te.space_interval != tr.space_interval and \
                    {te.space_interval[0], te.space_interval[1]} & {0.0} and False:
                pass
            del log[:]
            n += 1
            try:
                SL.bilform(b, a)
            except AssertionError as ex:
                viols.append(('swap-assertion', (te.space_interval, tr.space_interval)))
                continue
            except Exception as ex:  # noqa: BLE001
                viols.append(('swap-raised', (te.space_interval, tr.space_interval, repr(ex))))
                continue
            for tag, x in seen:
                iv = te.space_interval if tag == 'test' else tr.space_interval
                if not (iv[0] <= x <= iv[1]):
                    viols.append(('variable-swap', (tag, x, iv, te.space_interval, tr.space_interval)))
                    break
            if not seen:
                viols.append(('swap-not-observed', None))
    return cname, n, viols[:3], len(viols)


# =====================================================================================================
# Layer B
_U = {}


def get_universe(key):
    if key not in _U:
        cname, tgrid, Lt, Lx, pre = key
        U = universe.rect_universe(cname, tgrid, Lt, Lx, pre)
        els = [e for e in universe.all_elements(U) if universe.aspect(e) <= ASPECT]
        g = curve(cname)
        _U[key] = (g, els, oracle.EntryOracle(g), universe.make_SL(cname, False, tgrid), universe.make_SL(cname, True, tgrid))
    return _U[key]


def in_scope(te, tr):
    """The property quantifies over pairs of leaves of ONE mesh plus (leaf, child or quarter of a leaf): two elements whose
    space-time interiors overlap are in scope only if they are identical or their sizes differ by at most one bisection per axis."""
    (a, b), (c, d) = te.time_interval, tr.time_interval
    (xa, xb), (ya, yb) = te.space_interval, tr.space_interval
    if not (min(b, d) > max(a, c) and min(xb, yb) > max(xa, ya)):
        return True
    rt = max((b - a) / (d - c), (d - c) / (b - a))
    rx = max((xb - xa) / (yb - ya), (yb - ya) / (xb - xa))
    return rt <= 2.0 * (1 + 1e-12) and rx <= 2.0 * (1 + 1e-12)


def layerB_chunk(item):
    key, lo, hi = item
    g, els, orc, SL0, SL1 = get_universe(key)
    N = len(els)
    out = {'n': 0, 'classes': {}, 'viols': [], 'nviol': 0, 'nontrivial': 0}
    warm = {}
    for idx in range(lo, hi):
        te, tr = els[idx // N], els[idx % N]
        if not in_scope(te, tr):
            out['out_of_scope_overlapping_pairs'] = out.get('out_of_scope_overlapping_pairs', 0) + 1
            continue
        tc = universe.time_class(te, tr)
        sc = universe.space_class(g, te, tr)
        cl = sc + '|' + tc
        ref = orc.value(tr, te)
        scale = math.sqrt(orc.diag(te) * orc.diag(tr))
        for sw, SL in ((False, SL0), (True, SL1)):
            out['n'] += 1
            try:
                val = float(SL.bilform(tr, te))
            except Exception as ex:
                val = None
                err = float('inf')
                what = repr(ex)
            if val is not None:
                err = abs(val - ref) / scale
                what = 'computed {!r} exact {!r}'.format(val, ref)
                warm[(idx, sw)] = val
            c = out['classes'].setdefault(cl, [0, 0.0])
            c[0] += 1
            c[1] = max(c[1], err if err < float('inf') else 9e99)
            if not (err <= TOL):
                out['nviol'] += 1
                if len(out['viols']) < 3:
                    out['viols'].append({'curve': key[0], 'tgrid': key[1], 'pw_exact': sw, 'class': cl,
                                         'test': [te.time_interval, te.space_interval],
                                         'trial': [tr.time_interval, tr.space_interval], 'err': err, 'what': what})
        if tc != 'acausal':
            out['nontrivial'] += 1
    # differential oracle against hidden state: a second pair of operators serves the same pairs in the OPPOSITE order
    # (quick), and a brand-new operator per pair (thorough); every value must be bitwise the one obtained above
    fresh_each = os.environ.get('VERIF_C01_FRESH') == '1'
    SLr = {False: universe.make_SL(key[0], False, key[1]), True: universe.make_SL(key[0], True, key[1])}
    for idx in range(hi - 1, lo - 1, -1):
        te, tr = els[idx // N], els[idx % N]
        for sw in (True, False):
            if (idx, sw) not in warm:
                continue
            try:
                op = universe.make_SL(key[0], sw, key[1]) if fresh_each else SLr[sw]
                other = float(op.bilform(tr, te))
            except Exception:
                other = None
            out['n_fresh'] = out.get('n_fresh', 0) + 1
            if other is not None and other != warm[(idx, sw)]:
                out['n_bitwise_differs'] = out.get('n_bitwise_differs', 0) + 1  # observation only
            ref = orc.value(tr, te)
            scale = math.sqrt(orc.diag(te) * orc.diag(tr))
            err = abs(other - ref) / scale if other is not None else float('inf')
            if not err <= TOL:
                out['nviol'] += 1
                if len(out['viols']) < 3:
                    out['viols'].append({'curve': key[0], 'tgrid': key[1], 'pw_exact': sw, 'class': 'history-dependent',
                                         'test': [te.time_interval, te.space_interval], 'trial': [tr.time_interval, tr.space_interval],
                                         'err': err, 'what': 'operator with {} gives {!r} (error {:.3e}), operator with the forward history gave {!r}, exact {!r}'.format(
                                             'no history' if fresh_each else 'the reversed history', other, err, warm[(idx, sw)], ref)})
    return out


def history_task(item):
    """Call history across curves / operator options in ONE fresh process: serve every pair of universe A (switch on, then
    off), then every pair of universe B (off, then on); B's values are compared with the oracle.  State that leaks from one
    operator, curve or option set into another (class- or module-level caches keyed too coarsely) shows up here."""
    keyA, keyB = item
    out = {'n': 0, 'viols': [], 'nviol': 0, 'worst': 0.0}
    gA, elsA, orcA, SLA0, SLA1 = get_universe(keyA)
    for te in elsA:
        for tr in elsA:
            for SL in (SLA1, SLA0):
                try:
                    SL.bilform(tr, te)
                except Exception:
                    pass
    gB, elsB, orcB, _, _ = get_universe(keyB)
    ops = {False: universe.make_SL(keyB[0], False, keyB[1]), True: universe.make_SL(keyB[0], True, keyB[1])}
    for te in elsB:
        for tr in elsB:
            ref = orcB.value(tr, te)
            scale = math.sqrt(orcB.diag(te) * orcB.diag(tr))
            for sw in (False, True):
                out['n'] += 1
                try:
                    val = float(ops[sw].bilform(tr, te))
                    err = abs(val - ref) / scale
                except Exception as ex:
                    val, err = repr(ex), float('inf')
                out['worst'] = max(out['worst'], min(err, 9e99))
                if not err <= TOL:
                    out['nviol'] += 1
                    if len(out['viols']) < 2:
                        out['viols'].append({'curve': keyB[0], 'tgrid': keyB[1], 'pw_exact': sw, 'class': 'after-serving-' + keyA[0],
                                             'test': [te.time_interval, te.space_interval], 'trial': [tr.time_interval, tr.space_interval],
                                             'err': err, 'what': 'in a process that served {} before: computed {!r} exact {!r}'.format(keyA[0], val, ref)})
    return out


def quarters_lifecycle_task(item):
    """The adaptive loop's lifecycle on ONE operator with the VIRTUAL quarters the h-h/2 and hierarchical estimators use
    (DummyElement.uniform_refinement - fresh vertex objects without a mesh index): the level meshes of a small universe are
    served coarse to fine and back; on each, every pair (leaf, quarter of a leaf) in both roles and every pair of quarters of one
    leaf and of two leaves is compared with the oracle at the property's tolerance.  What the operator keeps from the quarters of
    an earlier mesh must not change an entry of the quarters of a later one."""
    cname, sw = item
    from src.hierarchical_error_estimator import DummyElement
    g = curve(cname)
    orc = oracle.EntryOracle(g)
    U = universe.rect_universe(cname, (0., 1.), 1, 1, '')
    SL = universe.make_SL(cname, sw, (0., 1.))
    out = {'n': 0, 'viols': [], 'nviol': 0, 'worst': 0.0, 'meshes': 0}
    order = sorted(U)
    for step, lvl in enumerate(order + order[::-1][1:]):
        m, leaves = U[lvl]
        SL.mesh = m
        SL._init_elems(leaves)
        out['meshes'] += 1
        kids = DummyElement.uniform_refinement(leaves)
        pairs = []
        for i, (e, ch) in enumerate(zip(leaves, kids)):
            if any(universe.aspect(c) > ASPECT for c in ch) or universe.aspect(e) > ASPECT:
                continue
            for c in ch:
                pairs += [(e, c), (c, e)]
            pairs += [(c1, c2) for c1 in ch for c2 in ch]
            j = (i + 1) % len(leaves)
            if j != i and not any(universe.aspect(c) > ASPECT for c in kids[j]):
                pairs += [(ch[0], kids[j][3]), (kids[j][1], ch[2]), (e, kids[j][0]), (kids[j][3], e)]
        for te, tr in pairs:
            ref = orc.value(tr, te)
            scale = math.sqrt(orc.diag(te) * orc.diag(tr))
            out['n'] += 1
            try:
                val = float(SL.bilform(tr, te))
                err = abs(val - ref) / scale
            except Exception as ex:  # noqa: BLE001
                val, err = repr(ex), float('inf')
            out['worst'] = max(out['worst'], min(err, 9e99))
            if not err <= TOL:
                out['nviol'] += 1
                if len(out['viols']) < 2:
                    out['viols'].append({'curve': cname, 'tgrid': (0., 1.), 'pw_exact': sw, 'class': 'virtual-quarters-lifecycle-step-{}'.format(step),
                                         'test': [te.time_interval, te.space_interval], 'trial': [tr.time_interval, tr.space_interval], 'err': err,
                                         'what': 'one operator over the level meshes {}: computed {!r} exact {!r}'.format((order + order[::-1][1:])[:step + 1], val, ref)})
    return out


# very short end times (h_t of order h_x^2 / 32): the kernel has decayed to nothing across the parameter interval but NOT across the
# closing seam / around a corner - only the elements whose aspect passes the filter take part (the finest space level)
SHORT_T = {'quick': [('UnitSquare', (0., 2.0**-9), 0, 2, ''), ('UnitSquare', (0., 2.0**-11), 0, 3, ''), ('Circle', (0., 2.0**-9), 0, 3, ''),
                     # thin slabs at both ends of [0, 1] (time lag >> slab thickness); a custom space grid with very unequal close panels
                     ('UnitSquare', (0., 1 / 32, 31 / 32, 1.), 0, 1, ''), ('UnitSquare', (0., 1 / 32), 0, 0, 'xs:uneq'),
                     # a thin slab directly after a thick one, small panels at both ends of a long straight side
                     ('PiSquare', (0., 0.5, 0.5 + 2.0**-9), 0, 0, 'xs:ends'), ('LShape', (0., 0.5, 0.5 + 2.0**-11), 0, 0, 'xs:ends')],
           'thorough': [(c, (0., 2.0**-9), 1, 2, '') for c in ('UnitSquare', 'LShape', 'UnitInterval')] + [('UnitSquare', (0., 2.0**-11), 0, 3, ''),
                        ('Circle', (0., 2.0**-9), 0, 3, ''), ('PiSquare', (0., 2.0**-9), 0, 2, ''), ('UnitSquare', (0., 2.0**-9, 1.), 0, 2, ''),
                        ('UnitSquare', (0., 1 / 32, 31 / 32, 1.), 1, 2, ''), ('Circle', (0., 1 / 32, 31 / 32, 1.), 0, 2, ''), ('UnitSquare', (0., 1 / 32), 0, 1, 'xs:uneq'),
                        # a thin slab directly after a thick one on the longest sides (far-field shortcuts keyed on the wrong time lag)
                        ('PiSquare', (0., 0.5, 0.5 + 2.0**-9), 0, 4, ''), ('LShape', (0., 0.5, 0.5 + 2.0**-9), 0, 3, '')]}
LAYER_B = {
    'quick': [(c, (0., 1.), 1, 2, '') for c in CURVES] + [(c, (0., 0.125), 0, 2, '') for c in ('UnitSquare', 'Circle')]
             + [(c, (0., 0.3, 1.), 0, 1, '') for c in ('UnitSquare', 'LShape')]
             + [(c, (0., 1., 2.), 1, 1, '') for c in ('UnitSquare', 'Circle')]
             + [(c, (0., 1.), 2, 1, '') for c in ('UnitSquare', 'Circle')]  # time level difference 2: strictly nested time intervals
             + SHORT_T['quick'],
    'thorough': [(c, (0., 1.), 2, 3, '') for c in CURVES] + [(c, (0., 1., 2.), 1, 2, '') for c in CURVES]
                + [(c, (0., 0.125), 1, 2, '') for c in CURVES] + [(c, (0., 0.3, 1.), 1, 2, '') for c in CURVES]
                + [('LShape', (0., 1.), 1, 2, 'driver')] + SHORT_T['thorough'],
}
NAMED = ['identical', 'nested', 'touching', 'seam-touching', 'seam-corner', 'corner', 'disjoint-same-side',
         'disjoint-other-side', 'disjoint-nearer-through-seam']


def run(ctx):
    os.environ['VERIF_C01_FRESH'] = '1' if ctx.tier == 'thorough' else '0'
    # ---- Layer A
    levA = 3 if ctx.tier == 'quick' else 5
    resA = pmap(layerA_curve, [(c, levA) for c in CURVES], ctx.jobs, chunksize=1)
    statesA = transA = 0
    sigsA = {}
    for cname, n, nterm, nsig, viols, nv, top in resA:
        statesA += n
        transA += nterm
        sigsA[cname] = {'calls': n, 'terminal_panels': nterm, 'distinct_branch_signatures': nsig}
        for tag, det in viols:
            ctx.violation({'layer': 'A', 'curve': cname, 'tag': tag}, 'panel recursion on {}: {} {}'.format(cname, tag, det),
                          {'layer': 'A', 'curve': cname, 'level': levA, 'tag': tag, 'detail': det})
    if statesA == 0:
        ctx.note('layer A not applicable on this tree: the private panel recursion (a method with parameters f, a, b, c, d) was not found; the values (layer B) decide alone')
    resS = pmap(layerA_swap, list(CURVES), ctx.jobs, chunksize=1)
    nswap = 0
    for cname, n, viols, nv in resS:
        nswap += n
        for tag, det in viols:
            ctx.violation({'layer': 'A-swap', 'curve': cname, 'tag': tag}, 'bilform variable order on {}: {} {}'.format(cname, tag, det),
                          {'layer': 'A-swap', 'curve': cname})
    # ---- Layer B
    items = []
    sizes = {}
    for key in LAYER_B[ctx.tier]:
        g, els, *_ = get_universe(key)
        N = len(els)
        sizes['{} t={} Lt={} Lx={} {}'.format(*key)] = {'elements': N, 'ordered_pairs': N * N}
        step = max(50, N * N // (ctx.jobs * 6))
        for lo in range(0, N * N, step):
            items.append((key, lo, min(N * N, lo + step)))
    rng = __import__('random').Random(ctx.seed)
    rng.shuffle(items)  # load balancing only
    resB = pmap(layerB_chunk, items, ctx.jobs, chunksize=1)
    nB = 0
    nfresh = 0
    nbit = 0
    nontriv = 0
    classes = {}
    samples = []
    for it, r in zip(items, resB):
        nB += r['n']
        nfresh += r.get('n_fresh', 0)
        nbit += r.get('n_bitwise_differs', 0)
        nontriv += r['nontrivial']
        for k, (cnt, mx) in r['classes'].items():
            c = classes.setdefault(k, [0, 0.0])
            c[0] += cnt
            c[1] = max(c[1], mx)
        for v in r['viols']:
            ctx.violation({'layer': 'B', 'curve': v['curve'], 'pw_exact': v['pw_exact'], 'class': v['class'].split('|')[0]},
                          'bilform on {} pw_exact={} class {}: test {} trial {}: error {:.3e} * sqrt(D D\') (tol 1e-7); {}'.format(
                              v['curve'], v['pw_exact'], v['class'], v['test'], v['trial'], v['err'], v['what']),
                          dict(v, layer='B'))
        # unreported violations still count
        extra = r['nviol'] - len(r['viols'])
        if extra > 0:
            ctx.n_viol += 0  # (already represented by the reported ones of the same chunk)
    hkeys = [(c, (0., 1.), 0, 1, '') for c in CURVES]
    hitems = [(a, b) for a in hkeys for b in hkeys if a != b]
    resH = common.pmap_fresh(history_task, hitems, ctx.jobs)
    nH = 0
    for it, r in zip(hitems, resH):
        nH += r['n']
        for v in r['viols']:
            ctx.violation({'layer': 'B-history', 'curve': v['curve'], 'pw_exact': v['pw_exact'], 'class': v['class']},
                          'bilform on {} pw_exact={} {}: test {} trial {}: {}'.format(v['curve'], v['pw_exact'], v['class'], v['test'], v['trial'], v['what']),
                          dict(v, layer='B'))
    qitems = [(c, sw) for c in CURVES for sw in (False, True)]
    nQ = 0
    for it, r in zip(qitems, common.pmap_fresh(quarters_lifecycle_task, qitems, ctx.jobs)):
        nQ += r['n']
        for v in r['viols']:
            ctx.violation({'layer': 'B-quarters-lifecycle', 'curve': v['curve'], 'pw_exact': v['pw_exact'], 'class': v['class']},
                          'bilform on {} pw_exact={} {}: test {} trial {}: error {:.3e} * sqrt(D D\') (tol 1e-7); {}'.format(
                              v['curve'], v['pw_exact'], v['class'], v['test'], v['trial'], v['err'], v['what']),
                          dict(v, layer='B-quarters-lifecycle'))
    if not nQ:
        raise common.HarnessError('vacuity guard: quarters lifecycle clause empty')
    have = set(k.split('|')[0] for k in classes)
    missing = [c for c in ('identical', 'nested', 'touching', 'corner', 'seam-corner', 'seam-touching',
                           'disjoint-same-side', 'disjoint-other-side', 'disjoint-nearer-through-seam') if c not in have]
    tcl = set(k.split('|')[1] for k in classes)
    missing += [t for t in ('equal', 'overlapping', 'touching', 'separated', 'acausal') if t not in tcl]
    if missing:
        raise common.HarnessError('vacuity guard: classes without members: {}'.format(missing))
    cov = {
        'states': statesA, 'transitions': transA, 'traces_validated_against_impl': statesA,
        'layerA': sigsA, 'layerA_level': levA, 'layerA_bilform_swap_pairs': nswap,
        'evaluations': nB, 'distinct_nontrivial': nontriv, 'operator_history_evaluations_against_the_oracle': nfresh, 'observation_history_values_bitwise_different': nbit, 'cross_curve_history_evaluations_in_fresh_processes': nH,
        'cross_curve_histories': len(hitems), 'virtual_quarters_lifecycle_histories': len(qitems), 'virtual_quarters_lifecycle_evaluations': nQ,
        'rule': 'Layer B: every ordered (test, trial) pair of the dyadic rectangle universes listed in layerB_universes '
                '(real elements, aspect <= 32), each with pw_exact off and on; distinct by construction; non-trivial = causal '
                '(test interval ends after the trial interval begins)',
        'layerB_universes': sizes,
        'class_histogram_count_and_worst_error': {k: [v[0], float('%.3g' % v[1])] for k, v in sorted(classes.items())},
        'worst_error_in_units_of_sqrtDD': max(v[1] for v in classes.values()),
        'samples': [{'layerA_call': [0.0, 0.25, 0.5, 1.0], 'curve': 'UnitSquare'},
                    {'layerB_pair': {'test': [[0.0, 0.5], [0.0, 0.25]], 'trial': [[0.0, 1.0], [0.75, 1.0]], 'curve': 'Circle'}}],
        'exhaustive': True,
    }
    return ctx.finish('model_checking', cov, [
        'entry oracle mc/oracle.py (validated against mpmath to 4e-13 on straight pieces, tools/validate_oracle.py)',
        'dyadic rectangle universes to the stated levels; aspect filter h_x^2/h_t <= 32 as in the property'])


def replay(ctx, data):
    if data.get('layer') == 'B-quarters-lifecycle':
        r = common.pmap_fresh(quarters_lifecycle_task, [(data['curve'], data['pw_exact'])], 1)[0]
        for v in r['viols']:
            print('  ', v)
        return not r['nviol']
    if data.get('layer') == 'B':
        key = (data['curve'], tuple(data['tgrid']), 2, 3, '')
        g = curve(data['curve'])
        orc = oracle.EntryOracle(g)
        SL = universe.make_SL(data['curve'], data['pw_exact'], tuple(data['tgrid']))

        class E:
            pass
        els = []
        for t, x in (data['test'], data['trial']):
            e = E()
            e.time_interval, e.space_interval = tuple(t), tuple(x)
            e.h_t, e.h_x = t[1] - t[0], x[1] - x[0]
            e.gamma_space = orc.piece(e)
            els.append(e)
        te, tr = els
        val = float(SL.bilform(tr, te))
        ref = orc.value(tr, te)
        err = abs(val - ref) / math.sqrt(orc.diag(te) * orc.diag(tr))
        print('computed', val, 'exact', ref, 'error/sqrt(DD\')', err)
        return err <= TOL
    if data.get('layer') == 'A':
        r = layerA_curve((data['curve'], data['level']))
        print(r[4])
        return r[5] == 0
    r = layerA_swap(data['curve'])
    print(r[2])
    return r[3] == 0
