"""C17 - assembly paths, worker schedules and the disk cache are transparent  (S2, fault enumeration).

Every deciding step is an exhaustive enumeration over the real code, compared BITWISE (dtype, shape, np.array_equal)
with single evaluations on fresh operators:
  (a) paths      inline / serial / pool for rectangular test x trial sub-lists on both sides of N*M = 100, three curves x
                 three meshes, rows = test and columns = trial pinned by asymmetric pairs;
  (b) schedules  ALL feasible schedules (set partitions of the chunk sequence into <= cpu blocks) x cpu 1..16 of the
                 fork-faithful virtual pool (mc/vpool.py) for bilform_matrix, linform_vector, estimate_sobolev (two maps on
                 one pool), estimate_weighted_l2; every completion order if an unordered API shows up;
  (c) crash      every proper prefix length of the stored .npy (matrix and vector), reader-rejected garbage variants;
  (d) histories  explicit-state search over call / fault histories against one cache directory in lock-step with a
                 dictionary model of the cache.
Out of scope by the property's wording: operators with different quad_order / pw_exact sharing one directory."""
import itertools
import math
import os
import struct
import sys
import time
import traceback

import numpy as np

from mc import common, faultfs, vpool
from mc.common import HarnessError

CTL = vpool.install()
faultfs.install()

from mc import meshmc, universe  # noqa: E402
from mc.meshmc import curve as get_curve  # noqa: E402

import src.error_estimator as EEM  # noqa: E402
import src.initial_mesh as IMM  # noqa: E402
import src.initial_potential as IPM  # noqa: E402
import src.single_layer as SLM  # noqa: E402
from src.mesh import MeshParametrized  # noqa: E402

vpool.install()
for _m in (SLM, IPM, EEM):
    _m.print = lambda *a, **k: None

_MEMO = {}


def memo(key, fn):
    if key not in _MEMO:
        _MEMO[key] = fn()
    return _MEMO[key]


def reset_globals():
    """Forget what earlier calls in this process handed to their workers (module globals of the code under test)."""
    for mod, names in ((SLM, ('__SL', '__elems_test', '__elems_trial')), (IPM, ('__M0', '__elems')),
                       (EEM, ('__residual', '__elems', '__error_estimator'))):
        for n in names:
            vars(mod).pop(n, None)


# =====================================================================================================
# element universe
def rect(e):
    return tuple(float(v) for v in (tuple(e.time_interval) + tuple(e.space_interval)))


def _pick_leaf(m, pred):
    return min((e for e in m.leaf_elements if pred(e)), key=lambda e: (e.h_x, e.h_t, rect(e)))


def build_mesh(cname, kind):
    cfg = meshmc.PARAM[cname]
    if kind == 'initial':
        return meshmc.fresh(cfg)
    if kind.startswith('uniform'):
        m = meshmc.fresh(cfg)
        for _ in range(int(kind[7:])):
            m.uniform_refine()
        return m
    if kind == 'history':
        # bisections at both sides of the seam / first corner and in the middle: nested, seam and hanging-node pairs
        m = meshmc.fresh(cfg)
        L = float(m.gamma_space.gamma_length)
        steps = [(lambda e: e.space_interval[0] == 0, 1), (lambda e: e.space_interval[1] == L, 0),
                 (lambda e: e.space_interval[0] == 0, 1),
                 (lambda e: e.space_interval[1] == L and e.time_interval[0] == 0, 1),
                 (lambda e: e.space_interval[0] > 0 and e.space_interval[1] < L, 0),
                 (lambda e: e.space_interval[0] == 0 and e.time_interval[0] == 0, 0)]
        for pred, ax in steps:
            m.refine_axis(_pick_leaf(m, pred), ax)
        return m
    if kind.startswith('level'):
        _, lt, lx = kind.split(':')
        return universe.level_mesh(cname, (0., 1.), int(lt), int(lx))
    if kind == 'twin':
        # space cells of length 1/2 on x in [0,4] on both the unit square and the L-shape (whose third and fourth
        # sides have length 2): identical (t, x) intervals - identical reprs - on two different curves
        m = universe.level_mesh(cname, (0., 1.), 2, 1)
        for e in [e for e in list(m.leaf_elements) if e.h_x > 0.75]:
            if e in m.leaf_elements:
                m.refine_space(e)
        return m
    raise HarnessError('unknown mesh kind ' + kind)


def universe_of(cname, kind, tag='test'):
    """(mesh, {rect: element}, sorted rects): every tree node below the leaves of the initial mesh.  `tag` separates
    independent builds (the reference never touches the objects handed to the code under test)."""
    def mk():
        m = build_mesh(cname, kind)
        init = [rect(e) for e in meshmc.fresh(meshmc.PARAM[cname]).leaf_elements]
        out = {}
        stack = list(m.roots)
        while stack:
            e = stack.pop()
            stack.extend(e.children)
            r = rect(e)
            if any(i[0] <= r[0] and r[1] <= i[1] and i[2] <= r[2] and r[3] <= i[3] for i in init):
                out[r] = e
        return m, out, sorted(out)
    return memo(('U', cname, kind, tag), mk)


def pick_lists(order, N, M, variant=0):
    """Deterministic rectangular sub-lists.  trial alternates earliest / latest elements (an early-time column is
    followed by a late-time column); test strides through the whole universe (cyclically if it is small)."""
    n = len(order)
    trial = []
    for k in range(M):
        i = (variant + k // 2) if k % 2 == 0 else (n - 1 - variant - k // 2)
        trial.append(order[i % n])
    step = next(s for s in (7, 5, 3, 11, 13, 1) if math.gcd(s, n) == 1)
    test = [order[(1 + 3 * variant + k * step) % n] for k in range(N)]
    return [list(r) for r in test], [list(r) for r in trial]


def elems_of(nodes, rects):
    try:
        return [nodes[tuple(r)] for r in rects]
    except KeyError as ex:
        raise HarnessError('element {} not in the universe'.format(ex))


def ref_matrix(cname, kind, test_r, trial_r):
    """Entry (i, j) = bilform(trial_j, test_i) evaluated alone on a FRESH operator, elements from an independent build."""
    key = ('R', cname, kind, tuple(map(tuple, test_r)), tuple(map(tuple, trial_r)))

    def mk():
        _, nodes, _ = universe_of(cname, kind, 'ref')
        te, tr = elems_of(nodes, test_r), elems_of(nodes, trial_r)
        ref = np.zeros((len(te), len(tr)))
        for i, a in enumerate(te):
            for j, b in enumerate(tr):
                SL = universe.make_SL(cname)
                ref[i, j] = SL.bilform(b, a)
        if not np.all(np.isfinite(ref)):
            raise HarnessError('reference matrix is not finite')
        return ref
    return memo(key, mk)


def stale_sensitive(cname, kind, test_r, trial_r, ref):
    """Number of (i, j1 < j2) with ref[i, j1] != 0 and test_i acausal w.r.t. trial_j2: a scratch column reused
    without zeroing would leave ref[i, j1] in column j2 if one worker processes j1 before j2."""
    n = 0
    for j2 in range(len(trial_r)):
        for i in range(len(test_r)):
            if test_r[i][1] <= trial_r[j2][0]:
                n += sum(1 for j1 in range(j2) if ref[i, j1] != 0)
    return n


def diff(got, ref):
    if not isinstance(got, np.ndarray):
        return 'returned {} instead of an ndarray'.format(type(got).__name__)
    if got.dtype != ref.dtype:
        return 'dtype {} instead of {}'.format(got.dtype, ref.dtype)
    if got.shape != ref.shape:
        return 'shape {} instead of {}'.format(got.shape, ref.shape)
    if np.array_equal(got, ref):
        return None
    bad = np.argwhere(~(got == ref))
    i = tuple(int(x) for x in bad[0])
    msg = '{} of {} entries differ from the single evaluations, first at {}: got {!r}, alone {!r}'.format(
        len(bad), ref.size, i, float(got[i]), float(ref[i]))
    if got.ndim == 2 and got.shape[0] == got.shape[1] and np.array_equal(got, ref.T):
        msg += ' (the result is the transpose: rows/columns swapped)'
    return msg


def same_bits(a, b):
    """Structural bitwise comparison of task results (floats by their IEEE bits)."""
    if isinstance(a, np.ndarray) or isinstance(b, np.ndarray):
        return isinstance(a, np.ndarray) and isinstance(b, np.ndarray) and a.dtype == b.dtype and a.shape == b.shape \
            and a.tobytes() == b.tobytes()
    if isinstance(a, (tuple, list)) or isinstance(b, (tuple, list)):
        return isinstance(a, (tuple, list)) and isinstance(b, (tuple, list)) and len(a) == len(b) \
            and all(same_bits(x, y) for x, y in zip(a, b))
    if isinstance(a, (float, np.floating)) or isinstance(b, (float, np.floating)):
        try:
            return struct.pack('<d', float(a)) == struct.pack('<d', float(b))
        except (TypeError, ValueError):
            return False
    return a == b


def guarded(fn):
    """Runs one call into the code under test inside a controller window: ('ok', value) or ('raised', text)."""
    with CTL.window():
        try:
            return 'ok', fn()
        except HarnessError:
            raise
        except Exception as ex:  # noqa: BLE001
            tb = traceback.extract_tb(ex.__traceback__)
            loc = ''
            for fr in reversed(tb):
                if '/src/' in fr.filename:
                    loc = ' at {}:{} `{}`'.format(os.path.basename(fr.filename), fr.lineno, fr.line)
                    break
            remote = ''
            if isinstance(ex.__cause__, vpool.RemoteTraceback):
                lines = [l for l in str(ex.__cause__).strip().splitlines() if l.strip()]
                remote = ' [in pool worker: {}]'.format(' | '.join(x.strip() for x in lines[-3:]))
            return 'raised', '{}: {}{}{}'.format(type(ex).__name__, ex, loc, remote)


def log_info():
    """Summary of what the virtual pools of the last call did."""
    pools = CTL.log
    info = {'pools': len(pools), 'workers': [p['n'] for p in pools], 'nchunks': 0, 'chunk_sizes': [],
            'fresh': 0, 'used': 0, 'n_orders': 1, 'apis': []}
    for p in pools:
        for c in p['calls']:
            info['apis'].append(c['api'])
            info['nchunks'] += len(c['workers'])
            info['chunk_sizes'].append([len(x) for x in c['chunks'] if x is not None])
            info['fresh'] += sum(1 for f in c['fresh'] if f)
            info['used'] += sum(1 for f in c['fresh'] if not f)
            info['n_orders'] = max(info['n_orders'], c.get('n_orders', 1))
    return info


def check_assign_consumed(assign, info):
    if isinstance(assign, (list, tuple)) and info['pools'] and info['nchunks'] != len(assign):
        raise HarnessError('schedule has {} entries but {} chunks were submitted'.format(len(assign), info['nchunks']))


class Acct:
    """Per work-item resource accounting of the virtual pool (forks == reaped, fds do not grow)."""
    def __init__(self):
        self.f0, self.r0, self.u0, self.fd0 = CTL.forks, CTL.reaped, CTL.uncontrolled, vpool.open_fds()

    def done(self):
        CTL.reap()
        d = {'forks': CTL.forks - self.f0, 'reaped': CTL.reaped - self.r0, 'uncontrolled': CTL.uncontrolled - self.u0,
             'fd_delta': vpool.open_fds() - self.fd0}
        if d['forks'] != d['reaped']:
            raise HarnessError('virtual pool: {} workers forked but {} reaped'.format(d['forks'], d['reaped']))
        if d['fd_delta'] > 8:
            raise HarnessError('file descriptors leaked: +{}'.format(d['fd_delta']))
        return d


# =====================================================================================================
# bilform_matrix: one call
def new_SL(cname, kind, cache_dir=None):
    m, nodes, _ = universe_of(cname, kind, 'test')
    return SLM.SingleLayerOperator(m, cache_dir=cache_dir), nodes


def bilform_call(spec, SL=None, nodes=None):
    """spec: curve, mesh, test, trial, use_mp, cpu, assign, rank.  Returns (problems, info, value)."""
    if SL is None:
        SL, nodes = new_SL(spec['curve'], spec['mesh'], spec.get('cache_dir'))
    te, tr = elems_of(nodes, spec['test']), elems_of(nodes, spec['trial'])
    ref = ref_matrix(spec['curve'], spec['mesh'], spec['test'], spec['trial'])
    CTL.configure(spec.get('cpu', 1), spec.get('assign'), spec.get('rank', 0), record_results=True)
    st, val = guarded(lambda: SL.bilform_matrix(te, tr, use_mp=spec['use_mp']))
    info = log_info()
    problems = []
    if st == 'raised':
        problems.append('bilform_matrix raised ' + val)
        val = None
    else:
        check_assign_consumed(spec.get('assign'), info)
        d = diff(val, ref)
        if d:
            # which chunk (column block) came back wrong, from a fresh or from a used worker?
            extra = ''
            try:
                c = CTL.log[0]['calls'][0]
                for k, (items, res) in enumerate(zip(c['chunks'], c.get('results', []))):
                    for j, col in zip(items, res):
                        if not (isinstance(col, np.ndarray) and col.shape == ref[:, j].shape and np.array_equal(col, ref[:, j])):
                            extra = '; task {} (chunk {} on worker {}, {}) returned a wrong column'.format(
                                j, k, c['workers'][k], 'fresh worker' if c['fresh'][k] else 'worker that ran other chunks before')
                            raise StopIteration
            except StopIteration:
                pass
            except Exception:  # noqa: BLE001
                pass
            problems.append(d + extra)
    return problems, info, val


def describe(spec):
    s = '{} on {}/{} {}x{} use_mp={}'.format(spec.get('fn', 'bilform_matrix'), spec['curve'], spec['mesh'],
                                            len(spec['test']), len(spec.get('trial', [])), spec.get('use_mp'))
    if spec.get('use_mp'):
        s += ' cpu={} schedule(chunk->worker)={}'.format(spec.get('cpu'), spec.get('assign'))
        if spec.get('rank'):
            s += ' completion-order#{}'.format(spec['rank'])
    return s


# =====================================================================================================
# (a) paths
PATH_SHAPES_INLINE = ((32, 3), (8, 12), (33, 3), (9, 11))  # N*M = 96, 96, 99, 99
PATH_SHAPES_BIG = ((10, 10), (25, 4), (20, 5), (34, 3), (17, 6), (10, 12), (20, 6), (12, 10))  # 100, 102, 120
PATH_CURVES = ('UnitSquare', 'Circle', 'LShape')
PATH_MESHES = ('initial', 'uniform1', 'history')


def work_paths(item):
    cname, kind = item['curve'], item['mesh']
    acct = Acct()
    _, nodes_t, order = universe_of(cname, kind, 'test')
    out = {'clause': 'paths', 'n': 0, 'viols': [], 'classes': {}, 'asym_pairs': 0, 'entries': 0, 'nontrivial': set(),
           'pool_calls': 0, 'inline_pools': 0, 'samples': []}
    reset_globals()
    SL, nodes = new_SL(cname, kind)
    g = get_curve(cname)
    for (N, M) in PATH_SHAPES_INLINE + PATH_SHAPES_BIG:
        test_r, trial_r = pick_lists(order, N, M, variant=(N + M) % 3)
        ref = ref_matrix(cname, kind, test_r, trial_r)
        te, tr = elems_of(nodes, test_r), elems_of(nodes, trial_r)
        for a in te[:12]:
            for b in tr:
                k = universe.space_class(g, a, b) + '/' + universe.time_class(a, b)
                out['classes'][k] = out['classes'].get(k, 0) + 1
        # a transposed result must differ: by shape, or (square case) by value
        if N == M and np.array_equal(ref, ref.T):
            raise HarnessError('square path case {}x{} on {}/{} has a symmetric reference'.format(N, M, cname, kind))
        common_r = [r for r in map(tuple, test_r) if r in set(map(tuple, trial_r))]
        out['asym_pairs'] += sum(1 for a in common_r for b in common_r if a < b and
                                 ref[list(map(tuple, test_r)).index(a), list(map(tuple, trial_r)).index(b)] !=
                                 ref[list(map(tuple, test_r)).index(b), list(map(tuple, trial_r)).index(a)])
        inline = N * M < 100
        variants = [(False, None, None), (True, 3, None)]
        if not inline:
            variants.append((True, 16, None))
            variants.append((True, 2, [k % 2 for k in range(M)]))
        for use_mp, cpu, assign in variants:
            spec = {'clause': 'paths', 'fn': 'bilform_matrix', 'curve': cname, 'mesh': kind, 'test': test_r, 'trial': trial_r,
                    'use_mp': use_mp, 'cpu': cpu or 1, 'assign': assign}
            # a fresh operator for every other call, a long-lived one otherwise
            fresh = (out['n'] % 2 == 0)
            if fresh:
                SLx, nodesx = new_SL(cname, kind)
            else:
                SLx, nodesx = SL, nodes
            problems, info, _ = bilform_call(spec, SLx, nodesx)
            out['n'] += 1
            out['entries'] += N * M
            out['nontrivial'].add((cname, kind, N, M, 'inline' if inline else ('pool' if use_mp else 'serial')))
            if use_mp and not inline:
                out['pool_calls'] += 1 if info['pools'] else 0
            if inline and info['pools']:
                out['inline_pools'] += 1
            for p in problems:
                if len(out['viols']) < 3:
                    path = 'inline' if inline else ('pool' if use_mp else 'serial')
                    out['viols'].append(({'clause': 'paths', 'fn': 'bilform_matrix', 'path': path},
                                         describe(spec) + ': ' + p, spec))
        if len(out['samples']) < 1:
            out['samples'].append({'clause': 'paths', 'curve': cname, 'mesh': kind, 'shape': [N, M], 'test[:3]': test_r[:3],
                                   'trial': trial_r[:3]})
    out['nontrivial'] = sorted(out['nontrivial'])
    out['acct'] = acct.done()
    return out


# =====================================================================================================
# (b) schedules of bilform_matrix
SCHED_SHAPES = ((34, 3), (25, 4), (20, 5), (17, 6))
SCHED_MESH = 'uniform2'


def sched_lists(cname, kind, N, M):
    _, _, order = universe_of(cname, kind, 'test')
    X = pick_lists(order, N, M, 0)
    Y = pick_lists(order, N, M, 1)
    return X, Y


def sched_spec(cname, kind, lists, cpu, assign, rank=0):
    return {'clause': 'schedule', 'fn': 'bilform_matrix', 'curve': cname, 'mesh': kind, 'test': lists[0], 'trial': lists[1],
            'use_mp': True, 'cpu': cpu, 'assign': None if assign is None else list(assign), 'rank': rank}


def work_probe(item):
    """Which pool and which chunks does bilform_matrix create for this shape and cpu count?"""
    cname, kind, N, M, cpu = item['curve'], item['mesh'], item['N'], item['M'], item['cpu']
    acct = Acct()
    X, _ = sched_lists(cname, kind, N, M)
    reset_globals()
    spec = sched_spec(cname, kind, X, cpu, None)
    spec['assign'] = None
    CTL.configure(cpu, lambda k, n: 0)
    SL, nodes = new_SL(cname, kind)
    te, tr = elems_of(nodes, X[0]), elems_of(nodes, X[1])
    st, val = guarded(lambda: SL.bilform_matrix(te, tr, use_mp=True))
    info = log_info()
    acct.done()
    return {'status': st, 'pools': info['pools'], 'workers': info['workers'], 'chunk_sizes': info['chunk_sizes'],
            'nchunks': info['nchunks'], 'apis': info['apis'], 'what': val if st == 'raised' else None}


def run_schedule_case(spec, prev, call_fn):
    """reset; optional predecessor call (its globals are what a worker forked too early would see); the call."""
    reset_globals()
    if prev is not None:
        call_fn(prev)
    return call_fn(spec)


def work_sched_bilform(item):
    cname, kind, N, M, cpu = item['curve'], item['mesh'], item['N'], item['M'], item['cpu']
    acct = Acct()
    X, Y = sched_lists(cname, kind, N, M)
    refs = [ref_matrix(cname, kind, *X), ref_matrix(cname, kind, *Y)]
    sens = [stale_sensitive(cname, kind, X[0], X[1], refs[0]), stale_sensitive(cname, kind, Y[0], Y[1], refs[1])]
    parts = list(itertools.islice(vpool.set_partitions(item['nchunks'], item['nworkers']), item['lo'], item['hi']))
    out = {'clause': 'schedule', 'fn': 'bilform_matrix', 'n': 0, 'schedules': len(parts), 'viols': [], 'nonrepro': [],
           'fresh': 0, 'used': 0, 'twice': 0, 'orders': 0, 'sens': sens, 'samples': [], 'distinct': set()}
    SL, nodes = new_SL(cname, kind)
    reset_globals()
    prev = None

    def report(spec, prev, p):
        if len(out['viols']) < 3:
            rp = dict(spec)
            rp['prev'] = prev
            out['viols'].append(({'clause': 'schedule', 'fn': 'bilform_matrix'}, describe(spec) + ': ' + p, rp))

    for idx, assign in enumerate(parts):
        for v, lists in enumerate((X, Y)):
            spec = sched_spec(cname, kind, lists, cpu, assign)
            problems, info, val = bilform_call(spec, SL, nodes)
            out['n'] += 1
            out['fresh'] += info['fresh']
            out['used'] += info['used']
            out['distinct'].add((N, M, cpu, tuple(assign), v))
            for p in problems:
                report(spec, prev, p)
            this = spec
            # every completion order of an unordered API
            if info['n_orders'] > 1 and not problems:
                for rank in range(1, info['n_orders']):
                    s2 = sched_spec(cname, kind, lists, cpu, assign, rank)
                    pr2, _, _ = bilform_call(s2, SL, nodes)
                    out['n'] += 1
                    out['orders'] += 1
                    if pr2:
                        report(s2, this, pr2[0])
                        break
                    this = s2
            # determinism self-check: the same schedule again must give the same bits
            if (item['lo'] + idx) % item['twice_mod'] == 0 and val is not None:
                _, _, val2 = bilform_call(spec, SL, nodes)
                out['n'] += 1
                out['twice'] += 1
                if val2 is None or not same_bits(val, val2):
                    out['nonrepro'].append(describe(spec))
            prev = this
        if idx == 0 and item['lo'] == 0 or idx == len(parts) - 1:
            if len(out['samples']) < 2:
                out['samples'].append({'clause': 'schedule', 'fn': 'bilform_matrix', 'curve': cname, 'shape': [N, M], 'cpu': cpu,
                                       'chunk->worker': list(assign)})
    out['distinct'] = len(out['distinct'])
    out['acct'] = acct.done()
    return out


# =====================================================================================================
# initial-potential load vector
def u0_fn(y):
    return np.sin(y[0]) * y[1] + 0.5


INITIAL_MESHES = {'UnitSquare': 'UnitSquareBoundaryRefined', 'LShape': 'LShapeBoundaryRefined'}


def new_M0(cname, kind, tag='test', cache_dir=None):
    m, nodes, _ = universe_of(cname, kind, tag)
    M0 = IPM.InitialOperator(bdr_mesh=m, u0=u0_fn, initial_mesh=getattr(IMM, INITIAL_MESHES[cname]), cache_dir=cache_dir)
    return M0, nodes


def linform_status():
    """None if linform works on this tree; otherwise the text of the known NumPy-2 defect of initial_mesh.py (F2),
    which is repaired and reported elsewhere."""
    def mk():
        M0, nodes = new_M0('UnitSquare', 'uniform1', 'probe')
        e = nodes[sorted(nodes)[0]]
        try:
            M0.linform(e)
            return None
        except TypeError as ex:
            tb = traceback.extract_tb(ex.__traceback__)
            if any(fr.filename.endswith('initial_mesh.py') for fr in tb):
                fr = [fr for fr in tb if fr.filename.endswith('initial_mesh.py')][-1]
                return 'TypeError: {} at initial_mesh.py:{} `{}`'.format(ex, fr.lineno, fr.line)
            raise
    return memo(('linform-status', ), mk)


def ref_vector(cname, kind, rects):
    key = ('RV', cname, kind, tuple(map(tuple, rects)))

    def mk():
        out = np.zeros(len(rects))
        for j, r in enumerate(rects):
            M0, nodes = new_M0(cname, kind, 'ref')  # a fresh operator per element
            out[j] = M0.linform(nodes[tuple(r)])[0]
        if not np.all(np.isfinite(out)):
            raise HarnessError('reference vector is not finite')
        return out
    return memo(key, mk)


def linform_lists(cname, kind, N, variant):
    _, _, order = universe_of(cname, kind, 'test')
    n = len(order)
    step = next(s for s in (5, 7, 3, 11, 1) if math.gcd(s, n) == 1)
    return [list(order[(variant * 2 + k * step) % n]) for k in range(N)]


def linform_call(spec, M0=None, nodes=None):
    if M0 is None:
        M0, nodes = new_M0(spec['curve'], spec['mesh'], 'test', spec.get('cache_dir'))
    el = elems_of(nodes, spec['test'])
    ref = ref_vector(spec['curve'], spec['mesh'], spec['test'])
    CTL.configure(spec.get('cpu', 1), spec.get('assign'), spec.get('rank', 0), record_results=True)
    st, val = guarded(lambda: M0.linform_vector(el, use_mp=spec['use_mp']))
    info = log_info()
    problems = []
    if st == 'raised':
        problems.append('linform_vector raised ' + val)
        val = None
    else:
        check_assign_consumed(spec.get('assign'), info)
        d = diff(val, ref)
        if d:
            problems.append(d)
    return problems, info, val


def work_sched_linform(item):
    cname, kind, N, cpu = item['curve'], item['mesh'], item['N'], item['cpu']
    acct = Acct()
    lists = [linform_lists(cname, kind, N, 0), linform_lists(cname, kind, N, 1)]
    parts = list(itertools.islice(vpool.set_partitions(item['nchunks'], item['nworkers']), item['lo'], item['hi']))
    out = {'clause': 'schedule', 'fn': 'linform_vector', 'n': 0, 'schedules': len(parts), 'viols': [], 'nonrepro': [],
           'fresh': 0, 'used': 0, 'twice': 0, 'orders': 0, 'samples': [], 'distinct': set()}
    M0, nodes = new_M0(cname, kind)
    reset_globals()
    prev = None
    if item['lo'] == 0:
        # serial path against the single evaluations
        spec = {'clause': 'paths', 'fn': 'linform_vector', 'curve': cname, 'mesh': kind, 'test': lists[0], 'use_mp': False}
        problems, _, _ = linform_call(spec, M0, nodes)
        out['n'] += 1
        for p in problems:
            out['viols'].append(({'clause': 'paths', 'fn': 'linform_vector', 'path': 'serial'}, describe(spec) + ': ' + p, spec))
    for idx, assign in enumerate(parts):
        v = (item['lo'] + idx) % 2
        spec = {'clause': 'schedule', 'fn': 'linform_vector', 'curve': cname, 'mesh': kind, 'test': lists[v], 'use_mp': True,
                'cpu': cpu, 'assign': list(assign), 'rank': 0}
        problems, info, val = linform_call(spec, M0, nodes)
        out['n'] += 1
        out['fresh'] += info['fresh']
        out['used'] += info['used']
        out['distinct'].add((N, cpu, tuple(assign)))
        for p in problems:
            if len(out['viols']) < 3:
                rp = dict(spec)
                rp['prev'] = prev
                out['viols'].append(({'clause': 'schedule', 'fn': 'linform_vector'}, describe(spec) + ': ' + p, rp))
        if info['n_orders'] > 1 and not problems:
            for rank in range(1, info['n_orders']):
                s2 = dict(spec)
                s2['rank'] = rank
                pr2, _, _ = linform_call(s2, M0, nodes)
                out['n'] += 1
                out['orders'] += 1
                if pr2:
                    rp = dict(s2)
                    rp['prev'] = spec
                    out['viols'].append(({'clause': 'schedule', 'fn': 'linform_vector'}, describe(s2) + ': ' + pr2[0], rp))
                    break
        if (item['lo'] + idx) % item['twice_mod'] == 0 and val is not None:
            _, _, val2 = linform_call(spec, M0, nodes)
            out['n'] += 1
            out['twice'] += 1
            if val2 is None or not same_bits(val, val2):
                out['nonrepro'].append(describe(spec))
        prev = spec
        if len(out['samples']) < 1:
            out['samples'].append({'clause': 'schedule', 'fn': 'linform_vector', 'curve': cname, 'N': N, 'cpu': cpu,
                                   'chunk->worker': list(assign)})
    out['distinct'] = len(out['distinct'])
    out['acct'] = acct.done()
    return out


def work_probe_linform(item):
    cname, kind, N, cpu = item['curve'], item['mesh'], item['N'], item['cpu']
    acct = Acct()
    reset_globals()
    M0, nodes = new_M0(cname, kind)
    el = elems_of(nodes, linform_lists(cname, kind, N, 0))
    CTL.configure(cpu, lambda k, n: 0)
    st, val = guarded(lambda: M0.linform_vector(el, use_mp=True))
    info = log_info()
    acct.done()
    return {'status': st, 'pools': info['pools'], 'workers': info['workers'], 'chunk_sizes': info['chunk_sizes'],
            'nchunks': info['nchunks'], 'apis': info['apis'], 'what': val if st == 'raised' else None}


# =====================================================================================================
# estimators: two maps on one pool (estimate_sobolev), one map (estimate_weighted_l2)
def est_g(t, x):
    return math.sin(3 * t) * x[0, 0] + x[1, 0]**2 - 0.3


EST_PHI = (1.0, -0.5, 2.0, 0.25)


def est_setup(cname, npoly):
    """Fresh mesh (4 elements), operator, estimator and residual closure."""
    m = meshmc.fresh(meshmc.PARAM[cname])
    elems = list(m.leaf_elements)
    if len(elems) != 4:
        raise HarnessError('estimator clause expects 4 initial elements on ' + cname)
    SL = SLM.SingleLayerOperator(m)
    est = EEM.ErrorEstimator(m, N_poly=npoly)
    res = est.residual(elems, np.array(EST_PHI), SL, g=est_g)
    return elems, est, res


def est_refs(cname, npoly):
    def mk():
        tasks = {'time': [], 'space': [], 'l2': []}
        for i in range(4):
            for kind in tasks:
                elems, est, res = est_setup(cname, npoly)  # everything fresh for every single task
                if kind == 'time':
                    tasks[kind].append(est.sobolev_time(elems[i], res, nbrs_symmetry=True))
                elif kind == 'space':
                    tasks[kind].append(est.sobolev_space(elems[i], res, nbrs_symmetry=True))
                else:
                    tasks[kind].append(est.weighted_l2(elems[i], res))
        elems, est, res = est_setup(cname, npoly)
        sob = est.estimate_sobolev(elems, res, use_mp=False)
        elems, est, res = est_setup(cname, npoly)
        wl2 = est.estimate_weighted_l2(elems, res, use_mp=False)
        # the serial weighted-L2 array is exactly the stacked single evaluations
        if not same_bits(wl2, np.array(tasks['l2'])):
            raise HarnessError('serial estimate_weighted_l2 differs from stacked single evaluations')
        return tasks, sob, wl2
    return memo(('EST', cname, npoly), mk)


def est_call(spec):
    cname, npoly, fn = spec['curve'], spec['npoly'], spec['fn']
    tasks, sob, wl2 = est_refs(cname, npoly)
    elems, est, res = est_setup(cname, npoly)
    CTL.configure(spec['cpu'], spec.get('assign'), spec.get('rank', 0), record_results=True)
    if fn == 'estimate_sobolev':
        st, val = guarded(lambda: est.estimate_sobolev(elems, res, use_mp=True))
        ref, expect = sob, tasks['time'] + tasks['space']
    else:
        st, val = guarded(lambda: est.estimate_weighted_l2(elems, res, use_mp=True))
        ref, expect = wl2, tasks['l2']
    info = log_info()
    problems = []
    if st == 'raised':
        problems.append(fn + ' raised ' + val)
        val = None
    else:
        check_assign_consumed(spec.get('assign'), info)
        d = diff(val, ref)
        if d:
            problems.append(d.replace('single evaluations', 'serial evaluation on a fresh estimator'))
        # task by task: what each worker returned against the single evaluation on a fresh estimator
        try:
            got = [(c['workers'][k], c['fresh'][k], r) for p in CTL.log for c in p['calls']
                   for k, rs in enumerate(c.get('results', [])) for r in (rs if isinstance(rs, list) else [rs])]
        except Exception:  # noqa: BLE001
            got = []
        if len(got) == len(expect):
            info['tasks_compared'] = len(got)
            for k, ((w, fresh, r), e) in enumerate(zip(got, expect)):
                if not same_bits(r, e):
                    problems.append('task {} returned {!r} on worker {} ({}), alone on a fresh estimator {!r}'.format(
                        k, r, w, 'fresh' if fresh else 'had run other chunks', e))
                    break
    return problems, info, val


def work_sched_est(item):
    acct = Acct()
    parts = list(itertools.islice(vpool.set_partitions(item['nchunks'], item['nworkers']), item['lo'], item['hi']))
    fn = item['fn']
    out = {'clause': 'schedule', 'fn': fn, 'n': 0, 'schedules': len(parts), 'viols': [], 'nonrepro': [], 'fresh': 0,
           'used': 0, 'twice': 0, 'orders': 0, 'samples': [], 'distinct': set(), 'tasks_compared': 0}
    reset_globals()
    for idx, assign in enumerate(parts):
        spec = {'clause': 'schedule', 'fn': fn, 'curve': item['curve'], 'npoly': item['npoly'], 'cpu': item['cpu'],
                'assign': list(assign), 'rank': 0}
        problems, info, val = est_call(spec)
        out['n'] += 1
        out['fresh'] += info['fresh']
        out['used'] += info['used']
        out['tasks_compared'] += info.get('tasks_compared', 0)
        out['distinct'].add((fn, item['cpu'], tuple(assign)))
        for p in problems[:1]:
            if len(out['viols']) < 3:
                out['viols'].append(({'clause': 'schedule', 'fn': fn},
                                     '{} on {} (4 elements, N_poly={}) cpu={} schedule={}: {}'.format(
                                         fn, item['curve'], item['npoly'], item['cpu'], list(assign), p), spec))
        if info['n_orders'] > 1 and not problems:
            for rank in range(1, info['n_orders']):
                s2 = dict(spec)
                s2['rank'] = rank
                pr2, _, _ = est_call(s2)
                out['n'] += 1
                out['orders'] += 1
                if pr2:
                    out['viols'].append(({'clause': 'schedule', 'fn': fn}, '{} completion order {}: {}'.format(fn, rank, pr2[0]), s2))
                    break
        if (item['lo'] + idx) % item['twice_mod'] == 0 and val is not None:
            _, _, val2 = est_call(spec)
            out['n'] += 1
            out['twice'] += 1
            if val2 is None or not same_bits(val, val2):
                out['nonrepro'].append('{} {}'.format(fn, list(assign)))
        if len(out['samples']) < 1:
            out['samples'].append({'clause': 'schedule', 'fn': fn, 'curve': item['curve'], 'cpu': item['cpu'],
                                   'chunk->worker': list(assign)})
    out['distinct'] = len(out['distinct'])
    out['acct'] = acct.done()
    return out


def work_probe_est(item):
    acct = Acct()
    reset_globals()
    elems, est, res = est_setup(item['curve'], item['npoly'])
    CTL.configure(item['cpu'], lambda k, n: 0)
    if item['fn'] == 'estimate_sobolev':
        st, val = guarded(lambda: est.estimate_sobolev(elems, res, use_mp=True))
    else:
        st, val = guarded(lambda: est.estimate_weighted_l2(elems, res, use_mp=True))
    info = log_info()
    acct.done()
    return {'status': st, 'pools': info['pools'], 'workers': info['workers'], 'chunk_sizes': info['chunk_sizes'],
            'nchunks': info['nchunks'], 'apis': info['apis'], 'what': val if st == 'raised' else None}
