"""C17 - assembly paths, worker schedules and the disk cache are transparent  (S2, fault enumeration).

Every deciding step is an exhaustive enumeration over the real code, compared BITWISE (dtype, shape, np.array_equal)
with single evaluations on fresh operators:
  (a) paths      inline / serial / pool for rectangular test x trial sub-lists on both sides of N*M = 100, three curves x
                 three meshes, rows = test and columns = trial pinned by asymmetric pairs;
  (b) schedules  ALL feasible schedules (set partitions of the chunk sequence into <= cpu blocks) x cpu 1..16 of the
                 fork-faithful virtual pool (mc/vpool.py) for bilform_matrix, linform_vector, estimate_sobolev (two maps on
                 one pool), estimate_weighted_l2; every completion order if an unordered API shows up;
  (c) crash      every proper prefix length of the stored .npy (matrix and vector), reader-rejected garbage variants;
  (d) histories  explicit-state search over call / fault histories against one cache directory in lock-step with a
                 dictionary model of the cache.
Out of scope by the property's wording: operators with different quad_order / pw_exact sharing one directory."""
import contextlib
import io
import itertools
import math
import os
import struct
import sys
import time
import traceback

import numpy as np

from mc import common, faultfs, vpool
from mc.common import HarnessError

CTL = vpool.install()
faultfs.install()

from mc import meshmc, universe  # noqa: E402
from mc.meshmc import curve as get_curve  # noqa: E402

import src.error_estimator as EEM  # noqa: E402
import src.initial_mesh as IMM  # noqa: E402
import src.initial_potential as IPM  # noqa: E402
import src.single_layer as SLM  # noqa: E402
from src.mesh import MeshParametrized  # noqa: E402

vpool.install()
for _m in (SLM, IPM, EEM):
    _m.print = lambda *a, **k: None

_MEMO = {}


def memo(key, fn):
    if key not in _MEMO:
        _MEMO[key] = fn()
    return _MEMO[key]


def reset_globals():
    """Forget what earlier calls in this process handed to their workers (module globals of the code under test)."""
    for mod, names in ((SLM, ('__SL', '__elems_test', '__elems_trial')), (IPM, ('__M0', '__elems')),
                       (EEM, ('__residual', '__elems', '__error_estimator'))):
        for n in names:
            vars(mod).pop(n, None)


# =====================================================================================================
# element universe
def rect(e):
    return tuple(float(v) for v in (tuple(e.time_interval) + tuple(e.space_interval)))


def _pick_leaf(m, pred):
    return min((e for e in m.leaf_elements if pred(e)), key=lambda e: (e.h_x, e.h_t, rect(e)))


def build_mesh(cname, kind):
    cfg = meshmc.PARAM[cname]
    if kind == 'initial':
        return meshmc.fresh(cfg)
    if kind.startswith('uniform'):
        m = meshmc.fresh(cfg)
        for _ in range(int(kind[7:])):
            m.uniform_refine()
        return m
    if kind == 'history':
        # bisections at both sides of the seam / first corner and in the middle: nested, seam and hanging-node pairs
        m = meshmc.fresh(cfg)
        L = float(m.gamma_space.gamma_length)
        steps = [(lambda e: e.space_interval[0] == 0, 1), (lambda e: e.space_interval[1] == L, 0),
                 (lambda e: e.space_interval[0] == 0, 1),
                 (lambda e: e.space_interval[1] == L and e.time_interval[0] == 0, 1),
                 (lambda e: e.space_interval[0] > 0 and e.space_interval[1] < L, 0),
                 (lambda e: e.space_interval[0] == 0 and e.time_interval[0] == 0, 0)]
        for pred, ax in steps:
            m.refine_axis(_pick_leaf(m, pred), ax)
        return m
    if kind.startswith('level'):
        _, lt, lx = kind.split(':')
        return universe.level_mesh(cname, (0., 1.), int(lt), int(lx))
    if kind == 'twin':
        # space cells of length 1/2 on x in [0,4] on both the unit square and the L-shape (whose third and fourth
        # sides have length 2): identical (t, x) intervals - identical reprs - on two different curves
        m = universe.level_mesh(cname, (0., 1.), 2, 1)
        for e in [e for e in list(m.leaf_elements) if e.h_x > 0.75]:
            if e in m.leaf_elements:
                m.refine_space(e)
        return m
    raise HarnessError('unknown mesh kind ' + kind)


def universe_of(cname, kind, tag='test'):
    """(mesh, {rect: element}, sorted rects): every tree node below the leaves of the initial mesh.  `tag` separates
    independent builds (the reference never touches the objects handed to the code under test)."""
    def mk():
        m = build_mesh(cname, kind)
        init = [rect(e) for e in meshmc.fresh(meshmc.PARAM[cname]).leaf_elements]
        out = {}
        stack = list(m.roots)
        while stack:
            e = stack.pop()
            stack.extend(e.children)
            r = rect(e)
            if any(i[0] <= r[0] and r[1] <= i[1] and i[2] <= r[2] and r[3] <= i[3] for i in init):
                out[r] = e
        return m, out, sorted(out)
    return memo(('U', cname, kind, tag), mk)


def pick_lists(order, N, M, variant=0):
    """Deterministic rectangular sub-lists.  trial alternates earliest / latest elements (an early-time column is
    followed by a late-time column); test strides through the whole universe (cyclically if it is small)."""
    n = len(order)
    trial = []
    for k in range(M):
        i = (variant + k // 2) if k % 2 == 0 else (n - 1 - variant - k // 2)
        trial.append(order[i % n])
    step = next(s for s in (7, 5, 3, 11, 13, 1) if math.gcd(s, n) == 1)
    test = [order[(1 + 3 * variant + k * step) % n] for k in range(N)]
    return [list(r) for r in test], [list(r) for r in trial]


def elems_of(nodes, rects):
    try:
        return [nodes[tuple(r)] for r in rects]
    except KeyError as ex:
        raise HarnessError('element {} not in the universe'.format(ex))


def ref_matrix(cname, kind, test_r, trial_r):
    """Entry (i, j) = bilform(trial_j, test_i) evaluated alone on a FRESH operator, elements from an independent build."""
    key = ('R', cname, kind, tuple(map(tuple, test_r)), tuple(map(tuple, trial_r)))

    def mk():
        _, nodes, _ = universe_of(cname, kind, 'ref')
        te, tr = elems_of(nodes, test_r), elems_of(nodes, trial_r)
        ref = np.zeros((len(te), len(tr)))
        for i, a in enumerate(te):
            for j, b in enumerate(tr):
                SL = universe.make_SL(cname)
                try:
                    ref[i, j] = SL.bilform(b, a)
                except Exception as ex:  # noqa: BLE001
                    raise HarnessError('reference bilform failed on {} {} test {} trial {}: {!r}'.format(
                        cname, kind, test_r[i], trial_r[j], ex))
        if not np.all(np.isfinite(ref)):
            raise HarnessError('reference matrix is not finite')
        return ref
    return memo(key, mk)


def stale_sensitive(cname, kind, test_r, trial_r, ref):
    """Number of (i, j1 < j2) with ref[i, j1] != 0 and test_i acausal w.r.t. trial_j2: a scratch column reused
    without zeroing would leave ref[i, j1] in column j2 if one worker processes j1 before j2."""
    n = 0
    for j2 in range(len(trial_r)):
        for i in range(len(test_r)):
            if test_r[i][1] <= trial_r[j2][0]:
                n += sum(1 for j1 in range(j2) if ref[i, j1] != 0)
    return n


def diff(got, ref):
    if not isinstance(got, np.ndarray):
        return 'returned {} instead of an ndarray'.format(type(got).__name__)
    if got.dtype != ref.dtype:
        return 'dtype {} instead of {}'.format(got.dtype, ref.dtype)
    if got.shape != ref.shape:
        return 'shape {} instead of {}'.format(got.shape, ref.shape)
    if np.array_equal(got, ref):
        return None
    bad = np.argwhere(~(got == ref))
    i = tuple(int(x) for x in bad[0])
    msg = '{} of {} entries differ from the single evaluations, first at {}: got {!r}, alone {!r}'.format(
        len(bad), ref.size, i, float(got[i]), float(ref[i]))
    if got.ndim == 2 and got.shape[0] == got.shape[1] and np.array_equal(got, ref.T):
        msg += ' (the result is the transpose: rows/columns swapped)'
    return msg


def same_bits(a, b):
    """Structural bitwise comparison of task results (floats by their IEEE bits)."""
    if isinstance(a, np.ndarray) or isinstance(b, np.ndarray):
        return isinstance(a, np.ndarray) and isinstance(b, np.ndarray) and a.dtype == b.dtype and a.shape == b.shape \
            and a.tobytes() == b.tobytes()
    if isinstance(a, (tuple, list)) or isinstance(b, (tuple, list)):
        return isinstance(a, (tuple, list)) and isinstance(b, (tuple, list)) and len(a) == len(b) \
            and all(same_bits(x, y) for x, y in zip(a, b))
    if isinstance(a, (float, np.floating)) or isinstance(b, (float, np.floating)):
        try:
            return struct.pack('<d', float(a)) == struct.pack('<d', float(b))
        except (TypeError, ValueError):
            return False
    return a == b


def guarded(fn):
    """Runs one call into the code under test inside a controller window: ('ok', value) or ('raised', text)."""
    with CTL.window():
        try:
            return 'ok', fn()
        except HarnessError:
            raise
        except Exception as ex:  # noqa: BLE001
            tb = traceback.extract_tb(ex.__traceback__)
            loc = ''
            for fr in reversed(tb):
                if '/src/' in fr.filename:
                    loc = ' at {}:{} `{}`'.format(os.path.basename(fr.filename), fr.lineno, fr.line)
                    break
            remote = ''
            if isinstance(ex.__cause__, vpool.RemoteTraceback):
                lines = [l for l in str(ex.__cause__).strip().splitlines() if l.strip()]
                remote = ' [in pool worker: {}]'.format(' | '.join(x.strip() for x in lines[-3:]))
            return 'raised', '{}: {}{}{}'.format(type(ex).__name__, ex, loc, remote)


def _assign(a):
    """Schedules named by rule (independent of how many chunks the code under test decides to submit)."""
    if a == 'alternate':
        return lambda k, n: k % n
    return a


def log_info():
    """Summary of what the virtual pools of the last call did."""
    pools = CTL.log
    info = {'pools': len(pools), 'workers': [p['n'] for p in pools], 'nchunks': 0, 'chunk_sizes': [],
            'fresh': 0, 'used': 0, 'n_orders': 1, 'apis': []}
    for p in pools:
        for c in p['calls']:
            info['apis'].append(c['api'])
            info['nchunks'] += len(c['workers'])
            info['chunk_sizes'].append([len(x) for x in c['chunks'] if x is not None])
            info['fresh'] += sum(1 for f in c['fresh'] if f)
            info['used'] += sum(1 for f in c['fresh'] if not f)
            info['n_orders'] = max(info['n_orders'], c.get('n_orders', 1))
    return info


def check_assign_consumed(assign, info):
    if isinstance(assign, (list, tuple)) and info['pools'] and info['nchunks'] != len(assign):
        raise HarnessError('schedule has {} entries but {} chunks were submitted'.format(len(assign), info['nchunks']))


class Acct:
    """Per work-item resource accounting of the virtual pool (forks == reaped, fds do not grow)."""
    def __init__(self):
        self.f0, self.r0, self.u0, self.fd0 = CTL.forks, CTL.reaped, CTL.uncontrolled, vpool.open_fds()

    def done(self):
        CTL.reap()
        d = {'forks': CTL.forks - self.f0, 'reaped': CTL.reaped - self.r0, 'uncontrolled': CTL.uncontrolled - self.u0,
             'fd_delta': vpool.open_fds() - self.fd0}
        if d['forks'] != d['reaped']:
            raise HarnessError('virtual pool: {} workers forked but {} reaped'.format(d['forks'], d['reaped']))
        if d['fd_delta'] > 8:
            raise HarnessError('file descriptors leaked: +{}'.format(d['fd_delta']))
        return d


# =====================================================================================================
# bilform_matrix: one call
def new_SL(cname, kind, cache_dir=None):
    m, nodes, _ = universe_of(cname, kind, 'test')
    return SLM.SingleLayerOperator(m, cache_dir=cache_dir), nodes


def bilform_call(spec, SL=None, nodes=None):
    """spec: curve, mesh, test, trial, use_mp, cpu, assign, rank.  Returns (problems, info, value)."""
    if SL is None:
        SL, nodes = new_SL(spec['curve'], spec['mesh'], spec.get('cache_dir'))
    te, tr = elems_of(nodes, spec['test']), elems_of(nodes, spec['trial'])
    ref = ref_matrix(spec['curve'], spec['mesh'], spec['test'], spec['trial'])
    CTL.configure(spec.get('cpu', 1), _assign(spec.get('assign')), spec.get('rank', 0), record_results=True)
    st, val = guarded(lambda: SL.bilform_matrix(te, tr, use_mp=spec['use_mp']))
    info = log_info()
    problems = []
    if st == 'raised':
        problems.append('bilform_matrix raised ' + val)
        val = None
    else:
        check_assign_consumed(spec.get('assign'), info)
        d = diff(val, ref)
        if d:
            # which chunk (column block) came back wrong, from a fresh or from a used worker?
            extra = ''
            try:
                c = CTL.log[0]['calls'][0]
                for k, (items, res) in enumerate(zip(c['chunks'], c.get('results', []))):
                    for j, col in zip(items, res):
                        if not (isinstance(col, np.ndarray) and col.shape == ref[:, j].shape and np.array_equal(col, ref[:, j])):
                            extra = '; task {} (chunk {} on worker {}, {}) returned a wrong column'.format(
                                j, k, c['workers'][k], 'fresh worker' if c['fresh'][k] else 'worker that ran other chunks before')
                            raise StopIteration
            except StopIteration:
                pass
            except Exception:  # noqa: BLE001
                pass
            problems.append(d + extra)
    return problems, info, val


def describe(spec):
    s = '{} on {}/{} {}x{} use_mp={}'.format(spec.get('fn', 'bilform_matrix'), spec['curve'], spec['mesh'],
                                            len(spec['test']), len(spec.get('trial', [])), spec.get('use_mp'))
    if spec.get('use_mp'):
        s += ' cpu={} schedule(chunk->worker)={}'.format(spec.get('cpu'), spec.get('assign'))
        if spec.get('rank'):
            s += ' completion-order#{}'.format(spec['rank'])
    return s


# =====================================================================================================
# (a) paths
PATH_SHAPES_INLINE = ((32, 3), (8, 12), (33, 3), (9, 11))  # N*M = 96, 96, 99, 99
PATH_SHAPES_BIG = ((10, 10), (25, 4), (20, 5), (34, 3), (17, 6), (10, 12), (20, 6), (12, 10))  # 100, 102, 120
PATH_CURVES = ('UnitSquare', 'Circle', 'LShape')
PATH_MESHES = ('initial', 'uniform1', 'history')


def work_paths(item):
    cname, kind = item['curve'], item['mesh']
    acct = Acct()
    _, nodes_t, order = universe_of(cname, kind, 'test')
    out = {'clause': 'paths', 'n': 0, 'viols': [], 'classes': {}, 'asym_pairs': 0, 'entries': 0, 'nontrivial': set(),
           'pool_calls': 0, 'inline_pools': 0, 'samples': []}
    reset_globals()
    SL, nodes = new_SL(cname, kind)
    g = get_curve(cname)
    for (N, M) in PATH_SHAPES_INLINE + PATH_SHAPES_BIG:
        test_r, trial_r = pick_lists(order, N, M, variant=(N + M) % 3)
        ref = ref_matrix(cname, kind, test_r, trial_r)
        te, tr = elems_of(nodes, test_r), elems_of(nodes, trial_r)
        for a in te[:12]:
            for b in tr:
                k = universe.space_class(g, a, b) + '/' + universe.time_class(a, b)
                out['classes'][k] = out['classes'].get(k, 0) + 1
        # a transposed result must differ: by shape, or (square case) by value
        if N == M and np.array_equal(ref, ref.T):
            raise HarnessError('square path case {}x{} on {}/{} has a symmetric reference'.format(N, M, cname, kind))
        common_r = [r for r in map(tuple, test_r) if r in set(map(tuple, trial_r))]
        out['asym_pairs'] += sum(1 for a in common_r for b in common_r if a < b and
                                 ref[list(map(tuple, test_r)).index(a), list(map(tuple, trial_r)).index(b)] !=
                                 ref[list(map(tuple, test_r)).index(b), list(map(tuple, trial_r)).index(a)])
        inline = N * M < 100
        variants = [(False, None, None), (True, 3, None)]
        if not inline:
            variants.append((True, 16, None))
            variants.append((True, 2, 'alternate'))
        for use_mp, cpu, assign in variants:
            spec = {'clause': 'paths', 'fn': 'bilform_matrix', 'curve': cname, 'mesh': kind, 'test': test_r, 'trial': trial_r,
                    'use_mp': use_mp, 'cpu': cpu or 1, 'assign': assign}
            # a fresh operator for every other call, a long-lived one otherwise
            fresh = (out['n'] % 2 == 0)
            if fresh:
                SLx, nodesx = new_SL(cname, kind)
            else:
                SLx, nodesx = SL, nodes
            problems, info, _ = bilform_call(spec, SLx, nodesx)
            out['n'] += 1
            out['entries'] += N * M
            out['nontrivial'].add((cname, kind, N, M, 'inline' if inline else ('pool' if use_mp else 'serial')))
            if use_mp and not inline:
                out['pool_calls'] += 1 if info['pools'] else 0
            if inline and info['pools']:
                out['inline_pools'] += 1
            for p in problems:
                if len(out['viols']) < 3:
                    path = 'inline' if inline else ('pool' if use_mp else 'serial')
                    out['viols'].append(({'clause': 'paths', 'fn': 'bilform_matrix', 'path': path},
                                         describe(spec) + ': ' + p, spec))
        if len(out['samples']) < 1:
            out['samples'].append({'clause': 'paths', 'curve': cname, 'mesh': kind, 'shape': [N, M], 'test[:3]': test_r[:3],
                                   'trial': trial_r[:3]})
    out['nontrivial'] = sorted(out['nontrivial'])
    out['acct'] = acct.done()
    return out


# =====================================================================================================
# (b) schedules of bilform_matrix
SCHED_SHAPES = ((34, 3), (25, 4), (20, 5), (17, 6))
SCHED_MESH = 'uniform2'


def sched_lists(cname, kind, N, M):
    _, _, order = universe_of(cname, kind, 'test')
    X = pick_lists(order, N, M, 0)
    Y = pick_lists(order, N, M, 1)
    return X, Y


def sched_spec(cname, kind, lists, cpu, assign, rank=0):
    return {'clause': 'schedule', 'fn': 'bilform_matrix', 'curve': cname, 'mesh': kind, 'test': lists[0], 'trial': lists[1],
            'use_mp': True, 'cpu': cpu, 'assign': None if assign is None else list(assign), 'rank': rank}


def work_probe(item):
    """Which pool and which chunks does bilform_matrix create for this shape and cpu count?"""
    cname, kind, N, M, cpu = item['curve'], item['mesh'], item['N'], item['M'], item['cpu']
    acct = Acct()
    X, _ = sched_lists(cname, kind, N, M)
    reset_globals()
    spec = sched_spec(cname, kind, X, cpu, None)
    spec['assign'] = None
    CTL.configure(cpu, lambda k, n: 0)
    SL, nodes = new_SL(cname, kind)
    te, tr = elems_of(nodes, X[0]), elems_of(nodes, X[1])
    st, val = guarded(lambda: SL.bilform_matrix(te, tr, use_mp=True))
    info = log_info()
    acct.done()
    return {'status': st, 'pools': info['pools'], 'workers': info['workers'], 'chunk_sizes': info['chunk_sizes'],
            'nchunks': info['nchunks'], 'apis': info['apis'], 'what': val if st == 'raised' else None}


def work_sched_bilform(item):
    cname, kind, N, M, cpu = item['curve'], item['mesh'], item['N'], item['M'], item['cpu']
    acct = Acct()
    X, Y = sched_lists(cname, kind, N, M)
    refs = [ref_matrix(cname, kind, *X), ref_matrix(cname, kind, *Y)]
    sens = [stale_sensitive(cname, kind, X[0], X[1], refs[0]), stale_sensitive(cname, kind, Y[0], Y[1], refs[1])]
    parts = list(itertools.islice(vpool.set_partitions(item['nchunks'], item['nworkers']), item['lo'], item['hi']))
    out = {'clause': 'schedule', 'fn': 'bilform_matrix', 'n': 0, 'schedules': len(parts), 'viols': [], 'nonrepro': [],
           'fresh': 0, 'used': 0, 'twice': 0, 'orders': 0, 'sens': sens, 'samples': [], 'distinct': set()}
    SL, nodes = new_SL(cname, kind)
    reset_globals()
    prev = None

    def report(spec, prev, p):
        if len(out['viols']) < 3:
            rp = dict(spec)
            rp['prev'] = prev
            out['viols'].append(({'clause': 'schedule', 'fn': 'bilform_matrix'}, describe(spec) + ': ' + p, rp))

    for idx, assign in enumerate(parts):
        for v, lists in enumerate((X, Y)):
            if v == 1 and (item['lo'] + idx) % item['y_mod'] != 0:
                continue  # the second list variant (also the predecessor call of the next schedule) on a subset
            spec = sched_spec(cname, kind, lists, cpu, assign)
            problems, info, val = bilform_call(spec, SL, nodes)
            out['n'] += 1
            out['fresh'] += info['fresh']
            out['used'] += info['used']
            out['distinct'].add((N, M, cpu, tuple(assign), v))
            for p in problems:
                report(spec, prev, p)
            this = spec
            # every completion order of an unordered API
            if info['n_orders'] > 1 and not problems:
                ranks = range(1, info['n_orders'])
                if info['n_orders'] > MAX_ORDERS:
                    # factorially many completion orders: a fixed spread of ranks (first, last = reversed, and evenly spaced ones)
                    no_ = info['n_orders']
                    ranks = sorted({1, 2, no_ - 1, no_ - 2} | {(no_ * q_) // MAX_ORDERS for q_ in range(1, MAX_ORDERS)})
                    out['orders_capped'] = out.get('orders_capped', 0) + 1
                for rank in ranks:
                    s2 = sched_spec(cname, kind, lists, cpu, assign, rank)
                    pr2, _, _ = bilform_call(s2, SL, nodes)
                    out['n'] += 1
                    out['orders'] += 1
                    if pr2:
                        report(s2, this, pr2[0])
                        break
                    this = s2
            # determinism self-check: the same schedule again must give the same bits
            if (item['lo'] + idx) % item['twice_mod'] == 0 and val is not None:
                pr3, _, val2 = bilform_call(spec, SL, nodes)
                out['n'] += 1
                out['twice'] += 1
                if pr3:
                    # the repeated request on the same operator no longer matches the pairwise reference: the code under test
                    # depends on its call history - a violation of the property, not a non-determinism of the harness
                    report(spec, spec, 'same request repeated on the same operator: ' + pr3[0])
                elif val2 is None or not same_bits(val, val2):
                    out['nonrepro'].append(describe(spec))
            prev = this
        if idx == 0 and item['lo'] == 0 or idx == len(parts) - 1:
            if len(out['samples']) < 2:
                out['samples'].append({'clause': 'schedule', 'fn': 'bilform_matrix', 'curve': cname, 'shape': [N, M], 'cpu': cpu,
                                       'chunk->worker': list(assign)})
    out['distinct'] = len(out['distinct'])
    out['acct'] = acct.done()
    return out


# =====================================================================================================
# initial-potential load vector
def u0_fn(y):
    return np.sin(y[0]) * y[1] + 0.5


INITIAL_MESHES = {'UnitSquare': 'UnitSquareBoundaryRefined', 'LShape': 'LShapeBoundaryRefined'}


def new_M0(cname, kind, tag='test', cache_dir=None):
    m, nodes, _ = universe_of(cname, kind, tag)
    M0 = IPM.InitialOperator(bdr_mesh=m, u0=u0_fn, initial_mesh=getattr(IMM, INITIAL_MESHES[cname]), cache_dir=cache_dir)
    return M0, nodes


def linform_status():
    """None if linform works on this tree; otherwise the text of the known NumPy-2 defect of initial_mesh.py (F2),
    which is repaired and reported elsewhere."""
    def mk():
        M0, nodes = new_M0('UnitSquare', 'uniform1', 'probe')
        e = nodes[sorted(nodes)[0]]
        try:
            M0.linform(e)
            return None
        except TypeError as ex:
            tb = traceback.extract_tb(ex.__traceback__)
            if any(fr.filename.endswith('initial_mesh.py') for fr in tb):
                fr = [fr for fr in tb if fr.filename.endswith('initial_mesh.py')][-1]
                return 'TypeError: {} at initial_mesh.py:{} `{}`'.format(ex, fr.lineno, fr.line)
            raise
    return memo(('linform-status', ), mk)


def ref_vector(cname, kind, rects):
    key = ('RV', cname, kind, tuple(map(tuple, rects)))

    def mk():
        out = np.zeros(len(rects))
        for j, r in enumerate(rects):
            M0, nodes = new_M0(cname, kind, 'ref')  # a fresh operator per element
            try:
                out[j] = M0.linform(nodes[tuple(r)])[0]
            except Exception as ex:  # noqa: BLE001
                raise HarnessError('reference linform failed on {} {} element {}: {!r}'.format(cname, kind, r, ex))
        if not np.all(np.isfinite(out)):
            raise HarnessError('reference vector is not finite')
        return out
    return memo(key, mk)


def linform_lists(cname, kind, N, variant):
    # leaves only: a boundary element must be an edge of one cell of the domain quadtree (precondition of linform;
    # the length-2 sides of the L-shape span two root cells)
    m, nodes, order = universe_of(cname, kind, 'test')
    order = [r for r in order if nodes[r] in m.leaf_elements]
    n = len(order)
    step = next(s for s in (5, 7, 3, 11, 1) if math.gcd(s, n) == 1)
    return [list(order[(variant * 2 + k * step) % n]) for k in range(N)]


def linform_call(spec, M0=None, nodes=None):
    if M0 is None:
        M0, nodes = new_M0(spec['curve'], spec['mesh'], 'test', spec.get('cache_dir'))
    el = elems_of(nodes, spec['test'])
    ref = ref_vector(spec['curve'], spec['mesh'], spec['test'])
    CTL.configure(spec.get('cpu', 1), _assign(spec.get('assign')), spec.get('rank', 0), record_results=True)
    st, val = guarded(lambda: M0.linform_vector(el, use_mp=spec['use_mp']))
    info = log_info()
    problems = []
    if st == 'raised':
        problems.append('linform_vector raised ' + val)
        val = None
    else:
        check_assign_consumed(spec.get('assign'), info)
        d = diff(val, ref)
        if d:
            problems.append(d)
    return problems, info, val


def work_sched_linform(item):
    cname, kind, N, cpu = item['curve'], item['mesh'], item['N'], item['cpu']
    acct = Acct()
    lists = [linform_lists(cname, kind, N, 0), linform_lists(cname, kind, N, 1)]
    parts = list(itertools.islice(vpool.set_partitions(item['nchunks'], item['nworkers']), item['lo'], item['hi']))
    out = {'clause': 'schedule', 'fn': 'linform_vector', 'n': 0, 'schedules': len(parts), 'viols': [], 'nonrepro': [],
           'fresh': 0, 'used': 0, 'twice': 0, 'orders': 0, 'samples': [], 'distinct': set()}
    M0, nodes = new_M0(cname, kind)
    reset_globals()
    prev = None
    if item['lo'] == 0:
        # serial path against the single evaluations
        spec = {'clause': 'paths', 'fn': 'linform_vector', 'curve': cname, 'mesh': kind, 'test': lists[0], 'use_mp': False}
        problems, _, _ = linform_call(spec, M0, nodes)
        out['n'] += 1
        for p in problems:
            out['viols'].append(({'clause': 'paths', 'fn': 'linform_vector', 'path': 'serial'}, describe(spec) + ': ' + p, spec))
    for idx, assign in enumerate(parts):
        v = (item['lo'] + idx) % 2
        spec = {'clause': 'schedule', 'fn': 'linform_vector', 'curve': cname, 'mesh': kind, 'test': lists[v], 'use_mp': True,
                'cpu': cpu, 'assign': list(assign), 'rank': 0}
        problems, info, val = linform_call(spec, M0, nodes)
        out['n'] += 1
        out['fresh'] += info['fresh']
        out['used'] += info['used']
        out['distinct'].add((N, cpu, tuple(assign)))
        for p in problems:
            if len(out['viols']) < 3:
                rp = dict(spec)
                rp['prev'] = prev
                out['viols'].append(({'clause': 'schedule', 'fn': 'linform_vector'}, describe(spec) + ': ' + p, rp))
        if info['n_orders'] > 1 and not problems:
            for rank in capped_ranks(info['n_orders']):
                s2 = dict(spec)
                s2['rank'] = rank
                pr2, _, _ = linform_call(s2, M0, nodes)
                out['n'] += 1
                out['orders'] += 1
                if pr2:
                    rp = dict(s2)
                    rp['prev'] = spec
                    out['viols'].append(({'clause': 'schedule', 'fn': 'linform_vector'}, describe(s2) + ': ' + pr2[0], rp))
                    break
        if (item['lo'] + idx) % item['twice_mod'] == 0 and val is not None:
            pr3, _, val2 = linform_call(spec, M0, nodes)
            out['n'] += 1
            out['twice'] += 1
            if pr3:
                rp = dict(spec)
                rp['prev'] = spec
                out['viols'].append(({'clause': 'schedule', 'fn': 'linform_vector'}, describe(spec) + ': same request repeated on the same operator: ' + pr3[0], rp))
            elif val2 is None or not same_bits(val, val2):
                out['nonrepro'].append(describe(spec))
        prev = spec
        if len(out['samples']) < 1:
            out['samples'].append({'clause': 'schedule', 'fn': 'linform_vector', 'curve': cname, 'N': N, 'cpu': cpu,
                                   'chunk->worker': list(assign)})
    out['distinct'] = len(out['distinct'])
    out['acct'] = acct.done()
    return out


def work_probe_linform(item):
    cname, kind, N, cpu = item['curve'], item['mesh'], item['N'], item['cpu']
    acct = Acct()
    reset_globals()
    M0, nodes = new_M0(cname, kind)
    el = elems_of(nodes, linform_lists(cname, kind, N, 0))
    CTL.configure(cpu, lambda k, n: 0)
    st, val = guarded(lambda: M0.linform_vector(el, use_mp=True))
    info = log_info()
    acct.done()
    return {'status': st, 'pools': info['pools'], 'workers': info['workers'], 'chunk_sizes': info['chunk_sizes'],
            'nchunks': info['nchunks'], 'apis': info['apis'], 'what': val if st == 'raised' else None}


# =====================================================================================================
# estimators: two maps on one pool (estimate_sobolev), one map (estimate_weighted_l2)
def est_g(t, x):
    return math.sin(3 * t) * x[0, 0] + x[1, 0]**2 - 0.3


EST_PHI = (1.0, -0.5, 2.0, 0.25)


def est_setup(cname, npoly):
    """Fresh mesh (4 elements), operator, estimator and residual closure."""
    m = meshmc.fresh(meshmc.PARAM[cname])
    elems = list(m.leaf_elements)
    if len(elems) != 4:
        raise HarnessError('estimator clause expects 4 initial elements on ' + cname)
    SL = SLM.SingleLayerOperator(m)
    est = EEM.ErrorEstimator(m, N_poly=npoly)
    res = est.residual(elems, np.array(EST_PHI), SL, g=est_g)
    return elems, est, res


def est_refs(cname, npoly):
    def mk():
        tasks = {'time': [], 'space': [], 'l2': []}
        for i in range(4):
            for kind in tasks:
                elems, est, res = est_setup(cname, npoly)  # everything fresh for every single task
                if kind == 'time':
                    tasks[kind].append(est.sobolev_time(elems[i], res, nbrs_symmetry=True))
                elif kind == 'space':
                    tasks[kind].append(est.sobolev_space(elems[i], res, nbrs_symmetry=True))
                else:
                    tasks[kind].append(est.weighted_l2(elems[i], res))
        elems, est, res = est_setup(cname, npoly)
        sob = est.estimate_sobolev(elems, res, use_mp=False)
        elems, est, res = est_setup(cname, npoly)
        wl2 = est.estimate_weighted_l2(elems, res, use_mp=False)
        # the serial weighted-L2 array is exactly the stacked single evaluations
        if not same_bits(wl2, np.array(tasks['l2'])):
            raise HarnessError('serial estimate_weighted_l2 differs from stacked single evaluations')
        return tasks, sob, wl2
    return memo(('EST', cname, npoly), mk)


def est_call(spec):
    cname, npoly, fn = spec['curve'], spec['npoly'], spec['fn']
    tasks, sob, wl2 = est_refs(cname, npoly)
    elems, est, res = est_setup(cname, npoly)
    CTL.configure(spec['cpu'], _assign(spec.get('assign')), spec.get('rank', 0), record_results=True)
    if fn == 'estimate_sobolev':
        st, val = guarded(lambda: est.estimate_sobolev(elems, res, use_mp=True))
        ref, expect = sob, tasks['time'] + tasks['space']
    else:
        st, val = guarded(lambda: est.estimate_weighted_l2(elems, res, use_mp=True))
        ref, expect = wl2, tasks['l2']
    info = log_info()
    problems = []
    if st == 'raised':
        problems.append(fn + ' raised ' + val)
        val = None
    else:
        check_assign_consumed(spec.get('assign'), info)
        d = diff(val, ref)
        if d:
            problems.append(d.replace('single evaluations', 'serial evaluation on a fresh estimator'))
        # task by task: what each worker returned against the single evaluation on a fresh estimator
        try:
            got = [(c['workers'][k], c['fresh'][k], r) for p in CTL.log for c in p['calls']
                   for k, rs in enumerate(c.get('results', [])) for r in (rs if isinstance(rs, list) else [rs])]
        except Exception:  # noqa: BLE001
            got = []
        if len(got) == len(expect):
            info['tasks_compared'] = len(got)
            for k, ((w, fresh, r), e) in enumerate(zip(got, expect)):
                if not same_bits(r, e):
                    problems.append('task {} returned {!r} on worker {} ({}), alone on a fresh estimator {!r}'.format(
                        k, r, w, 'fresh' if fresh else 'had run other chunks', e))
                    break
    return problems, info, val


def work_sched_est(item):
    acct = Acct()
    parts = list(itertools.islice(vpool.set_partitions(item['nchunks'], item['nworkers']), item['lo'], item['hi']))
    fn = item['fn']
    out = {'clause': 'schedule', 'fn': fn, 'n': 0, 'schedules': len(parts), 'viols': [], 'nonrepro': [], 'fresh': 0,
           'used': 0, 'twice': 0, 'orders': 0, 'samples': [], 'distinct': set(), 'tasks_compared': 0}
    reset_globals()
    for idx, assign in enumerate(parts):
        spec = {'clause': 'schedule', 'fn': fn, 'curve': item['curve'], 'npoly': item['npoly'], 'cpu': item['cpu'],
                'assign': list(assign), 'rank': 0}
        problems, info, val = est_call(spec)
        out['n'] += 1
        out['fresh'] += info['fresh']
        out['used'] += info['used']
        out['tasks_compared'] += info.get('tasks_compared', 0)
        out['distinct'].add((fn, item['cpu'], tuple(assign)))
        for p in problems[:1]:
            if len(out['viols']) < 3:
                out['viols'].append(({'clause': 'schedule', 'fn': fn},
                                     '{} on {} (4 elements, N_poly={}) cpu={} schedule={}: {}'.format(
                                         fn, item['curve'], item['npoly'], item['cpu'], list(assign), p), spec))
        if info['n_orders'] > 1 and not problems:
            for rank in capped_ranks(info['n_orders']):
                s2 = dict(spec)
                s2['rank'] = rank
                pr2, _, _ = est_call(s2)
                out['n'] += 1
                out['orders'] += 1
                if pr2:
                    out['viols'].append(({'clause': 'schedule', 'fn': fn}, '{} completion order {}: {}'.format(fn, rank, pr2[0]), s2))
                    break
        if (item['lo'] + idx) % item['twice_mod'] == 0 and val is not None:
            pr3, _, val2 = est_call(spec)
            out['n'] += 1
            out['twice'] += 1
            if pr3:
                out['viols'].append(({'clause': 'schedule', 'fn': fn}, '{} same request repeated: {}'.format(fn, pr3[0]), spec))
            elif val2 is None or not same_bits(val, val2):
                out['nonrepro'].append('{} {}'.format(fn, list(assign)))
        if len(out['samples']) < 1:
            out['samples'].append({'clause': 'schedule', 'fn': fn, 'curve': item['curve'], 'cpu': item['cpu'],
                                   'chunk->worker': list(assign)})
    out['distinct'] = len(out['distinct'])
    out['acct'] = acct.done()
    return out


def work_probe_est(item):
    acct = Acct()
    reset_globals()
    elems, est, res = est_setup(item['curve'], item['npoly'])
    CTL.configure(item['cpu'], lambda k, n: 0)
    if item['fn'] == 'estimate_sobolev':
        st, val = guarded(lambda: est.estimate_sobolev(elems, res, use_mp=True))
    else:
        st, val = guarded(lambda: est.estimate_weighted_l2(elems, res, use_mp=True))
    info = log_info()
    acct.done()
    return {'status': st, 'pools': info['pools'], 'workers': info['workers'], 'chunk_sizes': info['chunk_sizes'],
            'nchunks': info['nchunks'], 'apis': info['apis'], 'what': val if st == 'raised' else None}


# =====================================================================================================
# (c) crash points of the stored file
def cache_call(fn, spec, d, use_mp=False):
    """One call of a FRESH operator object bound to cache directory d."""
    s = dict(spec)
    s['cache_dir'] = d
    s['use_mp'] = use_mp
    if use_mp:
        s['cpu'] = 2
        s['assign'] = None  # round robin over two workers
    if fn == 'bilform_matrix':
        return bilform_call(s)
    return linform_call(s)


def cache_ref(fn, spec):
    if fn == 'bilform_matrix':
        return ref_matrix(spec['curve'], spec['mesh'], spec['test'], spec['trial'])
    return ref_vector(spec['curve'], spec['mesh'], spec['test'])


def file_problem(path, ref):
    if not os.path.exists(path):
        return 'no file is left behind'
    st, arr = faultfs.load_file(path)
    if st != 'ok':
        return 'the file left behind cannot be loaded ({})'.format(arr)
    d = diff(arr, ref)
    return None if d is None else 'the file left behind holds a wrong array: ' + d


def crash_spec(fn, cname, kind, N, M):
    _, _, order = universe_of(cname, kind, 'test')
    if fn == 'bilform_matrix':
        te, tr = pick_lists(order, N, M, 0)
        return {'fn': fn, 'curve': cname, 'mesh': kind, 'test': te, 'trial': tr}
    return {'fn': fn, 'curve': cname, 'mesh': kind, 'test': linform_lists(cname, kind, N, 0)}


def cold_store(fn, spec, d):
    """First call against the empty directory d: (problems, file name, stored bytes)."""
    problems, _, _ = cache_call(fn, spec, d)
    names = faultfs.listing(d)
    if problems:
        return problems, None, None
    if len(names) != 1:
        return ['{} file(s) in the cache directory after the first call: {}'.format(len(names), names)], None, None
    data = faultfs.read(os.path.join(d, names[0]))
    fp = file_problem(os.path.join(d, names[0]), cache_ref(fn, spec))
    return ([fp] if fp else []), names[0], data


def crash_one(fn, spec, d, name, pristine, fault, use_mp=False):
    """fault = ('prefix', n) or ('garbage', variant name, bytes).  Returns (problems, scope)."""
    path = os.path.join(d, name)
    ref = cache_ref(fn, spec)
    data = pristine[:fault[1]] if fault[0] == 'prefix' else fault[2]
    faultfs.write(path, data)
    st, arr = faultfs.load_file(path)
    if st == 'ok' and diff(arr, ref) is not None:
        scope = 'undetectable'  # the reader accepts the damaged file: nothing short of a checksum could notice
    elif st == 'ok':
        scope = 'harmless'
    else:
        scope = 'rejected:' + arr
    problems, _, val = cache_call(fn, spec, d, use_mp)
    if scope == 'undetectable':
        return [], scope + (':returned-as-is' if problems else ':recomputed')
    fp = file_problem(path, ref)
    if fp and not problems:
        problems = [fp]
    return problems, scope


def work_crash(item):
    fn = item['fn']
    acct = Acct()
    spec = crash_spec(fn, item['curve'], item['mesh'], item['N'], item.get('M'))
    out = {'clause': 'crash', 'fn': fn, 'n': 0, 'viols': [], 'scopes': {}, 'size': 0, 'hits': 0, 'samples': [], 'observations': []}
    d = faultfs.tmpdir()
    try:
        reset_globals()
        problems, name, pristine = cold_store(fn, spec, d)
        out['n'] += 1
        if problems:
            out['viols'].append(({'clause': 'crash', 'fn': fn, 'fault': 'none'}, 'first call with an empty cache directory: ' + problems[0],
                                 dict(spec, clause='crash', fault=['cold'])))
            return out
        out['size'] = len(pristine)
        path = os.path.join(d, name)
        if item['lo'] == 0:
            # warm call: must be served bitwise-correctly and must not rewrite the file (cache hit observed)
            os.utime(path, ns=(10**9, 10**9))
            problems, _, _ = cache_call(fn, spec, d)
            out['n'] += 1
            if os.stat(path).st_mtime_ns == 10**9:
                out['hits'] += 1
            for p in problems:
                out['viols'].append(({'clause': 'crash', 'fn': fn, 'fault': 'warm'}, 'warm call: ' + p, dict(spec, clause='crash', fault=['warm'])))
        faults = [('prefix', n) for n in range(item['lo'], min(item['hi'], len(pristine)))]
        extra = []
        if item.get('extras'):
            gv = faultfs.garbage_variants(pristine, seed=1)
            other = np.zeros((3, 2)) if fn == 'bilform_matrix' else np.zeros(2)
            import io
            buf = io.BytesIO()
            np.save(buf, other)
            gv['valid-other-shape'] = buf.getvalue()
            extra = [('garbage', k, v) for k, v in sorted(gv.items())]
            extra += [('prefix', faultfs.class_length(pristine, c)) for c in faultfs.LENGTH_CLASSES]
        for use_mp, fl in ((False, faults), (False, extra), (True, extra)):
            for fault in fl:
                problems, scope = crash_one(fn, spec, d, name, pristine, fault, use_mp)
                out['n'] += 1
                tag = scope.split(':')[0] + (':' + scope.split(':')[1] if scope.startswith('rejected') else '')
                out['scopes'][tag] = out['scopes'].get(tag, 0) + 1
                if scope.startswith('undetectable') and not use_mp:
                    out['observations'].append('{}: a well-formed file with other content ({}) is {}'.format(
                        fn, fault[1], 'returned without validation' if scope.endswith('returned-as-is') else 'not used'))
                for p in problems:
                    if len(out['viols']) < 3:
                        fkey = 'truncated' if fault[0] == 'prefix' else 'garbage'
                        what = '{}: stored file {} ({} bytes) {}; next call ({}): {}'.format(
                            describe(dict(spec, use_mp=use_mp)), name, len(pristine),
                            'truncated to {} bytes'.format(fault[1]) if fault[0] == 'prefix' else 'replaced by variant ' + fault[1],
                            'pool' if use_mp else 'serial', p)
                        rp = dict(spec, clause='crash', fault=[fault[0], fault[1]], recompute='pool' if use_mp else 'serial')
                        out['viols'].append(({'clause': 'crash', 'fn': fn, 'fault': fkey}, what, rp))
        if faults:
            out['samples'].append({'clause': 'crash', 'fn': fn, 'curve': item['curve'], 'file': name, 'size': len(pristine),
                                   'prefix_lengths': [faults[0][1], faults[-1][1]]})
    finally:
        faultfs.rmtree(d)
    out['acct'] = acct.done()
    return out


# =====================================================================================================
# (d) cache histories: explicit-state search in lock-step with a dictionary model of the cache
HIST_SHAPE = (25, 4)
HIST_LABELS = ('A', 'B', 'C', 'A2', 'P', 'SA', 'SB')
HIST_OPS = [('asm', 'A', 'serial'), ('asm', 'A', 'pool'), ('asm', 'B', 'serial'), ('asm', 'C', 'serial'), ('asm', 'A2', 'serial'),
            ('asm', 'P', 'serial'), ('asm', 'SA', 'serial'), ('asm', 'SB', 'serial'),
            ('trunc', 'empty'), ('trunc', 'header'), ('trunc', 'half'), ('trunc', 'short1'), ('del', ),
            ('ro', 'fs'), ('ro', 'dir'), ('rw', )]


def hist_requests():
    """A: lists on the unit square; B: same test list, other trial list; C: other test list, same trial list;
    A2: the elements with the SAME (t, x) intervals - the same reprs - on the L-shape; P: A's elements in another list order."""
    def mk():
        N, M = HIST_SHAPE
        _, nodesU, _ = universe_of('UnitSquare', 'twin', 'test')
        _, nodesL, _ = universe_of('LShape', 'twin', 'test')
        shared = sorted(r for r in nodesU if r in nodesL and r[3] - r[2] == 0.5 and r[1] - r[0] == 0.25 and r[3] <= 4.0)
        if len(shared) < N + 4:
            raise HarnessError('only {} elements with identical intervals on unit square and L-shape'.format(len(shared)))
        A = pick_lists(shared, N, M, 0)
        Bv = pick_lists(shared, N, M, 1)
        SQ = pick_lists(shared, 10, 10, 0)
        SQ2 = pick_lists(shared, 10, 10, 1)
        if SQ[1] == SQ2[1]:
            raise HarnessError('square list variants coincide')
        reqs = {'A': ('UnitSquare', A[0], A[1]), 'B': ('UnitSquare', A[0], Bv[1]), 'C': ('UnitSquare', Bv[0], A[1]),
                'A2': ('LShape', A[0], A[1]),
                # P: the SAME elements as A, test list in reversed order, trial list rotated by one (rows/columns follow list
                # position, so a cache entry shared with A would return a permuted matrix)
                'P': ('UnitSquare', list(reversed(A[0])), list(A[1][1:]) + list(A[1][:1])),
                # SA / SB: SQUARE blocks (N == M) with the same test list and different trial lists
                'SA': ('UnitSquare', SQ[0], SQ[1]), 'SB': ('UnitSquare', SQ[0], SQ2[1])}
        for k in (0, 1):
            if str(elems_of(nodesU, A[k])) != str(elems_of(nodesL, A[k])):
                raise HarnessError('element reprs differ between the twin meshes')
        if A[1] == Bv[1] or A[0] == Bv[0]:
            raise HarnessError('list variants coincide')
        refs = {k: ref_matrix(c, 'twin', te, tr) for k, (c, te, tr) in reqs.items()}
        for a, b in itertools.combinations(HIST_LABELS, 2):
            if np.array_equal(refs[a], refs[b]):
                raise HarnessError('requests {} and {} have equal reference matrices - a shared entry would go unnoticed'.format(a, b))
        return reqs, refs
    return memo(('HREQ', ), mk)


def hist_spec(label):
    reqs, _ = hist_requests()
    c, te, tr = reqs[label]
    return {'fn': 'bilform_matrix', 'curve': c, 'mesh': 'twin', 'test': te, 'trial': tr}


def hist_names():
    """Which file does each request create in an empty directory, and with which bytes?  (observed, not computed)"""
    def mk():
        names, pristine, problems = {}, {}, {}
        for lab in HIST_LABELS:
            d = faultfs.tmpdir()
            try:
                reset_globals()
                pr, name, data = cold_store('bilform_matrix', hist_spec(lab), d)
                if pr:
                    problems[lab] = pr[0]
                names[lab], pristine[lab] = name, data
            finally:
                faultfs.rmtree(d)
        return names, pristine, problems
    return memo(('HNAMES', ), mk)


def label_of(name):
    names, _, _ = hist_names()
    labs = [l for l in HIST_LABELS if names[l] == name]
    return '|'.join(labs) if labs else 'X:' + name


def enabled_ops(state):
    files, order, ro, glob = state
    ops = []
    for op in HIST_OPS:
        if op[0] in ('trunc', 'del') and not order:
            continue
        if op[0] == 'ro' and ro is not None:
            continue
        if op[0] == 'rw' and ro is None:
            continue
        ops.append(op)
    return ops


def model_step(model, op):
    """Dictionary model of the cache: model = (dict label -> content class, write order (oldest first), ro mode)."""
    files, order, ro = dict(model[0]), list(model[1]), model[2]
    if op[0] == 'asm':
        lab = op[1]
        cls = files.get(lab)
        if cls != 'intact':  # miss: recompute, then store if the directory allows it
            can_store = ro is None or (ro == 'dir' and cls is not None)
            if can_store:
                files[lab] = 'intact'
                if lab in order:
                    order.remove(lab)
                order.append(lab)
    elif op[0] == 'trunc':
        files[order[-1]] = op[1]
    elif op[0] == 'del':
        files.pop(order.pop(), None)
    elif op[0] == 'ro':
        ro = op[1]
    elif op[0] == 'rw':
        ro = None
    return files, order, ro


def run_history(ops):
    """Replays a history on a fresh directory with fresh operators.  Returns (violations, canonical state, stats);
    violations = [(key, text)]."""
    ops = [tuple(o) for o in ops]
    names, pristine, _ = hist_names()
    _, refs = hist_requests()
    viols = []
    stats = {'asm': 0, 'hits': 0, 'denied': 0}
    d = faultfs.tmpdir()
    denied0 = faultfs.DENIED[0]
    model = ({}, [], None)
    order = []  # file names, oldest write first
    glob = None
    try:
        reset_globals()
        for step, op in enumerate(ops):
            pre = {n: faultfs.read(os.path.join(d, n)) for n in faultfs.listing(d)}
            if op[0] == 'asm':
                lab, path = op[1], op[2]
                spec = hist_spec(lab)
                expected_hit = model[0].get(lab) == 'intact'
                problems, info, _ = cache_call('bilform_matrix', spec, d, use_mp=(path == 'pool'))
                stats['asm'] += 1
                if path == 'pool' and info['pools']:
                    glob = lab
                for p in problems:
                    viols.append(({'clause': 'history', 'tag': 'result'},
                                  'step {} {}: request {} ({} on {}) {}'.format(step + 1, list(op), lab, 'x'.join(map(str, HIST_SHAPE)), spec['curve'], p)))
                post = {n: faultfs.read(os.path.join(d, n)) for n in faultfs.listing(d)}
                written = [n for n in post if post[n] != pre.get(n)]
                if expected_hit and not written and not problems:
                    stats['hits'] += 1
                for n in sorted(written):
                    if n in order:
                        order.remove(n)
                    order.append(n)
            elif op[0] == 'trunc':
                n = order[-1]
                base = pristine.get(label_of(n).split('|')[0])
                if base is None:
                    raise HarnessError('no pristine bytes for ' + n)
                faultfs.write(os.path.join(d, n), base[:faultfs.class_length(base, op[1])])
            elif op[0] == 'del':
                faultfs.delete(os.path.join(d, order.pop()))
            elif op[0] == 'ro':
                faultfs.make_readonly(d, op[1])
            elif op[0] == 'rw':
                faultfs.make_writable(d)
            model = model_step(model, op)
            # ---- observed directory against the model
            post = {n: faultfs.read(os.path.join(d, n)) for n in faultfs.listing(d)}
            obs = {}
            for n, data in post.items():
                lab = label_of(n)
                base = pristine.get(lab.split('|')[0])
                cls = faultfs.content_class(data, base)
                obs[lab] = cls
                if cls == 'loadable-other' or (cls == 'intact' and '|' in lab):
                    st, arr = faultfs.loads(data)
                    for l in lab.split('|'):
                        if l in refs and diff(arr, refs[l]) is not None:
                            viols.append(({'clause': 'history', 'tag': 'file-content'},
                                          'step {} {}: file {} is what request {} loads, but it holds another array: {}'.format(
                                              step + 1, list(op), n, l, diff(arr, refs[l]))))
                            break
            if op[0] == 'asm' and obs != model[0] and not viols:
                viols.append(({'clause': 'history', 'tag': 'cache-state'},
                              'step {} {}: cache directory holds {} but a best-effort cache would hold {} (mode {})'.format(
                                  step + 1, list(op), sorted(obs.items()), sorted(model[0].items()), model[2] or 'writable')))
            if viols:
                break
        state = (tuple(sorted(obs.items())) if ops else (), tuple(label_of(n) for n in order), model[2], glob)
    finally:
        faultfs.rmtree(d)
    stats['denied'] = faultfs.DENIED[0] - denied0
    return viols, state, stats


def work_history(item):
    acct = Acct()
    ops = item['ops']
    viols, state, stats = run_history(ops)
    out = {'clause': 'history', 'viols': [(k, 'history {}: {}'.format([list(o) for o in ops], w), {'clause': 'history', 'ops': [list(o) for o in ops]})
                                         for k, w in viols[:1]],
           'state': state, 'stats': stats, 'nonrepro': []}
    if item.get('twice'):
        v2, s2, _ = run_history(ops)
        if s2 != state or [w for _, w in v2] != [w for _, w in viols]:
            out['nonrepro'].append('history {}'.format(ops))
    out['acct'] = acct.done()
    return out


# =====================================================================================================
# driver
WORKERS = {'paths': work_paths, 'probe': work_probe, 'sched_bilform': work_sched_bilform, 'sched_linform': work_sched_linform,
           'probe_linform': work_probe_linform, 'sched_est': work_sched_est, 'probe_est': work_probe_est, 'crash': work_crash,
           'history': work_history}


def work(item):
    return WORKERS[item['w']](item)


PARAMS = {
    'quick': dict(sched_curves={(34, 3): ('UnitSquare', ), (25, 4): ('Circle', ), (20, 5): ('LShape', ), (17, 6): ('UnitSquare', )},
                  extra=((6, 17, 1), (3, 34, 1), (2, 50, 1)), twice_mod=5, y_mod=4, batch=24,
                  lin_curves=('UnitSquare', ), lin_cpus=lambda N: list(range(1, N + 1)), npoly=3, est_curves=('UnitSquare', ),
                  crash_mat=(('UnitSquare', 34, 3), ), crash_vec=(('UnitSquare', 6), ), hist_depth=3, selftest_pools=120),
    'thorough': dict(sched_curves={s: PATH_CURVES for s in SCHED_SHAPES},
                     extra=((6, 17, 1), (3, 34, 1), (2, 50, 1), (4, 32, 2)), twice_mod=1, y_mod=1, batch=32,
                     lin_curves=('UnitSquare', 'LShape'), lin_cpus=lambda N: list(range(1, N + 1)) + [16], npoly=5,
                     est_curves=('UnitSquare', 'Circle'),
                     crash_mat=(('UnitSquare', 34, 3), ('Circle', 25, 4), ('LShape', 20, 5), ('UnitSquare', 17, 6)),
                     crash_vec=(('UnitSquare', 6), ('LShape', 5), ('UnitSquare', 3)), hist_depth=4, selftest_pools=1000),
}
MAX_PARTITIONS = 40000
MAX_ORDERS = 6  # completion orders of an unordered pool API explored per schedule (all of them up to 4 chunks)


def capped_ranks(n_orders):
    """All completion orders up to MAX_ORDERS, otherwise a fixed spread of ranks (first, last = reversed, evenly spaced)."""
    if n_orders <= MAX_ORDERS:
        return list(range(1, n_orders))
    return sorted({1, 2, n_orders - 1, n_orders - 2} | {(n_orders * q_) // MAX_ORDERS for q_ in range(1, MAX_ORDERS)})


def split_ranges(total, batch):
    return [(lo, min(total, lo + batch)) for lo in range(0, total, batch)]


def call_history_task(lin_ok):
    """Pool call histories on ONE operator with the SAME list objects mutated in place between calls (reverse, replace the
    contents by other elements of the same number, rotate): every call must equal the entry-wise single evaluations of the
    list AS IT IS at call time.  One window around the whole history, so pools that the code keeps alive stay alive."""
    from mc import universe as U_
    import src.initial_mesh as IM_
    from src.initial_potential import InitialOperator
    from src.single_layer import SingleLayerOperator
    ctl = vpool.install()
    out = {'n': 0, 'viols': []}
    m = U_.level_mesh('UnitSquare', (0., 1.), 1, 1)
    els = list(m.leaf_elements)
    ops = [None, 'reverse', 'replace', 'rotate', 'swap-ends']

    def mutate(L, op, pool_):
        if op == 'reverse':
            L.reverse()
        elif op == 'replace':
            L[:] = pool_[len(pool_) - len(L):]
        elif op == 'rotate':
            L[:] = L[1:] + L[:1]
        elif op == 'swap-ends':
            L[0], L[-1] = L[-1], L[0]

    with ctl.window():
        if lin_ok:
            M0 = InitialOperator(m, lambda xy: np.sin(xy[0]) * xy[1] + 1.0, initial_mesh=IM_.UnitSquareBoundaryRefined)
            single = {id(e): M0.linform(e)[0] for e in els}
            for cpu in (1, 2):
                ctl.configure(cpu=cpu, assign=None)
                L = list(els[:6])
                for op in ops:
                    mutate(L, op, els)
                    out['n'] += 1
                    try:
                        vec = np.asarray(M0.linform_vector(elems=L, use_mp=True))
                        want = np.array([single[id(e)] for e in L])
                        bad = None if np.array_equal(vec, want) else '{} of {} entries differ from the single evaluations'.format(int(np.sum(vec != want)) if vec.shape == want.shape else 'all', len(L))
                    except Exception as ex:  # noqa
                        bad = 'raised {!r}'.format(ex)
                    if bad and len(out['viols']) < 3:
                        out['viols'].append(({'clause': 'call-history', 'fn': 'linform_vector'},
                                             'linform_vector(use_mp=True, cpu={}) after the in-place list mutation {!r} on the same operator and list object: {}'.format(cpu, op, bad),
                                             {'kind': 'call-history', 'fn': 'linform_vector'}))
        SL = SingleLayerOperator(m)
        ref = SingleLayerOperator(m)
        for cpu in (1, 3):
            ctl.configure(cpu=cpu, assign=None)
            T = list(els[:10])
            S = list(els[6:16])
            for op in ops:
                mutate(S, op, els)
                if op in ('rotate', 'swap-ends'):
                    mutate(T, op, els)
                out['n'] += 1
                try:
                    A = SL.bilform_matrix(T, S, use_mp=True)
                    want = np.array([[ref.bilform(tr, te) for tr in S] for te in T], dtype=float)
                    bad = None if (A.shape == want.shape and np.array_equal(A, want)) else 'matrix differs from the entry-wise single evaluations of the current lists'
                except Exception as ex:  # noqa
                    bad = 'raised {!r}'.format(ex)
                if bad and len(out['viols']) < 6:
                    out['viols'].append(({'clause': 'call-history', 'fn': 'bilform_matrix'},
                                         'bilform_matrix(use_mp=True, cpu={}) after the in-place list mutation {!r} on the same operator and list objects: {}'.format(cpu, op, bad),
                                         {'kind': 'call-history', 'fn': 'bilform_matrix'}))
        # the same history on the SERIAL loop (N*M >= 100, use_mp=False): assemblies of one shape on one operator, the lists
        # mutated in place between them (causal and acausal positions change places), then a larger and again the first shape
        SLs = SingleLayerOperator(m)
        T = list(els[:10])
        S = list(els[6:16])
        for op in ops + ['grow', 'shrink', 'reverse']:
            if op == 'grow':
                T, S = list(els[:12]), list(els[4:16])
            elif op == 'shrink':
                T, S = list(els[:10]), list(els[6:16])
            else:
                mutate(S, op, els)
                if op in ('rotate', 'swap-ends', 'reverse'):
                    mutate(T, op, els)
            out['n'] += 1
            try:
                A = SLs.bilform_matrix(T, S)
                want = np.array([[ref.bilform(tr, te) for tr in S] for te in T], dtype=float)
                bad = None if (A.shape == want.shape and np.array_equal(A, want)) else 'matrix differs from the entry-wise single evaluations of the current lists'
            except Exception as ex:  # noqa
                bad = 'raised {!r}'.format(ex)
            if bad and len(out['viols']) < 8:
                out['viols'].append(({'clause': 'call-history', 'fn': 'bilform_matrix', 'path': 'serial'},
                                     'bilform_matrix (serial loop) after the history step {!r} on the same operator: {}'.format(op, bad),
                                     {'kind': 'call-history', 'fn': 'bilform_matrix'}))
    return out


def long_list_task(item):
    """Key faithfulness for LONG element lists (more entries than any abbreviated printing keeps): against ONE cache directory,
    cold and warm requests of list A (N elements), B = A with the two middle elements exchanged, C = A with the middle element
    replaced by an element outside A - same shape, same first and last elements.  Every result must equal the entry-wise
    single evaluations of the list requested; a fresh operator object per call (as in the other cache clauses)."""
    N, lt, lx = item
    from mc import universe as U_
    from src.single_layer import SingleLayerOperator
    out = {'n': 0, 'viols': [], 'files': None}
    m = U_.level_mesh('UnitSquare', (0., 1.), lt, lx)
    els = sorted(m.leaf_elements, key=rect)
    if len(els) < N + 1:
        raise HarnessError('mesh too small for the long-list clause')
    A = els[:N]
    B = list(A)
    B[N // 2], B[N // 2 + 1] = B[N // 2 + 1], B[N // 2]
    C = list(A)
    C[N // 2] = els[N]
    trial = [els[0], els[-1]]
    ref = SingleLayerOperator(m)
    row = {id(e): [ref.bilform(tr, e) for tr in trial] for e in els[:N + 1]}
    if row[id(A[N // 2])] == row[id(A[N // 2 + 1])] or row[id(A[N // 2])] == row[id(els[N])]:
        raise HarnessError('long-list variants have equal reference rows - a shared entry would go unnoticed')
    d = faultfs.tmpdir()
    try:
        for step, (lab, L) in enumerate((('A', A), ('B', B), ('C', C), ('A', A), ('B', B), ('C', C))):
            out['n'] += 1
            try:
                with contextlib.redirect_stdout(io.StringIO()):
                    got = np.asarray(SingleLayerOperator(m, cache_dir=d).bilform_matrix(L, list(trial)))
                want = np.array([row[id(e)] for e in L], dtype=float)
                bad = None if (got.shape == want.shape and np.array_equal(got, want)) else '{} rows differ from the entry-wise single evaluations'.format(
                    int(np.sum(np.any(got != want, axis=1))) if got.shape == want.shape else 'shape {} -'.format(got.shape))
            except Exception as ex:  # noqa: BLE001
                bad = 'raised {!r}'.format(ex)
            if bad and len(out['viols']) < 3:
                out['viols'].append(({'clause': 'long-list', 'fn': 'bilform_matrix'},
                                     'request {} of the history [A, B, C, A, B, C] against one cache directory, list {} of {} elements x 2 (B = A with the two middle '
                                     'elements exchanged, C = A with the middle element replaced): {}; files in the directory: {}'.format(step + 1, lab, N, bad, len(faultfs.listing(d))),
                                     {'kind': 'long-list', 'N': N, 'lt': lt, 'lx': lx}))
        out['files'] = len(faultfs.listing(d))
    finally:
        faultfs.rmtree(d)
    return out


def run(ctx):
    P = PARAMS[ctx.tier]
    notes = {}
    # ---- the machinery first
    st = vpool.selftest(P['selftest_pools'])
    ctx.note('virtual pool self-test: {} pools, {} workers forked and reaped, fds {} -> {}'.format(
        st['pools'], st['forks'], st['fds_before'], st['fds_after']))
    lin_broken = linform_status()
    if lin_broken:
        ctx.note('linform clauses SKIPPED: InitialOperator.linform is dead on this tree ({}); this is the known '
                 'initial_mesh.py / NumPy-2 defect, reported and repaired outside C17'.format(lin_broken))

    # ---- probes: which pools / chunk lists do the calls create?
    probes = []
    for (N, M), curves in P['sched_curves'].items():
        for c in curves:
            for cpu in range(1, 17):
                probes.append({'w': 'probe', 'curve': c, 'mesh': SCHED_MESH, 'N': N, 'M': M, 'cpu': cpu})
    for (N, M, cpu) in P['extra']:
        probes.append({'w': 'probe', 'curve': 'UnitSquare', 'mesh': SCHED_MESH, 'N': N, 'M': M, 'cpu': cpu, 'extra': True})
    if not lin_broken:
        for c in P['lin_curves']:
            for N in (3, 4, 5, 6):
                for cpu in P['lin_cpus'](N):
                    probes.append({'w': 'probe_linform', 'curve': c, 'mesh': 'uniform1', 'N': N, 'cpu': cpu})
    for c in P['est_curves']:
        for cpu in (1, 2, 3):
            probes.append({'w': 'probe_est', 'curve': c, 'npoly': P['npoly'], 'cpu': cpu, 'fn': 'estimate_sobolev'})
        for cpu in (1, 2, 3, 4):
            probes.append({'w': 'probe_est', 'curve': c, 'npoly': P['npoly'], 'cpu': cpu, 'fn': 'estimate_weighted_l2'})
    t_ph = time.time()
    pres = common.pmap(work, probes, ctx.jobs, chunksize=1)
    ctx.note('{} probes in {:.1f} s'.format(len(probes), time.time() - t_ph))

    items = []
    chunkings = set()
    not_enumerated = []
    sched_total = {}
    uncontrolled_cases = []
    for pr, res in zip(probes, pres):
        fn = {'probe': 'bilform_matrix', 'probe_linform': 'linform_vector'}.get(pr['w'], pr.get('fn'))
        wname = {'probe': 'sched_bilform', 'probe_linform': 'sched_linform', 'probe_est': 'sched_est'}[pr['w']]
        base = dict(pr, w=wname, twice_mod=P['twice_mod'], y_mod=P['y_mod'])
        if res['status'] == 'raised' or res['pools'] != 1:
            # no (single) controlled pool to schedule: run the call once under the default schedule; the comparison
            # still decides, the evidence records the lack of control
            uncontrolled_cases.append({'case': {k: v for k, v in pr.items() if k != 'w'}, 'pools': res['pools'], 'raised': res['what']})
            items.append(dict(base, nchunks=0, nworkers=1, lo=0, hi=1, nocontrol=True))
            continue
        nworkers = res['workers'][0]
        nchunks = res['nchunks']
        chunkings.add((fn, tuple(tuple(c) for c in res['chunk_sizes'])))
        total = vpool.count_set_partitions(nchunks, nworkers)
        key = (fn, pr['curve'], pr.get('N'), pr.get('M'), pr['cpu'])
        if total > MAX_PARTITIONS:
            not_enumerated.append({'case': key, 'partitions': total})
            continue
        sched_total[key] = total
        if ctx.tier == 'quick' and pr['w'] == 'probe' and pr['cpu'] > nchunks:
            # more workers than chunks: the schedules are those of cpu = nchunks plus idle workers; every schedule is still
            # run, but the reruns (second list variant, determinism check) are limited to the first schedule of the case
            base.update(twice_mod=10**9, y_mod=10**9)
        if pr.get('extra') and total > 1000:  # the large multi-item-chunk case: all schedules once, reruns on a subset
            base.update(twice_mod=16, y_mod=16)
        for lo, hi in split_ranges(total, P['batch'] * (4 if total > 1000 else 1)):
            items.append(dict(base, nchunks=nchunks, nworkers=nworkers, lo=lo, hi=hi))
    # ---- paths
    for c in PATH_CURVES:
        for k in PATH_MESHES:
            items.append({'w': 'paths', 'curve': c, 'mesh': k})
    # ---- crash points
    for (c, N, M) in P['crash_mat']:
        size = 128 + 8 * N * M
        for i, (lo, hi) in enumerate(split_ranges(size + 64, 64)):
            items.append({'w': 'crash', 'fn': 'bilform_matrix', 'curve': c, 'mesh': SCHED_MESH, 'N': N, 'M': M, 'lo': lo, 'hi': hi,
                          'extras': i == 0})
    if not lin_broken:
        for (c, N) in P['crash_vec']:
            size = 128 + 8 * N
            for i, (lo, hi) in enumerate(split_ranges(size + 16, 16)):
                items.append({'w': 'crash', 'fn': 'linform_vector', 'curve': c, 'mesh': 'uniform1', 'N': N, 'lo': lo, 'hi': hi,
                              'extras': i == 0})
    cost = {'sched_bilform': lambda it: (it['hi'] - it['lo']) * (2 + it['cpu']), 'sched_linform': lambda it: (it['hi'] - it['lo']) * 12,
            'sched_est': lambda it: (it['hi'] - it['lo']) * 12, 'paths': lambda it: 900, 'crash': lambda it: 300}
    import random
    random.Random(ctx.seed).shuffle(items)  # VERIF_SEED only permutes the order of independent work items
    items.sort(key=lambda it: -cost[it['w']](it))
    t_ph = time.time()
    results = common.pmap(work_guard, items, ctx.jobs, chunksize=1)
    ctx.note('{} work items (paths, schedules, crash points) in {:.1f} s'.format(len(items), time.time() - t_ph))
    walls = {}
    for it, r in zip(items, results):
        w = walls.setdefault(it['w'], [0, 0.0, 0.0])
        w[0] += 1
        w[1] += r['wall']
        w[2] = max(w[2], r['wall'])
    ctx.note('cpu-seconds per item type (items, total, longest): {}'.format({k: (v[0], round(v[1]), round(v[2], 1)) for k, v in walls.items()}))
    # ---- pool call histories with in-place mutated lists (one fresh process)
    hres = common.pmap_fresh(call_history_task, [not lin_broken], 1)[0]
    for key, what, rep in hres['viols']:
        ctx.violation(key, what, rep)
    ctx.note('pool call histories with in-place mutated lists: {} calls'.format(hres['n']))
    # ---- long element lists against one cache directory (fresh processes)
    ll_items = [(300, 3, 4), (1100, 4, 5)] if ctx.tier == 'quick' else [(120, 3, 4), (300, 3, 4), (1100, 4, 5), (2100, 5, 5)]
    ll_calls = 0
    for it_, lres in zip(ll_items, common.pmap_fresh(long_list_task, ll_items, ctx.jobs)):
        ll_calls += lres['n']
        for key, what, rep in lres['viols']:
            ctx.violation(key, what, rep)
    ctx.note('long-list cache histories: {} calls (list lengths {})'.format(ll_calls, [i[0] for i in ll_items]))
    # ---- aggregate
    agg = {}
    samples = []
    nonrepro = []
    acct = {'forks': 0, 'reaped': 0, 'uncontrolled': 0, 'max_fd_delta': 0}
    evaluations = 0
    distinct = 0
    observations = set()
    crash_sizes = {}
    scopes = {}
    path_classes = {}
    for it, r in zip(items, results):
        key = r['clause'] + ('/' + r['fn'] if 'fn' in r else '')
        a = agg.setdefault(key, {'calls': 0, 'schedules': 0, 'run_twice': 0, 'completion_orders': 0, 'chunks_on_fresh_worker': 0,
                                 'chunks_on_used_worker': 0, 'tasks_compared_individually': 0})
        a['calls'] += r['n']
        evaluations += r['n']
        for src, dst in (('schedules', 'schedules'), ('twice', 'run_twice'), ('orders', 'completion_orders'), ('fresh', 'chunks_on_fresh_worker'),
                         ('used', 'chunks_on_used_worker'), ('tasks_compared', 'tasks_compared_individually')):
            a[dst] += r.get(src, 0)
        for k, what, rp in r['viols']:
            ctx.violation(k, what, rp)
        nonrepro += r.get('nonrepro', [])
        for smp in r.get('samples', []):
            kind = (smp.get('clause'), smp.get('fn'))
            if sum(1 for x in samples if (x.get('clause'), x.get('fn')) == kind) < 2:
                samples.append(smp)
        for k in ('forks', 'reaped', 'uncontrolled'):
            acct[k] += r.get('acct', {}).get(k, 0)
        acct['max_fd_delta'] = max(acct['max_fd_delta'], r.get('acct', {}).get('fd_delta', 0))
        if r['clause'] == 'schedule':
            distinct += r['distinct'] if isinstance(r['distinct'], int) else 0
            if 'sens' in r:
                a['stale_sensitive_triples_min'] = min(a.get('stale_sensitive_triples_min', 10**9), *r['sens'])
        if r['clause'] == 'paths':
            distinct += len(r['nontrivial'])
            a['asymmetric_pairs'] = a.get('asymmetric_pairs', 0) + r['asym_pairs']
            a['entries_compared'] = a.get('entries_compared', 0) + r['entries']
            a['pool_path_calls_with_controlled_pool'] = a.get('pool_path_calls_with_controlled_pool', 0) + r['pool_calls']
            a['inline_calls_that_created_a_pool'] = a.get('inline_calls_that_created_a_pool', 0) + r['inline_pools']
            for k, v in r['classes'].items():
                path_classes[k] = path_classes.get(k, 0) + v
        if r['clause'] == 'crash':
            observations.update(r['observations'])
            crash_sizes[(r['fn'], it['curve'])] = r['size']
            a['cache_hits_observed'] = a.get('cache_hits_observed', 0) + r['hits']
            for k, v in r['scopes'].items():
                scopes[r['fn'] + ' ' + k] = scopes.get(r['fn'] + ' ' + k, 0) + v
            distinct += sum(v for k, v in r['scopes'].items() if not k.startswith('undetectable'))
    if nonrepro:
        raise HarnessError('determinism self-check failed, the same schedule gave different bits twice: {}'.format(nonrepro[:3]))

    # ---- (d) cache histories
    t_ph = time.time()
    hist = explore_histories(ctx, P['hist_depth'])
    evaluations += hist['transitions']
    ctx.note('cache histories to depth {}: {} states, {} transitions in {:.1f} s'.format(
        P['hist_depth'], hist['states'], hist['transitions'], time.time() - t_ph))
    distinct += hist['states']
    samples += hist['samples']
    for k in ('forks', 'reaped', 'uncontrolled'):
        acct[k] += hist['acct'][k]

    # ---- vacuity guards
    def need(cond, msg):
        if cond:
            return
        if ctx.n_viol > 0:  # the verdict is already 'violated'; a clause the defect made unreachable is only noted
            ctx.note('not covered because of the reported violations: ' + msg)
            return
        raise HarnessError('vacuous clause: ' + msg)

    controlled = not uncontrolled_cases
    need(agg.get('paths/bilform_matrix', {}).get('calls', 0) > 0 if 'paths/bilform_matrix' in agg else agg.get('paths', {}).get('calls', 0) > 0,
         'no path case ran')
    pa = agg.get('paths', agg.get('paths/bilform_matrix', {}))
    need(pa.get('asymmetric_pairs', 0) > 0, 'no space-time-asymmetric pair in the path lists')
    need(any(k.startswith('nested') for k in path_classes) and any(k.startswith('seam') for k in path_classes)
         and any(k.endswith('acausal') for k in path_classes), 'path lists lack nested / seam / acausal pairs')
    sb = agg.get('schedule/bilform_matrix', {})
    need(sb.get('schedules', 0) > 0, 'no bilform_matrix schedule ran (the call creates no single controlled pool)')
    if controlled:
        need(sb.get('chunks_on_used_worker', 0) > 0 and sb.get('chunks_on_fresh_worker', 0) > 0, 'no chunk ran on a used / fresh worker')
        need(sb.get('stale_sensitive_triples_min', 0) > 0, 'a schedule list has no early-column / late-column / acausal-row triple')
        need(sb.get('run_twice', 0) > 0, 'no schedule was run twice')
        for (N, M), curves in P['sched_curves'].items():
            for c in curves:
                for cpu in range(1, 17):
                    want = vpool.count_set_partitions(M, cpu)
                    got = sched_total.get(('bilform_matrix', c, N, M, cpu))
                    need(got is not None and got >= 1, 'schedules of {}x{} cpu={} on {} not enumerated'.format(N, M, cpu, c))
                    if got != want:
                        notes['chunking_differs_from_design'] = 'partition count for {}x{} cpu={} is {} (one chunk per column would give {})'.format(N, M, cpu, got, want)
        need(agg.get('schedule/estimate_sobolev', {}).get('schedules', 0) > 0, 'no estimate_sobolev schedule ran')
        need(agg.get('schedule/estimate_weighted_l2', {}).get('schedules', 0) > 0, 'no estimate_weighted_l2 schedule ran')
        if not lin_broken:
            need(agg.get('schedule/linform_vector', {}).get('schedules', 0) > 0, 'no linform_vector schedule ran')
    cm = agg.get('crash/bilform_matrix', {})
    need(cm.get('calls', 0) > 0 and any(k.startswith('bilform_matrix rejected') for k in scopes), 'no crash point ran')
    for (fn, c), size in crash_sizes.items():
        need(size > 0, 'no stored file for {} on {}'.format(fn, c))
    need(cm.get('cache_hits_observed', 0) > 0, 'no cache hit observed for the matrix')
    need(hist['states'] > 1 and hist['transitions'] > 0, 'history search explored nothing')
    need(hist['hits'] > 0, 'history search never observed a cache hit')
    need(hist['denied'] > 0, 'history search never exercised the read-only fault')

    for o in sorted(observations):
        ctx.note('observation (outside the decided space): ' + o)
    if uncontrolled_cases:
        ctx.note('{} case(s) did not create exactly one controlled pool - compared under the default schedule only: {}'.format(
            len(uncontrolled_cases), uncontrolled_cases[:2]))
    if acct['uncontrolled']:
        ctx.note('uncontrolled genuine multiprocessing pools were created by the code under test: {}'.format(acct['uncontrolled']))
    prefixes = sum(v for k, v in scopes.items())
    cov = {
        'evaluations': int(evaluations) + hres['n'] + ll_calls, 'pool_call_history_calls': hres['n'], 'long_list_cache_history_calls': ll_calls, 'long_list_lengths': [i[0] for i in ll_items],
        'distinct_nontrivial': int(distinct),
        'rule': 'evaluations = calls into bilform_matrix / linform_vector / estimate_* plus history transitions, each compared bitwise '
                'with single evaluations on fresh operators. distinct_nontrivial counts distinct (function, shape, cpu, schedule, list '
                'variant) tuples of the schedule clause + distinct (curve, mesh, shape, path) of the path clause + distinct file faults '
                'whose file the reader rejects or that are harmless (undetectable ones excluded) + distinct canonical cache states; '
                'reruns for the determinism check and completion-order reruns are not counted',
        'samples': samples[:24],
        'exhaustive': not not_enumerated or all(x['case'][0] == 'bilform_matrix' and (x['case'][2], x['case'][3], x['case'][4]) in P['extra']
                                                for x in not_enumerated),
        'per_clause': agg,
        'schedules_enumerated_per_case': {'{} {} {}x{} cpu={}'.format(*k): v for k, v in sorted(sched_total.items(), key=str)
                                          if k[4] in (1, 2, 3, 6, 16)},
        'schedules_total': int(sum(sched_total.values())),
        'distinct_chunkings': [{'fn': f, 'chunk_sizes_per_call': c} for f, c in sorted(chunkings)],
        'not_enumerated': not_enumerated,
        'crash_file_sizes': {'{} {}'.format(*k): v for k, v in crash_sizes.items()},
        'file_faults_by_reader_verdict': scopes,
        'file_faults_total': prefixes,
        'path_pair_classes': len(path_classes),
        'history': {k: v for k, v in hist.items() if k not in ('samples', 'acct')},
        'virtual_pool': dict(acct, selftest=st, controlled=controlled),
        'linform_clauses': 'skipped: ' + lin_broken if lin_broken else 'run',
        'observations': sorted(observations),
    }
    cov.update(notes)
    return ctx.finish('fault_enumeration', cov, [
        'schedules: workers of a pool share nothing but what they inherit at fork time, so only the chunk -> worker map (set '
        'partitions, <= cpu blocks) and, for unordered APIs, the completion order can influence a result; the real OS scheduler, '
        'fork failures and worker death are not modelled',
        'cpu_count in 1..16; chunk sizes are those the code derives from cpu_count (M >= 16 columns give multi-item chunks; with two or '
        'more workers these have too many schedules and are listed under not_enumerated)',
        'corrupt cache file = truncated at any byte length, or any content that numpy.load rejects; well-formed files with other '
        'content cannot be told apart without a checksum and are reported as observations only',
        'read-only directory is injected at builtins.open / io.open / os.open (the harness runs as root, for whom permission bits are not '
        'enforced): mode fs = every write fails (EROFS), mode dir = creating / deleting entries fails (EACCES)',
        'operators with different quad_order / pw_exact sharing one cache directory are outside the property; concurrent writers are not modelled',
        'floating point reproducibility on this machine (checked by running schedules twice), OMP/OPENBLAS threads = 1',
        'InitialOperator on the circle needs quadpy (not importable): load-vector clauses use the unit square and the L-shape',
    ])


def work_guard(item):
    t0 = time.time()
    r = work_nocontrol(item) if item.get('nocontrol') else work(item)
    r['wall'] = time.time() - t0
    return r


def work_nocontrol(item):
    """The call does not create one controlled pool (or raises): compare it once under the default schedule."""
    acct = Acct()
    w = item['w']
    reset_globals()
    if w == 'sched_bilform':
        X, _ = sched_lists(item['curve'], item['mesh'], item['N'], item['M'])
        spec = sched_spec(item['curve'], item['mesh'], X, item['cpu'], None)
        problems, info, _ = bilform_call(spec)
        fn = 'bilform_matrix'
    elif w == 'sched_linform':
        spec = {'clause': 'schedule', 'fn': 'linform_vector', 'curve': item['curve'], 'mesh': item['mesh'],
                'test': linform_lists(item['curve'], item['mesh'], item['N'], 0), 'use_mp': True, 'cpu': item['cpu'], 'assign': None}
        problems, info, _ = linform_call(spec)
        fn = 'linform_vector'
    else:
        spec = {'clause': 'schedule', 'fn': item['fn'], 'curve': item['curve'], 'npoly': item['npoly'], 'cpu': item['cpu'], 'assign': None}
        problems, info, _ = est_call(spec)
        fn = item['fn']
    out = {'clause': 'schedule', 'fn': fn, 'n': 1, 'schedules': 0, 'viols': [], 'distinct': 0}
    for p in problems[:1]:
        rp = dict(spec)
        rp['prev'] = None
        out['viols'].append(({'clause': 'schedule', 'fn': fn}, '{} cpu={} (first call in a fresh process, default schedule): {}'.format(
            fn, item['cpu'], p), rp))
    out['acct'] = acct.done()
    return out


def explore_histories(ctx, depth):
    names, pristine, problems = hist_names()
    for lab, p in problems.items():
        ctx.violation({'clause': 'history', 'tag': 'result'}, 'request {} against an empty cache directory: {}'.format(lab, p),
                      {'clause': 'history', 'ops': [['asm', lab, 'serial']]})
    collisions = 0
    for a, b in itertools.combinations(HIST_LABELS, 2):
        if names[a] is not None and names[a] == names[b]:
            collisions += 1
            ra, rb = hist_spec(a), hist_spec(b)
            differ = 'curve' if ra['curve'] != rb['curve'] else ('trial list' if ra['trial'] != rb['trial'] else 'test list')
            ctx.violation({'clause': 'cache-key', 'differ': differ},
                          'requests {} and {} ({} differs: {} vs {}) resolve to the same cache file {}'.format(
                              a, b, differ, ra['curve'] + str(ra[('trial' if differ == 'trial list' else 'test')][:2]),
                              rb['curve'] + str(rb[('trial' if differ == 'trial list' else 'test')][:2]), names[a]),
                          {'clause': 'cache-key', 'a': a, 'b': b})
    state0 = ((), (), None, None)
    seen = {state0: ()}
    frontier = [((), state0)]
    out = {'depth': depth, 'states': 1, 'transitions': 0, 'asm_calls': 0, 'hits': 0, 'denied': 0, 'name_collisions': collisions,
           'states_per_depth': [1], 'alphabet': [list(o) for o in HIST_OPS], 'samples': [],
           'acct': {'forks': 0, 'reaped': 0, 'uncontrolled': 0}, 'file_names': names}
    reported = 0
    for dpt in range(depth):
        items = [{'w': 'history', 'ops': list(h) + [op], 'twice': dpt < 2} for h, s in frontier for op in enabled_ops(s)]
        res = common.pmap(work, items, ctx.jobs, chunksize=4)
        new = []
        for it, r in zip(items, res):
            out['transitions'] += 1
            out['asm_calls'] += r['stats']['asm']
            out['hits'] += r['stats']['hits']
            out['denied'] += r['stats']['denied']
            for k in ('forks', 'reaped', 'uncontrolled'):
                out['acct'][k] += r['acct'][k]
            if r['nonrepro']:
                raise HarnessError('determinism self-check failed: {}'.format(r['nonrepro']))
            if r['viols']:
                if reported < 4:  # BFS order: the shortest counterexamples first
                    reported += 1
                    for k, what, rp in r['viols']:
                        ctx.violation(k, what, rp)
                continue  # do not expand a violating history
            s = tuple(r['state'])
            if s not in seen:
                seen[s] = tuple(map(tuple, it['ops']))
                new.append((seen[s], s))
        out['states'] += len(new)
        out['states_per_depth'].append(len(new))
        frontier = new
        if not frontier:
            break
    hs = sorted(seen.values(), key=lambda h: (len(h), h))
    out['samples'] = [{'clause': 'history', 'ops': [list(o) for o in h]} for h in (hs[1:3] + hs[-2:])]
    return out


# =====================================================================================================
# replay of one recorded case, without the explorer
def replay(ctx, data):
    clause = data.get('clause')
    print('replaying C17 case: clause={} fn={}'.format(clause, data.get('fn')))
    problems = []
    if data.get('kind') == 'call-history':
        r = call_history_task(not linform_status())
        for key, what, rep in r['viols']:
            print('  ', what)
        return not r['viols']
    if data.get('kind') == 'long-list':
        r = long_list_task((data['N'], data['lt'], data['lx']))
        for key, what, rep in r['viols']:
            print('  ', what)
        return not r['viols']
    if clause in ('paths', 'schedule'):
        fn = data.get('fn', 'bilform_matrix')
        call = {'bilform_matrix': bilform_call, 'linform_vector': linform_call}.get(fn, est_call)
        reset_globals()
        prev = data.get('prev')
        if prev:
            print('  predecessor call in the same process:', describe(prev) if 'test' in prev else prev)
            call({k: v for k, v in prev.items() if k != 'prev'})
        spec = {k: v for k, v in data.items() if k != 'prev'}
        print('  call:', describe(spec) if 'test' in spec else spec)
        problems, info, val = call(spec)
        print('  pools created: {}, workers: {}, chunk sizes: {}, APIs: {}'.format(info['pools'], info['workers'], info['chunk_sizes'], info['apis']))
    elif clause == 'crash':
        fn = data['fn']
        spec = {k: data[k] for k in ('fn', 'curve', 'mesh', 'test', 'trial') if k in data}
        d = faultfs.tmpdir()
        try:
            reset_globals()
            problems, name, pristine = cold_store(fn, spec, d)
            fault = data['fault']
            print('  first call stored', name, 'problems:', problems)
            if not problems and fault[0] == 'warm':
                problems, _, _ = cache_call(fn, spec, d)
            elif not problems and fault[0] in ('prefix', 'garbage'):
                if fault[0] == 'garbage':
                    gv = faultfs.garbage_variants(pristine, seed=1)
                    import io
                    buf = io.BytesIO()
                    np.save(buf, np.zeros((3, 2)) if fn == 'bilform_matrix' else np.zeros(2))
                    gv['valid-other-shape'] = buf.getvalue()
                    f = ('garbage', fault[1], gv[fault[1]])
                else:
                    f = ('prefix', int(fault[1]))
                problems, scope = crash_one(fn, spec, d, name, pristine, f, data.get('recompute') == 'pool')
                print('  fault {} -> reader verdict {}'.format(fault, scope))
        finally:
            faultfs.rmtree(d)
    elif clause == 'history':
        viols, state, stats = run_history(data['ops'])
        print('  history', data['ops'], '-> state', state, stats)
        problems = [w for _, w in viols]
    elif clause == 'cache-key':
        names, _, _ = hist_names()
        a, b = data['a'], data['b']
        print('  request {} -> {}\n  request {} -> {}'.format(a, names[a], b, names[b]))
        if names[a] == names[b]:
            problems = ['requests {} and {} resolve to the same cache file'.format(a, b)]
    else:
        raise HarnessError('unknown replay clause {!r}'.format(clause))
    CTL.reap()
    for p in problems:
        print('  PROBLEM:', p)
    return not problems
