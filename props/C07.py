"""C07 - pointwise evaluation of the single-layer operator on the boundary is correct.

Exhaustive over: trial element of the dyadic rectangle universe x time alphabet (parabolic ratio h_x^2/tau <= 16) x
point alphabet (0, L, the element's end points, points at relative distances {1e-5,1e-3,1e-2-+eps,0.1} outside either
end - through the seam and round corners when the element abuts them -, interior points, the point where d_a = d_b,
Gauss nodes of every other leaf of the same level).  Oracle: independent graded 1-D integral.  Tolerances by class
exactly as in the property (relative to max(|exact|, 1e-9)): 1e-8 in the closed element, 5e-4 beyond 1 % of the
element length, 2e-3 in between; evaluate_exact 1e-7 on the element's own straight side; evaluate_vector == vector
of evaluate; the graded integral of evaluate over a test element reproduces bilform within the bound implied by
the pointwise tolerances."""
import math

import numpy as np

from mc import common, oracle, universe
from mc.common import pmap
from mc.meshmc import curve

from src.quadrature import gauss_quadrature_scheme

CURVES = ('UnitSquare', 'PiSquare', 'LShape', 'Circle', 'UnitInterval')
_U = {}
RATIO = 16.0


def get_universe(key):
    if key not in _U:
        cname, tgrid, Lt, Lx = key
        if isinstance(Lx, str) and Lx.startswith('deep:'):
            # directed deep meshes: k space bisections towards both ends of the parameter interval (elements of length 2^-k next
            # to x = 0 and x = L, with the whole staircase of coarser neighbours); shipped time grid (0, 1)
            from mc import meshmc
            if tuple(tgrid) != (0., 1.):
                raise common.HarnessError('deep universes use the shipped time grid')
            dh = meshmc.deep_histories(cname, int(Lx.split(':')[1]))
            U = {}
            for i, name in enumerate(('seamR', 'seamL')):
                m_ = meshmc.build(meshmc.CFGS[cname], dh[name])
                U[(0, i)] = (m_, list(m_.leaf_elements))
        else:
            U = universe.rect_universe(cname, tgrid, Lt, Lx)
        g = curve(cname)
        els = universe.all_elements(U)
        SL = universe.make_SL(cname, False, tgrid)
        SL._init_elems(els)
        _U[key] = (g, U, els, oracle.EntryOracle(g), SL)
    return _U[key]


def cyc_dist_outside(g, xh, xa, xb):
    """Parameter distance from xh to the closed interval [xa,xb], cyclic on closed curves."""
    L = float(g.gamma_length)
    if xa <= xh <= xb:
        return 0.0
    d = min(abs(xh - xa), abs(xh - xb))
    if g.closed:
        d = min(d, abs(xh + L - xb), abs(xa + L - xh))
    return d


def classify(g, xh, xa, xb):
    d = cyc_dist_outside(g, xh, xa, xb)
    if d == 0.0:
        return 'closed', 1e-8
    if d >= 0.01 * (xb - xa):
        return 'far', 5e-4
    return 'near', 2e-3


def point_alphabet(g, e, others, gauss_pts):
    L = float(g.gamma_length)
    xa, xb = e.space_interval
    h = xb - xa
    P = {0.0, L, xa, xb, (xa + xb) / 2, xa + 0.3 * h, xa + 2e-5 * max(1.0, abs(xa)) + 1e-5, xb - 2e-5 * max(1.0, abs(xb)) - 1e-5}
    for r in (1e-5, 1e-3, 1e-2 * (1 - 1e-6), 1e-2 * (1 + 1e-6), 0.1, 0.5, 1.0):
        for p in (xa - r * h, xb + r * h):
            if g.closed:
                p = p % L
            if 0 <= p <= L:
                P.add(p)
    # where d_a == d_b flips (the point opposite to the element on a closed curve / far side)
    if g.closed:
        P.add(((xa + xb) / 2 + L / 2) % L)
        P.add((np.nextafter(((xa + xb) / 2 + L / 2) % L, 0)))
    for o in others:
        if o is e:
            continue
        oa, ob = o.space_interval
        for q in gauss_pts:
            P.add(oa + (ob - oa) * q)
    # documented precondition: interior points at least 1e-5 away from the end points
    out = []
    for p in sorted(P):
        if not 0.0 <= p <= L:
            continue  # (tiny elements: the offset points of the alphabet can leave the parameter interval)
        if xa < p < xb and (p - xa <= 1.0001e-5 or xb - p <= 1.0001e-5):
            continue
        out.append(float(p))
    return out


def time_alphabet(e, T):
    a, b = e.time_interval
    ht = b - a
    hx2 = e.h_x**2
    cands = [a + hx2 / RATIO, a + 0.1 * ht, a + 0.5 * ht, b, b + hx2 / RATIO, b + ht, b + 0.37 * ht, T, a + 0.77 * ht]
    out = []
    for t in sorted(set(cands)):
        taus = [x for x in (t - a, t - b) if x > 0]
        if not taus or t > max(T, b + ht) + 1e-12:
            continue
        if hx2 / min(taus) <= RATIO * (1 + 1e-12):
            out.append(float(t))
    return out


def own_piece_range(g, e):
    for i in range(len(g.pw_gamma)):
        if g.pw_start[i] <= e.space_interval[0] and e.space_interval[1] <= g.pw_start[i + 1]:
            return float(g.pw_start[i]), float(g.pw_start[i + 1])
    return None


def chunk(item):
    key, lo, hi, gorder = item
    g, U, els, orc, SL = get_universe(key)
    T = key[1][-1]
    gp = gauss_quadrature_scheme(gorder).points
    import src.parametrization as _P
    straight = isinstance(g, _P.PiecewisePolygon)  # the closed-form evaluation is defined on straight sides only
    out = {'n': 0, 'classes': {}, 'viols': [], 'exact_checks': 0}
    for e in els[lo:hi]:
        lvl = [k for k, (m, ee) in U.items() if e in ee][0]
        others = U[lvl][1]
        pts = point_alphabet(g, e, others, gp)
        rng = own_piece_range(g, e)
        piece = orc.piece(e)
        for t in time_alphabet(e, T):
            for xh in pts:
                x = g.eval(xh).reshape(2, 1)
                ref = oracle.pointwise(t, e.time_interval, e.space_interval, piece, x, xhat=xh if e.space_interval[0] < xh < e.space_interval[1] else None)
                den = max(abs(ref), 1e-9)
                cl, tol = classify(g, xh, *e.space_interval)
                recd = {'curve': key[0], 'tgrid': key[1], 'univ': [key[2], key[3]], 'trial': [e.time_interval, e.space_interval], 't': t, 'x_hat': xh, 'class': cl, 'exact': ref}
                try:
                    val = float(SL.evaluate(e, t, xh, x))
                    err = abs(val - ref) / den
                except Exception as ex:
                    val, err = None, float('inf')
                    recd['exc'] = repr(ex)
                out['n'] += 1
                c = out['classes'].setdefault(cl, [0, 0.0])
                c[0] += 1
                c[1] = max(c[1], min(err, 9e99))
                if not err <= tol:
                    if len(out['viols']) < 4:
                        out['viols'].append(('evaluate-' + cl, dict(recd, fn='evaluate', value=val, err=err, tol=tol)))
                if straight and rng and rng[0] <= xh <= rng[1]:
                    out['exact_checks'] += 1
                    out['n'] += 1
                    try:
                        v2 = float(SL.evaluate_exact(e, t, xh))
                        e2 = abs(v2 - ref) / den
                    except Exception as ex:
                        v2, e2 = None, float('inf')
                    c = out['classes'].setdefault('exact-' + cl, [0, 0.0])
                    c[0] += 1
                    c[1] = max(c[1], min(e2, 9e99))
                    if not e2 <= 1e-7:
                        if len(out['viols']) < 4:
                            out['viols'].append(('evaluate_exact', dict(recd, fn='evaluate_exact', value=v2, err=e2, tol=1e-7)))
    return out


def history_task(item):
    """Call history across curves in ONE fresh process: serve every case of universe A, then check every case of universe B."""
    keyA, keyB, gorder = item
    gA, UA, elsA, *_ = get_universe(keyA)
    chunk((keyA, 0, len(elsA), gorder))
    gB, UB, elsB, *_ = get_universe(keyB)
    r = chunk((keyB, 0, len(elsB), gorder))
    for tag, v in r['viols']:
        v['after'] = keyA[0]
    return r


def vector_task(key):
    """evaluate_vector == vector of evaluate (bitwise) on every level mesh of the universe."""
    g, U, els, orc, SL0 = get_universe(key)
    L = float(g.gamma_length)
    n = 0
    viols = []
    from src.single_layer import SingleLayerOperator
    for lvl, (m, ee) in U.items():
        SL = SingleLayerOperator(m)
        for t in sorted(set(x for e in ee for x in e.time_interval) | {0.3 * key[1][-1]}):
            for xh in (0.0, L, L / 7, ee[0].space_interval[1]):
                vec = SL.evaluate_vector(t, xh)
                x = g.eval(xh).reshape(2, 1)
                for j, e in enumerate(m.leaf_elements):
                    n += 1
                    ev = SL.evaluate(e, t, xh, x)
                    if abs(vec[j] - ev) > 1e-11 * max(abs(ev), 1e-9):  # far below the accuracy the property demands of either
                        viols.append(('evaluate_vector-differs', {'curve': key[0], 'tgrid': key[1], 'level': lvl, 't': t, 'x_hat': xh, 'j': j}))
    return n, viols[:3]


SWEEP_GRAPHS = {'quick': {'UnitSquare': 2, 'Circle': 2, 'LShape': 1, 'UnitInterval': 2},
                'thorough': {'UnitSquare': 3, 'Circle': 3, 'LShape': 2, 'PiSquare': 2, 'UnitInterval': 3}}


def sweep_task(item):
    """Sweep order on LOCALLY REFINED meshes: one long-lived operator per reachable mesh state (bisection BFS), and for each
    (t, x_hat) ALL trial leaves one after the other (the order of evaluate_vector and of the estimators' residual), each value
    judged against the independent oracle at the tolerance of its class; then evaluate_vector at the same point, entry by
    entry against the oracle as well.  `chunk` fixes the element and varies the point; here the point is fixed and the element
    varies, on meshes whose neighbouring leaves have different sizes - what one evaluation leaves behind on the operator must
    not change the next."""
    from mc import meshmc
    from src.single_layer import SingleLayerOperator
    cfgname, h = item
    m = meshmc.build(meshmc.CFGS[cfgname], h)
    g = m.gamma_space
    L = float(g.gamma_length)
    orc = oracle.EntryOracle(g)
    SL = SingleLayerOperator(m)
    leaves = list(m.leaf_elements)
    pieces = [orc.piece(e) for e in leaves]
    T = max(e.time_interval[1] for e in leaves)
    ts = sorted(set(x for e in leaves for x in e.time_interval if x > 0) | {0.3 * T, 0.77 * T})
    pts = sorted(set([L / 7, 0.61 * L] + [(e.space_interval[1] + 0.37 * (e.space_interval[1] - e.space_interval[0])) % L for e in leaves][:4]))
    out = {'n': 0, 'viols': []}
    for t in ts:
        for xh in pts:
            x = g.eval(xh).reshape(2, 1)
            try:
                vals = [float(SL.evaluate(e, t, xh, x)) for e in leaves]
                vec = [float(v) for v in SL.evaluate_vector(t, xh)]
            except Exception as ex:  # noqa: BLE001
                out['viols'].append(('sweep-raised', {'curve': cfgname, 'history': h, 't': t, 'x_hat': xh, 'exc': repr(ex), 'fn': 'evaluate'}))
                continue
            for j, e in enumerate(leaves):
                a, b = e.time_interval
                taus = [y for y in (t - a, t - b) if y > 0]
                if not taus:
                    continue  # acausal: C04
                if e.h_x**2 / min(taus) > RATIO * (1 + 1e-12):
                    continue
                xa, xb = e.space_interval
                inside = xa < xh < xb
                if inside and (xh - xa < 2e-5 or xb - xh < 2e-5):
                    continue
                ref = oracle.pointwise(t, e.time_interval, e.space_interval, pieces[j], x, xhat=xh if inside else None)
                den = max(abs(ref), 1e-9)
                cl, tol = classify(g, xh, xa, xb)
                for fn, val in (('evaluate', vals[j]), ('evaluate_vector', vec[j] if j < len(vec) else float('nan'))):
                    out['n'] += 1
                    err = abs(val - ref) / den
                    if not err <= tol:
                        out['viols'].append(('sweep-' + fn + '-' + cl, {'curve': cfgname, 'history': h, 'trial': [e.time_interval, e.space_interval], 't': t,
                                                                      'x_hat': xh, 'class': cl, 'exact': ref, 'value': val, 'err': err, 'tol': tol, 'fn': fn}))
    out['viols'] = out['viols'][:3]
    return out


def integral_task(item):
    """int_test evaluate(trial) = bilform(trial, test), within the bound implied by the pointwise tolerances."""
    key, lo, hi = item
    g, U, els, orc, SL = get_universe(key)
    N = len(els)
    # tensor rule: time graded towards both ends (sqrt-type kinks at t = trial start/end), space both-end graded
    gx, gw = oracle.graded(8, 10, 0.2)
    tx = np.concatenate([gx / 2, 1 - gx / 2])
    tw = np.concatenate([gw / 2, gw / 2])
    sx, sw = oracle.graded(6, 4, 0.15)
    sx2 = np.concatenate([sx / 2, 1 - sx / 2])
    sw2 = np.concatenate([sw / 2, sw / 2])
    out = {'n': 0, 'worst': 0.0, 'viols': []}
    for idx in range(lo, hi):
        te, tr = els[idx // N], els[idx % N]
        if te.time_interval[1] <= tr.time_interval[0]:
            continue
        if te.h_x**2 / te.h_t > 16 or tr.h_x**2 / tr.h_t > 16:
            continue
        # time cells: cut the test interval at the trial's start/end
        a, b = te.time_interval
        cuts = sorted(set([a, b] + [c for c in tr.time_interval if a < c < b]))
        xa, xb = te.space_interval
        xcuts = sorted(set([xa, xb] + [c for c in tr.space_interval if xa < c < xb]))
        tot = 0.0
        bound = 0.0
        ok = True
        for t0, t1 in zip(cuts, cuts[1:]):
            for x0, x1 in zip(xcuts, xcuts[1:]):
                if (x1 - x0) * sx2.min() < 1.5e-5:
                    ok = False  # nodes would violate the documented 1e-5 precondition of the interval rule
                for ti, wi in zip(t0 + (t1 - t0) * tx, (t1 - t0) * tw):
                    taus = [x for x in (ti - tr.time_interval[0], ti - tr.time_interval[1]) if x > 0]
                    if not taus:
                        continue
                    for xj, wj in zip(x0 + (x1 - x0) * sx2, (x1 - x0) * sw2):
                        v = SL.evaluate(tr, float(ti), float(xj), g.eval(float(xj)).reshape(2, 1))
                        tot += wi * wj * v
                        cl, tol = classify(g, xj, *tr.space_interval)
                        if tr.h_x**2 / min(taus) > RATIO:
                            tol = 1.0  # outside the stated accuracy range of the pointwise rule: no claim
                        bound += wi * wj * tol * max(abs(v), 1e-9)
        if not ok:
            continue
        ent = SL.bilform(tr, te)
        scale = math.sqrt(orc.diag(te) * orc.diag(tr))
        out['n'] += 1
        err = abs(tot - ent)
        allowed = 1.05 * bound + 1e-6 * scale
        out['worst'] = max(out['worst'], err / allowed)
        if not err <= allowed:
            out['viols'].append(('integral-of-evaluate-vs-entry', {'curve': key[0], 'tgrid': key[1], 'test': [te.time_interval, te.space_interval],
                                                                  'trial': [tr.time_interval, tr.space_interval], 'integral': tot, 'entry': float(ent),
                                                                  'allowed': allowed}))
    out['viols'] = out['viols'][:3]
    return out


UNIV = {'quick': [(c, (0., 1.), 1, 1) for c in CURVES] + [('UnitSquare', (0., 0.25), 0, 2), ('Circle', (0., 0.3, 1.), 0, 1)]
                 + [('ThinRect', (0., 2.0**-8), 0, 4), ('UnitSquare', (0., 1.), 0, 'deep:11')],  # custom thin rectangle, short end time: opposite sides are close in the plane and far along the boundary
        'thorough': [(c, (0., 1.), 2, 2) for c in CURVES] + [(c, (0., 0.25), 1, 3) for c in CURVES] + [(c, (0., 0.3, 1.), 1, 2) for c in CURVES]
                    + [(c, (0., 1.), 0, 'deep:14') for c in CURVES] + [('ThinRect', (0., 2.0**-8), 1, 4), ('Stadium', (0., 1.), 1, 2), ('BigCircle', (0., 1.), 1, 2)]}
INTEG = {'quick': [('UnitSquare', (0., 1.), 0, 1), ('Circle', (0., 1.), 0, 0)],
         'thorough': [(c, (0., 1.), 1, 1) for c in ('UnitSquare', 'Circle', 'LShape')]}


def run(ctx):
    gorder = 5 if ctx.tier == 'quick' else 23
    items = []
    sizes = {}
    for key in UNIV[ctx.tier]:
        g, U, els, *_ = get_universe(key)
        sizes['{} t={} Lt={} Lx={}'.format(*key)] = len(els)
        step = max(1, len(els) // (ctx.jobs * 2))
        items += [(key, lo, min(len(els), lo + step), gorder) for lo in range(0, len(els), step)]
    res = pmap(chunk, items, ctx.jobs, chunksize=1)
    n = 0
    classes = {}
    for it, r in zip(items, res):
        n += r['n']
        for k, (c, mx) in r['classes'].items():
            cc = classes.setdefault(k, [0, 0.0])
            cc[0] += c
            cc[1] = max(cc[1], mx)
        for tag, v in r['viols']:
            ctx.violation({'tag': tag, 'curve': v['curve'], 'fn': v['fn']}, '{}: {}'.format(tag, v), v)
    hk = [(c, (0., 1.), 0, 1) for c in CURVES]
    hitems = [(a, b, 5) for a in hk for b in hk if a != b]
    resH = common.pmap_fresh(history_task, hitems, ctx.jobs)
    nH = 0
    for it, r in zip(hitems, resH):
        nH += r['n']
        for tag, v in r['viols']:
            ctx.violation({'tag': 'history:' + tag, 'curve': v['curve'], 'fn': v['fn'], 'after': it[0][0]},
                          '{} in a process that served {} before: {}'.format(tag, it[0][0], v), v)
    n += nH
    resV = pmap(vector_task, UNIV[ctx.tier], ctx.jobs, chunksize=1)
    nv = 0
    for (cnt, viols) in resV:
        nv += cnt
        for tag, v in viols:
            ctx.violation({'tag': tag, 'curve': v['curve'], 'fn': 'evaluate_vector'}, '{}: {}'.format(tag, v), dict(v, fn='evaluate_vector'))
    from mc import meshmc
    sitems = [(c, h) for c, d in SWEEP_GRAPHS[ctx.tier].items() for h in meshmc.all_states(ctx, c, d, key='leaf')]
    nS = 0
    for it, r in zip(sitems, pmap(sweep_task, sitems, ctx.jobs)):
        nS += r['n']
        for tag, v in r['viols']:
            ctx.violation({'tag': tag, 'curve': v['curve'], 'fn': v['fn']}, '{} (all leaves of a locally refined mesh at one point, one operator): {}'.format(tag, v),
                          dict(v, part='sweep'))
    if not nS:
        raise common.HarnessError('vacuity guard C07: sweep clause empty')
    n += nS
    iitems = []
    for key in INTEG[ctx.tier]:
        g, U, els, *_ = get_universe(key)
        N = len(els)
        step = max(1, N * N // (ctx.jobs * 3))
        iitems += [(key, lo, min(N * N, lo + step)) for lo in range(0, N * N, step)]
    resI = pmap(integral_task, iitems, ctx.jobs, chunksize=1)
    ni = 0
    worstI = 0.0
    for r in resI:
        ni += r['n']
        worstI = max(worstI, r['worst'])
        for tag, v in r['viols']:
            ctx.violation({'tag': tag, 'curve': v['curve'], 'fn': 'integral'}, '{}: {}'.format(tag, v), dict(v, fn='integral'))
    need = ['closed', 'near', 'far', 'exact-closed', 'exact-far']
    missing = [c for c in need if c not in classes]
    if missing or not ni or not nv:
        raise common.HarnessError('vacuity guard C07: {} {} {}'.format(missing, ni, nv))
    cov = {'evaluations': n + nv + ni, 'distinct_nontrivial': n + ni,
           'rule': 'one case = (trial element, time, point, function) of the alphabets, or (test, trial) pair for the integral clause; distinct by construction',
           'universe_elements': sizes, 'class_count_and_worst_relative_error': {k: [v[0], float('%.3g' % v[1])] for k, v in sorted(classes.items())},
           'evaluate_vector_entries_bitwise': nv, 'sweep_order_mesh_states': len(sitems), 'sweep_order_evaluations': nS, 'cross_curve_histories_in_fresh_processes': len(hitems), 'history_evaluations': nH, 'integral_pairs': ni, 'integral_worst_fraction_of_allowed': worstI,
           'gauss_order_of_foreign_nodes': gorder,
           'samples': [{'trial': [[0.0, 1.0], [0.0, 0.5]], 't': 0.015625, 'x_hat': 0.505, 'class': 'far'},
                       {'trial': [[0.0, 1.0], [3.5, 4.0]], 't': 1.0, 'x_hat': 0.0, 'class': 'closed (through the seam)'}],
           'exhaustive': True}
    return ctx.finish('exploration', cov, ['pointwise oracle mc/oracle.py', 'continuous t and x_hat represented by the alphabets described in the module docstring'])


def replay(ctx, data):
    class E:
        pass
    if data.get('part') == 'sweep':
        h = tuple((tuple(r), ax) for r, ax in data['history'])
        r = sweep_task((data['curve'], h))
        for tag, v in r['viols']:
            print('  ', tag, v)
        return not r['viols']
    g = curve(data['curve'])
    orc = oracle.EntryOracle(g)
    if data.get('fn') in ('evaluate', 'evaluate_exact'):
        uv = data.get('univ') or [2, 3]
        key = (data['curve'], tuple(data['tgrid']), uv[0], uv[1]) if isinstance(uv[1], str) else (data['curve'], tuple(data['tgrid']), max(2, uv[0]), max(3, uv[1]))
        gg, U, els, orc, SL = get_universe(key)
        e = [x for x in els if x.time_interval == tuple(data['trial'][0]) and x.space_interval == tuple(data['trial'][1])][0]
        t, xh = data['t'], data['x_hat']
        x = g.eval(xh).reshape(2, 1)
        ref = oracle.pointwise(t, e.time_interval, e.space_interval, orc.piece(e), x, xhat=xh if e.space_interval[0] < xh < e.space_interval[1] else None)
        val = SL.evaluate(e, t, xh, x) if data['fn'] == 'evaluate' else SL.evaluate_exact(e, t, xh)
        err = abs(val - ref) / max(abs(ref), 1e-9)
        print(data['fn'], val, 'exact', ref, 'rel err', err, 'tol', data['tol'])
        return err <= data['tol']
    print('replay of', data.get('fn'), 'not specialised; rerun the check')
    return False
