"""C14 - Slobodeckij seminorm quadratures (src/norms.py) are exact on polynomials and invariant.

Space (finite, enumerated completely): orders N in {1,3,..,21} (H^1/2 and H^1/4; 23 for H^1/4 through
Slobodeckij(23, 21)) x intervals {1e-3, 1/8, 1, pi, 7.3, 1e3} x offsets {0, -2, 100} x polynomials
{x^i, x^i + x^j : i < j <= (N-1)/2}.  Clauses (key 'clause'):
  exact         value == closed form (mc/tab_slobo.py), |Q - E| <= tol * E, tol = 1e-12 + A
  exact-arith   the same real routine executed on mpmath numbers (50 digits; only the double tables round), flat 1e-12:
                  the sharp form of the twelve-digit clause where A is not negligible
  nonneg        every value >= 0
  constant      f = c  ->  |Q| <= 1e-12 c^2 (x sqrt(h) for H^1/4), c in {1, -3.5, 1e6}
  scaling       Q(lambda f) == lambda^2 Q(f), lambda in {-3, 1/2}, tol 1e-12 + 2A
  translation   Q(f(.-tau), a+tau, b+tau) == Q(f, a, b), tau in {1/2, -4, 1024, 0.1, pi}, tol 1e-12 + A + A_shifted
                  (bitwise agreement is counted, not demanded: a + h p rounds differently after a shift)
  curve-vs-flat seminorm_h_1_2 with gamma = src.parametrization.line(...) == flat variant, every placement
                  (5 directions incl. one oblique x 3 translations), tol 1e-12 + A + A_curve
  corner        seminorm_h_1_2_pw on every corner of UnitSquare and LShape x element lengths {L, L/2, L/8}^2 x monomials of
                  the embedded coordinates of degree <= 3 (thorough: {L, L/2, L/4, L/8, L/32}^2, degree <= 4) == Q11 + Q22 (closed forms) + 2 x graded reference of the cross term;
                  the property states no tolerance here and the cross term is not polynomial after the Duffy map (poles at
                  y = +- i h1/h2), so the demand is the a-priori Gauss-Legendre bound
                  |Q - R| <= (1e-12 + 100 rho^-(N+1)) R for N >= max(7, 2 deg + 1), rho = Bernstein parameter of the nearer pole
  construct / raised   the object cannot be built / a call raised
A = 128 u ((deg+1) kappa + cond_f) with u = 2^-53, kappa = max(|a|,|b|)/(b-a) (a point of [a,b] is only representable to
u max(|a|,|b|)), cond_f = max|f| / sqrt(E normalised) (cancellation in f(x) - f(y)): the part of the error no routine
working on doubles can avoid; it is < 1e-13 on every interval of the alphabet with offset 0 and length >= 1.
"""
import math

import numpy as np

from mc import common, tab_slobo

U = 2.0 ** -53
TOL = 1e-12
LENGTHS = [1e-3, 0.125, 1.0, math.pi, 7.3, 1e3]
OFFSETS = [0.0, -2.0, 100.0]
ORDERS = list(range(1, 22, 2))
LAMBDAS = [-3.0, 0.5]
SHIFTS = [0.5, -4.0, 1024.0, 0.1, math.pi]
CONSTS = [1.0, -3.5, 1e6]
DIRECTIONS = [(1.0, 0.0), (0.0, 1.0), (-1.0, 0.0), (0.0, -1.0), (0.6, -0.8)]
TRANSLATIONS = [(0.0, 0.0), (-2.0, 0.5), (100.0, -7.0)]
VACUOUS = 1e-6   # a double-precision tolerance above this decides nothing; counted separately


def intervals():
    return [(o, o + L) for L in LENGTHS for o in OFFSETS]


def polys(pmax):
    return [(i, ) for i in range(pmax + 1)] + [(i, j) for i in range(pmax + 1) for j in range(i + 1, pmax + 1)]


def make_f(P, shift=0.0, lam=1.0):
    def f(x):
        z = x - shift if shift else x
        v = z ** P[0]
        for i in P[1:]:
            v = v + z ** i
        return lam * v if lam != 1.0 else v
    return f


_exact_cache = {}


def exact(P, a, b):
    k = (P, a, b)
    if k not in _exact_cache:
        coefs = [0] * (max(P) + 1)
        for i in P:
            coefs[i] += 1
        e12, e14 = tab_slobo.exact_seminorms(coefs, a, b)
        m = max(abs(a), abs(b))
        maxf = sum(m ** i for i in P)
        _exact_cache[k] = (e12, e14, float(e12), float(e14), maxf)
    return _exact_cache[k]


def allowance(a, b, deg, maxf, e_norm):
    h = b - a
    kappa = max(abs(a), abs(b)) / h
    cond = maxf / math.sqrt(e_norm) if e_norm > 0 else float('inf')
    return 128 * U * ((deg + 1) * kappa + cond)


class Acc:
    def __init__(self):
        self.counts, self.ratio, self.fails, self.extra, self.sharp, self.samples = {}, {}, {}, {}, {}, {}

    def count(self, clause, n=1):
        self.counts[clause] = self.counts.get(clause, 0) + n

    def add(self, name, n=1):
        self.extra[name] = self.extra.get(name, 0) + n

    def judge(self, semi, N, clause, err, tol, what, replay):
        """err, tol relative numbers; records err/tol, registers a failure when err > tol (or NaN)."""
        self.count(clause)
        if clause not in ('nonneg', 'constant') and (semi, clause) not in self.samples and err > 0:
            self.samples[(semi, clause)] = {'seminorm': semi, 'N': N, 'clause': clause, 'rel_err': float(err), 'tolerance': float(tol),
                                            'case': replay}
        r = err / tol if tol > 0 else (0.0 if err == 0 else float('inf'))
        k = semi + ':' + clause
        if tol <= VACUOUS and r > self.ratio.get(k, 0.0):
            self.ratio[k] = float(r)
        if tol <= 1.2e-12:  # cases where the allowance is negligible: the bare twelve-digit demand
            self.sharp[clause] = self.sharp.get(clause, 0) + 1
            if err > self.ratio.get(k + ':largest_rel_err_where_tolerance<=1.2e-12', 0.0):
                self.ratio[k + ':largest_rel_err_where_tolerance<=1.2e-12'] = float(err)
        if not err <= tol:
            key = (semi, N, clause)
            cur = self.fails.get(key)
            n = 1 if cur is None else cur[3] + 1
            if cur is None or r > cur[0]:
                self.fails[key] = (float(r), what() if callable(what) else what, replay, n)
            else:
                self.fails[key] = cur[:3] + (n, )

    def fail(self, semi, N, clause, what, replay):
        key = (semi, N, clause)
        cur = self.fails.get(key)
        self.fails[key] = (float('inf'), what, replay, 1 if cur is None else cur[3] + 1)

    def result(self):
        return {'counts': self.counts, 'ratio': self.ratio, 'fails': self.fails, 'extra': self.extra, 'sharp': self.sharp, 'samples': list(self.samples.values())}


def build(N):
    from src.norms import Slobodeckij
    if N == 23:
        return Slobodeckij(23, 21)
    return Slobodeckij(N)


SEMIS = {'h_1_2': 0, 'h_1_4': 1}


def call(S, semi, f, a, b):
    return S.seminorm_h_1_2(f, a, b) if semi == 'h_1_2' else S.seminorm_h_1_4(f, a, b)


# ---- flat clauses ------------------------------------------------------------------------------------------------------
def flat_task(task):
    N, ivals, do_mpf = task[:3]
    only = task[3] if len(task) > 3 else None   # replay: {'P': (...)} or {'const': c}
    acc = Acc()
    try:
        S = build(N)
    except BaseException as ex:  # noqa
        acc.fail('h_1_4' if N == 23 else 'both', N, 'construct',
                 'Slobodeckij({}) cannot be constructed: {!r}'.format('23, 21' if N == 23 else N, ex), {'kind': 'construct', 'N': N})
        return acc.result()
    semis = ['h_1_4'] if N == 23 else ['h_1_2', 'h_1_4']
    pmax = (N - 1) // 2
    import mpmath as mp
    for (a, b) in ivals:
        h = b - a
        for semi in semis:
            hs = math.sqrt(h) if semi == 'h_1_4' else 1.0
            for c in CONSTS:
                if only is not None and only.get('const') != c:
                    continue
                try:
                    v = float(call(S, semi, lambda x, c=c: c + 0 * x, a, b))
                except Exception as ex:  # noqa
                    acc.fail(semi, N, 'raised', 'constant {} on [{},{}] raised {!r}'.format(c, a, b, ex),
                             {'kind': 'flat', 'N': N, 'semi': semi, 'a': a, 'b': b, 'const': c})
                    continue
                acc.judge(semi, N, 'constant', abs(v) / (c * c * hs), TOL,
                          'seminorm_{} of the constant {} on [{},{}] = {!r}'.format(semi, c, a, b, v),
                          {'kind': 'flat', 'N': N, 'semi': semi, 'a': a, 'b': b, 'const': c})
                acc.judge(semi, N, 'nonneg', 0.0 if v >= 0 else 1.0, 0.5, 'negative value {!r}'.format(v),
                          {'kind': 'flat', 'N': N, 'semi': semi, 'a': a, 'b': b, 'const': c})
        for P in polys(pmax):
            if only is not None and only.get('P') != P:
                continue
            e12m, e14m, e12, e14, maxf = exact(P, a, b)
            deg = max(P)
            f = make_f(P)
            for semi in semis:
                E, Em = (e12, e12m) if semi == 'h_1_2' else (e14, e14m)
                hs = math.sqrt(h) if semi == 'h_1_4' else 1.0
                rp = {'kind': 'flat', 'N': N, 'semi': semi, 'a': a, 'b': b, 'P': list(P)}
                try:
                    v = float(call(S, semi, f, a, b))
                except Exception as ex:  # noqa
                    acc.fail(semi, N, 'raised', 'polynomial {} on [{},{}] raised {!r}'.format(P, a, b, ex), rp)
                    continue
                acc.judge(semi, N, 'nonneg', 0.0 if v >= 0 else 1.0, 0.5, 'negative value {!r} for {} on [{},{}]'.format(v, P, a, b), rp)
                if E == 0.0:
                    # constant polynomial x^0: exact value 0, natural scale max|f|^2
                    acc.judge(semi, N, 'exact', abs(v) / (maxf * maxf * hs), TOL,
                              'seminorm_{} N={} of x^0 on [{},{}] = {!r}, exact 0'.format(semi, N, a, b, v), rp)
                    continue
                A = allowance(a, b, deg, maxf, E / hs)
                tol = TOL + A
                if tol > VACUOUS:
                    acc.add('double_clause_undecidable_cases')
                err = abs(v - E) / E
                acc.judge(semi, N, 'exact', err, tol,
                          lambda: 'seminorm_{} N={} of {} on [{!r},{!r}] = {!r}, closed form {!r}, rel.err {:.3e} > tol {:.3e}'.format(
                              semi, N, ' + '.join('x^%d' % i for i in P), a, b, v, E, err, tol), rp)
                # exact arithmetic execution of the same routine
                if do_mpf:
                    try:
                        mp.mp.dps = 50
                        vm = call(S, semi, f, mp.mpf(a), mp.mpf(b))
                        em = float(abs(vm - Em) / Em)
                        acc.judge(semi, N, 'exact-arith', em, TOL,
                                  'seminorm_{} N={} of {} on [{!r},{!r}] executed in 50-digit arithmetic = {}, closed form {}, '
                                  'rel.err {:.3e}'.format(semi, N, P, a, b, mp.nstr(vm, 20), mp.nstr(Em, 20), em), dict(rp, mpf=True))
                    except Exception as ex:  # noqa
                        acc.add('exact_arith_path_unavailable')
                        acc.extra['exact_arith_exception'] = repr(ex)[:200]
                # scaling
                for lam in LAMBDAS:
                    try:
                        vl = float(call(S, semi, make_f(P, lam=lam), a, b))
                    except Exception as ex:  # noqa
                        acc.fail(semi, N, 'raised', 'scaled polynomial raised {!r}'.format(ex), dict(rp, lam=lam))
                        continue
                    el = abs(vl - lam * lam * v) / (lam * lam * E)
                    if vl == lam * lam * v:
                        acc.add('scaling_bitwise')
                    acc.judge(semi, N, 'scaling', el, TOL + 2 * A,
                              lambda: 'seminorm_{} N={} [{!r},{!r}] {}: Q({} f) = {!r} but {}^2 Q(f) = {!r} (rel {:.3e})'.format(
                                  semi, N, a, b, P, lam, vl, lam, lam * lam * v, el), dict(rp, lam=lam))
                    acc.judge(semi, N, 'nonneg', 0.0 if vl >= 0 else 1.0, 0.5, 'negative value {!r}'.format(vl), dict(rp, lam=lam))
                # translation
                for tau in SHIFTS:
                    a2, b2 = a + tau, b + tau
                    if not (b2 - a2) > 0:
                        continue
                    try:
                        vt = float(call(S, semi, make_f(P, shift=tau), a2, b2))
                    except Exception as ex:  # noqa
                        acc.fail(semi, N, 'raised', 'shifted polynomial raised {!r}'.format(ex), dict(rp, tau=tau))
                        continue
                    A2 = allowance(a2, b2, deg, maxf, E / hs)
                    # the shifted interval has length fl(b+tau) - fl(a+tau): its relative change enters the value
                    dh = abs((b2 - a2) - h) / h
                    et = abs(vt - v) / E
                    if vt == v:
                        acc.add('translation_bitwise')
                    if (b - a) in (0.125, 1.0) and tau in (0.5, -4.0, 1024.0):
                        acc.add('translation_dyadic_cases')
                        acc.add('translation_dyadic_bitwise', 1 if vt == v else 0)
                    acc.judge(semi, N, 'translation', et, TOL + A + A2 + 4 * (deg + 1) * dh,
                              lambda: 'seminorm_{} N={} {}: on [{!r},{!r}] = {!r}, shifted by {} = {!r} (rel {:.3e})'.format(
                                  semi, N, P, a, b, v, tau, vt, et), dict(rp, tau=tau))
                    acc.judge(semi, N, 'nonneg', 0.0 if vt >= 0 else 1.0, 0.5, 'negative value {!r}'.format(vt), dict(rp, tau=tau))
    return acc.result()


# ---- curve-aware variant on straight segments ------------------------------------------------------------------------------
def curve_task(task):
    N, ivals = task[:2]
    only = task[2] if len(task) > 2 else None
    from src.parametrization import line
    acc = Acc()
    try:
        S = build(N)
    except BaseException:  # noqa  (reported by flat_task)
        return acc.result()
    pmax = (N - 1) // 2
    for (a, b) in ivals:
        h = b - a
        for P in polys(pmax):
            if only is not None and only != P:
                continue
            e12m, e14m, E, _, maxf = exact(P, a, b)
            deg = max(P)
            phi = make_f(P)
            try:
                vf = float(S.seminorm_h_1_2(phi, a, b))
            except Exception:  # noqa
                continue
            A = allowance(a, b, deg, maxf, E) if E > 0 else 0.0
            for d in DIRECTIONS:
                for p0 in TRANSLATIONS:
                    rp = {'kind': 'curve', 'N': N, 'a': a, 'b': b, 'P': list(P), 'dir': list(d), 'origin': list(p0)}
                    try:
                        start = np.array(p0)
                        end = np.array([p0[0] + h * d[0], p0[1] + h * d[1]])
                        gamma, length = line(start, end, x_start=a)
                        vc = float(S.seminorm_h_1_2(lambda xh, g: phi(xh), a, b, gamma))
                    except Exception as ex:  # noqa
                        acc.fail('h_1_2_curve', N, 'raised', 'placement {} {} of [{},{}] raised {!r}'.format(d, p0, a, b, ex), rp)
                        continue
                    acc.judge('h_1_2_curve', N, 'nonneg', 0.0 if vc >= 0 else 1.0, 0.5, 'negative value {!r}'.format(vc), rp)
                    if E == 0.0:
                        acc.judge('h_1_2_curve', N, 'curve-vs-flat', abs(vc - vf) / (maxf * maxf), TOL,
                                  'constant data: curve {!r} flat {!r}'.format(vc, vf), rp)
                        continue
                    kc = (max(abs(p0[0]), abs(p0[1])) + h) / h
                    Ac = 128 * U * (deg + 1) * kc
                    ec = abs(vc - vf) / E
                    if vc == vf:
                        acc.add('curve_bitwise')
                    acc.judge('h_1_2_curve', N, 'curve-vs-flat', ec, TOL + A + Ac,
                              lambda: 'N={} {} on [{!r},{!r}] placed at {} direction {}: curve-aware {!r}, flat {!r} (rel {:.3e})'.format(
                                  N, P, a, b, p0, d, vc, vf, ec), rp)
    return acc.result()


# ---- two pieces meeting in a corner ----------------------------------------------------------------------------------------
CORNER_CFG = {'quick': ((1.0, 0.5, 0.125), 3), 'thorough': ((1.0, 0.5, 0.25, 0.125, 1.0 / 32), 4)}


def emb(dmax):
    return [(p, q) for p in range(dmax + 1) for q in range(dmax + 1) if p + q <= dmax]


def corners():
    """(curve name, corner index, gamma_1, b_1, L_1, gamma_2, a_2, L_2, corner point, d1, d2, interior angle kind)"""
    import src.parametrization as par
    out = []
    for cls in (par.UnitSquare, par.LShape):
        G = cls()
        n = len(G.pw_gamma)
        for ci in range(n):
            i1 = (ci - 1) % n
            g1, g2 = G.pw_gamma[i1], G.pw_gamma[ci]
            b1 = G.pw_start[i1 + 1]
            a2 = G.pw_start[ci]
            L1 = G.pw_start[i1 + 1] - G.pw_start[i1]
            L2 = G.pw_start[ci + 1] - G.pw_start[ci]
            c = g2(a2).flatten()
            d1 = ((g1(b1) - g1(b1 - L1)) / L1).flatten()
            d2 = ((g2(a2 + L2) - g2(a2)) / L2).flatten()
            turn = d1[0] * d2[1] - d1[1] * d2[0]
            out.append((cls.__name__, ci, g1, float(b1), float(L1), g2, float(a2), float(L2), (float(c[0]), float(c[1])),
                        (float(d1[0]), float(d1[1])), (float(d2[0]), float(d2[1])), turn))
    return out


def arclength_coefs(p, q, c, d, sign):
    """coefficients (in the arclength s measured from the corner) of x^p y^q along c + sign*s*d."""
    px = np.polynomial.polynomial.polypow([c[0], sign * d[0]], p)
    py = np.polynomial.polynomial.polypow([c[1], sign * d[1]], q)
    return [float(v) for v in np.polynomial.polynomial.polymul(px, py)]


def corner_task(task):
    ci, tier = task
    factors, dmax = CORNER_CFG[tier]
    EMB = emb(dmax)
    acc = Acc()
    allc = corners()
    name, idx, g1, b1, L1, g2, a2, L2, c, d1, d2, turn = allc[ci]
    # orientation bookkeeping for the evidence: both curves are traversed with the domain on one side
    sgn = {}
    for t in allc:
        if t[0] == name:
            sgn[t[1]] = t[11]
    majority = 1 if sum(1 for v in sgn.values() if v > 0) >= sum(1 for v in sgn.values() if v < 0) else -1
    kind = 'convex' if (turn > 0) == (majority > 0) else 're-entrant'
    acc.extra['corner_kind:{}:{}'.format(name, idx)] = kind
    fns = [(lambda x, y, p=p, q=q: x ** p * y ** q) for p, q in EMB]
    built = {}
    for N in ORDERS:
        try:
            built[N] = build(N)
        except BaseException:  # noqa
            pass
    for f1 in factors:
        for f2 in factors:
            h1, h2 = L1 * f1, L2 * f2
            cross = tab_slobo.cross_reference(fns, c, d1, d2, h1, h2)
            rho = tab_slobo.bernstein_rho(min(h1 / h2, h2 / h1))
            for (p, q), fn, r12 in zip(EMB, fns, cross):
                # own-piece terms from the flat closed form (data is a polynomial of the arclength)
                q11 = float(tab_slobo.exact_seminorms(arclength_coefs(p, q, c, d1, -1.0), 0.0, h1)[0])
                q22 = float(tab_slobo.exact_seminorms(arclength_coefs(p, q, c, d2, +1.0), 0.0, h2)[0])
                R = q11 + q22 + 2 * r12
                for N, S in built.items():
                    rp = {'kind': 'corner', 'corner': ci, 'tier': tier, 'N': N, 'f1': f1, 'f2': f2, 'pq': [p, q]}
                    try:
                        v = float(S.seminorm_h_1_2_pw(lambda xh, g, fn=fn: fn(*g(xh)), b1 - h1, b1, g1, a2, a2 + h2, g2))
                    except Exception as ex:  # noqa
                        acc.fail('h_1_2_pw', N, 'raised', '{} corner {} raised {!r}'.format(name, idx, ex), rp)
                        continue
                    acc.judge('h_1_2_pw', N, 'nonneg', 0.0 if v >= 0 else 1.0, 0.5, 'negative value {!r}'.format(v), rp)
                    if p + q == 0:
                        acc.judge('h_1_2_pw', N, 'constant', abs(v), TOL, 'constant data gives {!r}'.format(v), rp)
                        continue
                    if N < max(7, 2 * (p + q) + 1):   # own-piece terms are only advertised exact for degree <= (N-1)/2
                        acc.add('corner_low_order_evaluated_only')
                        continue
                    tol = TOL + 100 * rho ** -(N + 1)
                    if R == 0.0:
                        # the data vanishes identically on both pieces (e.g. x*y on the two axes)
                        acc.judge('h_1_2_pw', N, 'corner', abs(v), TOL, 'data vanishing on both pieces gives {!r}'.format(v), rp)
                        acc.add('corner_cases_with_vanishing_data')
                        continue
                    err = abs(v - R) / R
                    acc.judge('h_1_2_pw', N, 'corner', err, tol,
                              lambda: '{} corner {} at {} ({}), elements of length {} and {}, data x^{} y^{}, N={}: seminorm_h_1_2_pw = {!r}, '
                              'reference {!r} (own pieces {!r} + {!r}, cross 2 x {!r}); rel.err {:.3e} > {:.3e}'.format(
                                  name, idx, c, kind, h1, h2, p, q, N, v, R, q11, q22, r12, err, tol), rp)
                    if f1 == f2 and L1 == L2 and N == 21:
                        k = 'corner_equal_lengths_N21_max_rel_err'
                        acc.extra[k] = max(acc.extra.get(k, 0.0), err)
    return acc.result()


def _max_extra(dst, src):
    for k, v in src.items():
        if isinstance(v, str):
            dst[k] = v
        elif k.endswith('max_rel_err'):
            dst[k] = max(dst.get(k, 0.0), v)
        else:
            dst[k] = dst.get(k, 0) + v


# ---- driver ------------------------------------------------------------------------------------------------------------------
def run(ctx):
    st = tab_slobo.selftest()
    sg = tab_slobo.selftest_graded()
    ivals = intervals()
    orders = ORDERS + [23]
    tasks = []
    for N in sorted(orders, reverse=True):
        for iv in ivals:
            tasks.append(('flat', (N, [iv], True)))
    for N in sorted(ORDERS, reverse=True):
        for k in range(0, len(ivals), 6):
            tasks.append(('curve', (N, ivals[k:k + 6])))
    n_corners = len(corners())
    for ci in range(n_corners):
        tasks.append(('corner', (ci, ctx.tier)))
    results = common.pmap(_dispatch, tasks, ctx.jobs, chunksize=1)
    counts, ratio, fails, extra, sharp = {}, {}, {}, {}, {}
    run_samples = {}
    per_kind = {'flat': 0, 'curve': 0, 'corner': 0}
    for (kind, _), r in zip(tasks, results):
        per_kind[kind] += sum(r['counts'].values())
        for k, v in r['counts'].items():
            counts[k] = counts.get(k, 0) + v
        for k, v in r['ratio'].items():
            ratio[k] = max(ratio.get(k, 0.0), v)
        for k, v in r['sharp'].items():
            sharp[k] = sharp.get(k, 0) + v
        for sm in r['samples']:
            run_samples.setdefault((sm['seminorm'], sm['clause']), sm)
        _max_extra(extra, r['extra'])
        for k, v in r['fails'].items():
            cur = fails.get(k)
            if cur is None or v[0] > cur[0]:
                fails[k] = (v[0], v[1], v[2], v[3] + (cur[3] if cur else 0))
            else:
                fails[k] = cur[:3] + (cur[3] + v[3], )
    # two-order constructor Slobodeckij(N_time, N_space) (what the estimator builds from e.g. --estimator-quadrature 5359): the H^1/4
    # routine must be the rule of order N_time, the H^1/2 routines the rule of order N_space - differential against the single-order
    # objects, whose exactness the clauses above decide
    from src.norms import Slobodeckij as _S
    n_two = 0
    for n14, n12 in ((1, 7), (3, 11), (5, 9), (9, 5), (11, 3), (7, 1), (21, 15), (15, 21), (23, 21), (23, 5)):
        try:
            S2, S14, S12 = _S(n14, n12), build(n14), _S(n12)
        except Exception as ex:  # noqa: BLE001
            ctx.violation({'seminorm': 'both', 'N': [n14, n12], 'clause': 'two-orders'}, 'Slobodeckij({}, {}) raised {!r}'.format(n14, n12, ex),
                          {'kind': 'two-orders', 'orders': [n14, n12]})
            continue
        for a_, b_ in ((0.25, 1.75), (-3.0, -2.5), (10.0, 10.0 + 2.0**-6)):
            for deg in (1, 2, (max(n14, n12) - 1) // 2, (max(n14, n12) + 1) // 2 + 1):
                f_ = make_f(tuple(range(1, max(1, deg) + 1)))
                for semi, ref_obj in (('h_1_4', S14), ('h_1_2', S12)):
                    n_two += 1
                    got, want = float(call(S2, semi, f_, a_, b_)), float(call(ref_obj, semi, f_, a_, b_))
                    if not abs(got - want) <= 1e-13 * max(abs(want), 1e-300):
                        ctx.violation({'seminorm': semi, 'N': [n14, n12], 'clause': 'two-orders'},
                                      'Slobodeckij({}, {}).seminorm_{} on [{}, {}] of a polynomial of degree {} = {!r}, but the rule of order {} gives {!r}'.format(
                                          n14, n12, semi, a_, b_, deg, got, n14 if semi == 'h_1_4' else n12, want),
                                      {'kind': 'two-orders', 'orders': [n14, n12]})
    counts['two-orders'] = n_two
    for kind, n in per_kind.items():
        if n == 0:
            raise common.HarnessError('family {} yields zero cases'.format(kind))
    need = ['exact', 'nonneg', 'constant', 'scaling', 'translation', 'curve-vs-flat', 'corner']
    for c in need:
        if not counts.get(c):
            raise common.HarnessError('clause {} yields zero cases'.format(c))
    if extra.get('exact_arith_path_unavailable'):
        ctx.note('exact-arithmetic execution unavailable for {} cases: {}'.format(extra['exact_arith_path_unavailable'],
                                                                               extra.get('exact_arith_exception')))
    for (semi, N, clause), (r, what, rp, n) in sorted(fails.items(), key=lambda kv: (str(kv[0][0]), kv[0][1], kv[0][2])):
        ctx.violation({'seminorm': semi, 'N': N, 'clause': clause}, '[{} cases of this class fail] {}'.format(n, what), rp)
    kinds = {k.split(':', 1)[1]: v for k, v in extra.items() if k.startswith('corner_kind:')}
    if 're-entrant' not in kinds.values() or 'convex' not in kinds.values():
        raise common.HarnessError('corner enumeration lacks a convex or a re-entrant corner: {}'.format(kinds))
    samples = [run_samples[k] for k in sorted(run_samples)][:12]
    if not samples:
        raise common.HarnessError('no sample case recorded')
    cov = {
        'evaluations': int(sum(counts.values())),
        'distinct_nontrivial': int(counts.get('exact', 0) + counts.get('curve-vs-flat', 0) + counts.get('corner', 0)
                                   + counts.get('scaling', 0) + counts.get('translation', 0)),
        'rule': 'orders {} (23: H^1/4 only) x {} intervals (lengths {} x offsets {}) x polynomials x^i, x^i+x^j (i<j<=(N-1)/2), each with '
                '2 scalings and {} shifts; curve: x {} directions x {} translations; corner: {} corners x {} element-length pairs x '
                '{} embedded monomials x orders. distinct_nontrivial = comparisons against a reference or between two executions '
                '(exact, scaling, translation, curve-vs-flat, corner); sign and constant checks are counted in evaluations only; '
                'all tuples are distinct by construction of the nested enumeration'.format(
                    orders, len(ivals), LENGTHS, OFFSETS, len(SHIFTS), len(DIRECTIONS), len(TRANSLATIONS), n_corners, len(CORNER_CFG[ctx.tier][0]) ** 2,
                    len(emb(CORNER_CFG[ctx.tier][1]))),
        'samples': samples, 'exhaustive': True, 'comparisons_per_clause': counts,
        'comparisons_decided_at_bare_1e-12 (allowance < 2e-13)': sharp, 'cases_per_family': per_kind,
        'largest_error_over_tolerance': ratio, 'corner_kinds': kinds,
        'observations': {k: v for k, v in extra.items() if not k.startswith('corner_kind:')},
        'selftest_closed_forms_rel_err': list(st), 'selftest_graded_reference_err': list(sg),
    }
    return ctx.finish('exploration', cov, [
        'routines are quadratic forms in f: agreement on x^i and x^i + x^j is agreement on the polynomial space',
        'tolerance 1e-12 + A, A = 128 u ((deg+1) max(|a|,|b|)/(b-a) + max|f|/sqrt(E)): unavoidable representation error of data given in doubles; '
        'the exact-arith clause (same code, mpmath numbers) carries the flat 1e-12 demand on every interval',
        'corner clause: a-priori Gauss-Legendre envelope (1e-12 + 100 rho^-(N+1)), N >= 7, because the property states no tolerance',
        'translation invariance is not demanded bitwise (counted only)',
        'mpmath and numpy.polynomial.legendre.leggauss are trusted; closed forms and graded reference are self-tested on every run'])


def _dispatch(t):
    kind, arg = t
    return {'flat': flat_task, 'curve': curve_task, 'corner': corner_task}[kind](arg)


def replay(ctx, data):
    if data.get('kind') == 'two-orders':
        from src.norms import Slobodeckij as _S
        n14, n12 = data['orders']
        f_ = make_f((1, 2, 3))
        S2 = _S(n14, n12)
        ok = True
        for semi, ref_obj in (('h_1_4', build(n14)), ('h_1_2', _S(n12))):
            g_, w_ = float(call(S2, semi, f_, 0.25, 1.75)), float(call(ref_obj, semi, f_, 0.25, 1.75))
            print(semi, g_, w_)
            ok = ok and abs(g_ - w_) <= 1e-13 * abs(w_)
        return ok
    kind = data['kind']
    if kind == 'construct':
        try:
            build(data['N'])
            print('constructed')
            return True
        except BaseException as ex:  # noqa
            print('Slobodeckij({}) raised {!r}'.format(data['N'], ex))
            return False
    if kind == 'flat':
        only = {'P': tuple(data['P'])} if 'P' in data else {'const': data.get('const')}
        r = flat_task((data['N'], [(data['a'], data['b'])], True, only))
    elif kind == 'curve':
        r = curve_task((data['N'], [(data['a'], data['b'])], tuple(data['P'])))
    else:
        r = corner_task((data['corner'], data.get('tier', 'quick')))
    bad = {k: v for k, v in r['fails'].items() if k[1] == data['N']}
    for k, v in sorted(bad.items(), key=lambda kv: str(kv[0])):
        print(k, '-', v[3], 'cases; worst:', v[1])
    print('largest error/tolerance ratios:', {k: float('%.3g' % v) for k, v in r['ratio'].items()})
    return not bad
