"""C15 - derived quadrature schemes preserve measure and polynomial exactness (complete enumeration).

Space: every tabulated rule of src/quadrature_rules.py obtained through its constructor in src/quadrature.py, and
Gauss-Legendre orders 1,3,..,23  x  derived schemes  x  mirror words  x  box alphabet  x  ALL monomials of total
degree up to the stated exactness.  Clauses (key 'clause'):
  monomial       integrate(monomial, box) == exact integral, |Q - I| <= 1e-12 * int_box |monomial|
                   1-D map: degree <= D (for the three weighted Gauss families: against the mapped weight, D = 2N-1)
                   ProductScheme2D/3D: total degree <= D;  DuffyScheme2D: <= D-1;  DuffySchemeIdentical3D/Touch3D: <= D-2
                   symmetric Duffy variants: symmetrised monomials on boxes that are square in (x, y)
  weight-sum     sum(weights) == 1 (== int_0^1 w for the weighted families) whenever the stated degree is >= 0
  mirror-points  mirror_c() changes exactly coordinate c into fl(1 - p) (<= 2^-53), all other coordinates and the
                   weights bitwise
  involution     mirror_c().mirror_c(): weights and the other coordinates bitwise, coordinate c back to p within
                   2^-53 (1 - fl(1 - p) cannot be bitwise p in binary floating point: the unavoidable rounding)
  sym-vs-nonsym  symmetric and non-symmetric Duffy agree on symmetric integrands (symmetrised monomials, 1e-12)
  log-convergence  log|x-y|, log(x+y) (DuffyScheme2D, both variants), log((x-y)^2+z^2) (Identical3D, both),
                   log((x+y)^2+z^2) (Touch3D) with base log_quadrature_scheme(n, n), n = 2..12 (the order list of the repo's own tests; below 2 the stated degree of the 3-D schemes is negative): the error never
                   increases from one order to the next unless it is already below 1e-12 relative, and ends below it
  raised         a constructor / mirror / integrate call raised on a documented-valid input
Mixed products ProductScheme2D(base, GL3) and (GL3, base) are included (total degree <= min(D, 3)).
"""
import itertools
import math
from fractions import Fraction

import numpy as np

from mc import common, tab_rules

TOL = 1e-12
EPS53 = 2.0 ** -53
CHUNK = 32

# every alphabet contains translates with bitwise identical side lengths directly after their originals (same scheme object,
# same sizes, other origin: anything a scheme remembers about 'the box' must depend on the origin too)
I1D = [(0.0, 1.0), (5.0, 6.0), (2.0, 5.0), (-7.0, -4.0), (-1.0, 3.0), (10.0, 10.5), (0.0, 1e-4), (0.0, 1e3), (-2.0, -2.0 + 1e-4), (100.0, 1100.0),
       (100.0, 100.0 + 1e-4), (-1e3, -1e3 + 5e-3), (50.0, 50.0 + 1e-4)]  # short and far from the origin (relative closeness of the end points is not emptiness)
BOX2 = [(0.0, 1.0, 0.0, 1.0), (3.0, 4.0, -2.0, -1.0), (2.0, 5.0, -1.0, 3.0), (-4.0, -1.0, 6.0, 10.0), (-1.0, 3.0, 10.0, 10.5), (0.0, 1e-4, 0.0, 1e-4), (0.0, 1e3, 0.0, 1e3),
        (-2.0, -2.0 + 1e-4, 100.0, 1100.0), (100.0, 100.0 + 1e-4, -1e3, -1e3 + 5e-3)]
SQ2 = [(a, b, a, b) for a, b in I1D]
BOX3 = [(0.0, 1.0, 0.0, 1.0, 0.0, 1.0), (1.0, 2.0, -3.0, -2.0, 4.0, 5.0), (2.0, 5.0, -1.0, 3.0, 10.0, 10.5), (3.0, 6.0, 0.0, 4.0, 20.0, 20.5), (0.0, 1e-4, 0.0, 1e-4, 0.0, 1e-4),
        (0.0, 1e3, 0.0, 1e3, 0.0, 1e3), (-2.0, -2.0 + 1e-4, 100.0, 1100.0, 0.0, 1e-4)]
SQ3 = [(0.0, 1.0, 0.0, 1.0, 0.0, 1.0), (2.0, 3.0, 2.0, 3.0, -6.0, -5.0), (2.0, 5.0, 2.0, 5.0, 10.0, 10.5), (-9.0, -6.0, -9.0, -6.0, 1.0, 1.5), (-1.0, 3.0, -1.0, 3.0, 0.0, 1e3),
       (0.0, 1e-4, 0.0, 1e-4, -1.0, 3.0), (0.0, 1e3, 0.0, 1e3, 0.0, 1e-4), (-2.0, -2.0 + 1e-4, -2.0, -2.0 + 1e-4, 2.0, 5.0)]
WORDS2 = ['', 'x', 'y', 'xx', 'xy', 'yx', 'yy']
WORDS3 = [''] + list('xyz') + [a + b for a in 'xyz' for b in 'xyz'] + ['xyz']
# thorough: every word of length <= 3, and three more boxes / intervals (small side at a large offset, negative large side)
WORDS2_T = [''.join(w) for n in range(4) for w in itertools.product('xy', repeat=n)]
WORDS3_T = [''.join(w) for n in range(4) for w in itertools.product('xyz', repeat=n)]
I1D_T = I1D + [(-1e3, 0.0), (1e3, 1e3 + 5e-3), (-50.0, -50.0 + 1e-4)]
BOX2_T = BOX2 + [(100.0, 100.0 + 1e-4, -1e3, 0.0)]
SQ2_T = [(a, b, a, b) for a, b in I1D_T]
BOX3_T = BOX3 + [(100.0, 100.0 + 1e-4, -1e3, 0.0, 0.5, 1.5)]
SQ3_T = SQ3 + [(-1e3, 0.0, -1e3, 0.0, 100.0, 100.0 + 1e-4), (100.0, 100.0 + 1e-4, 100.0, 100.0 + 1e-4, -1e3, 0.0)]
CFG = {'quick': {'w2': WORDS2, 'w3': WORDS3, 'i1': I1D, 'b2': BOX2, 'sq2': SQ2, 'b3': BOX3, 'sq3': SQ3},
       'thorough': {'w2': WORDS2_T, 'w3': WORDS3_T, 'i1': I1D_T, 'b2': BOX2_T, 'sq2': SQ2_T, 'b3': BOX3_T, 'sq3': SQ3_T}}


# ---- exact references ----------------------------------------------------------------------------------------------
_mom_cache = {}


def moment1(a, b, i):
    """(int_a^b x^i dx, int_a^b |x|^i dx) as floats, from exact rational arithmetic on the doubles a, b."""
    k = (a, b, i)
    if k not in _mom_cache:
        A, B = Fraction(a), Fraction(b)
        m = (B ** (i + 1) - A ** (i + 1)) / (i + 1)
        if A < 0 < B:
            s = (B ** (i + 1) + (-A) ** (i + 1)) / (i + 1)
        else:
            s = abs(m)
        _mom_cache[k] = (float(m), float(s))
    return _mom_cache[k]


def mom_tables(box, dmax):
    out = []
    for c in range(len(box) // 2):
        a, b = box[2 * c], box[2 * c + 1]
        ms = [moment1(a, b, i) for i in range(dmax + 1)]
        out.append((np.array([m[0] for m in ms]), np.array([m[1] for m in ms])))
    return out


def monos(ndim, deg):
    """All exponent tuples of total degree <= deg."""
    if deg < 0:
        return np.zeros((0, ndim), dtype=int)
    return np.array([t for t in itertools.product(range(deg + 1), repeat=ndim) if sum(t) <= deg], dtype=int)


def powers(x, dmax):
    t = np.empty((dmax + 1, ) + x.shape)
    t[0] = 1.0
    for i in range(1, dmax + 1):
        t[i] = t[i - 1] * x
    return t


def weighted_exact(rule, a, b, k, mirrored):
    """(b-a) int_0^1 w(s) (a + (b-a) s)^k ds  [mirrored: w(1-s)], and the sum of absolute terms as scale."""
    A, B = Fraction(a), Fraction(b)
    h = B - A
    tot, sc = Fraction(0), Fraction(0)
    for m in range(k + 1):
        mu = tab_rules.moment('w', m, rule)
        t = math.comb(k, m) * ((B ** (k - m)) * ((-h) ** m) if mirrored else (A ** (k - m)) * (h ** m)) * mu
        tot += t
        sc += abs(t)
    return float(h * tot), float(h * sc)


# ---- the space -----------------------------------------------------------------------------------------------------
def base_specs():
    """(name, constructor, args, D, weighted rule or None) for every table key + Gauss-Legendre."""
    entries, order, dead = tab_rules.parse_tables()
    ctor_of = {v: k for k, v in tab_rules.CONSTRUCTORS.items()}
    specs = []
    for fn, key in order:
        ctor = ctor_of[fn]
        if fn in tab_rules.PAIR_FAMILIES:
            specs.append(('{}{}'.format(ctor, key), ctor, tuple(key), key[0], None, fn))
        else:
            npoly = max(2 * key - 1, 0)
            specs.append(('{}({})'.format(ctor, npoly), ctor, (npoly, ), 2 * key - 1, fn, fn))
    for n in range(1, 24, 2):
        specs.append(('gauss_quadrature_scheme({})'.format(n), 'gauss_quadrature_scheme', (n, ), n, None, 'gauss_legendre'))
    return specs


def build_base(spec):
    import src.quadrature as q
    return getattr(q, spec[1])(*spec[2])


def apply_word(s, word):
    for c in word:
        s = getattr(s, 'mirror_' + c)() if hasattr(s, 'mirror_' + c) else s.mirror()
    return s


class Acc:
    """Per-task accumulator."""

    def __init__(self, base):
        self.base = base
        self.counts = {}
        self.maxerr = {}
        self.fails = {}
        self.configs = 0
        self.nontrivial = 0
        self.samples = []

    def count(self, clause, n=1):
        self.counts[clause] = self.counts.get(clause, 0) + n

    def err(self, clause, e):
        if e > self.maxerr.get(clause, 0.0):
            self.maxerr[clause] = float(e)

    def fail(self, scheme, variant, word, clause, relerr, what, replay):
        k = (scheme, variant, word, clause)
        cur = self.fails.get(k)
        if cur is None or relerr > cur[0]:
            n = 1 if cur is None else cur[3] + 1
            self.fails[k] = (float(relerr), what, replay, n)
        else:
            self.fails[k] = (cur[0], cur[1], cur[2], cur[3] + 1)

    def result(self):
        return {'base': self.base, 'counts': self.counts, 'maxerr': self.maxerr, 'fails': self.fails,
                'configs': self.configs, 'nontrivial': self.nontrivial, 'samples': self.samples}


def check_monomials(acc, spec, scheme, sname, variant, word, box, deg, sym=False):
    """All monomials of total degree <= deg through scheme.integrate on box."""
    ndim = len(box) // 2
    idx = monos(ndim, deg)
    if sym:
        idx = idx[idx[:, 0] <= idx[:, 1]]
    acc.configs += 1
    if len(idx) == 0:
        return None
    if deg >= 1:
        acc.nontrivial += 1
    tabs = mom_tables(box, deg)
    E = np.ones(len(idx))
    S = np.ones(len(idx))
    for c in range(ndim):
        if sym and c < 2:
            continue
        E = E * tabs[c][0][idx[:, c]]
        S = S * tabs[c][1][idx[:, c]]
    if sym:
        i, j = idx[:, 0], idx[:, 1]
        E = E * 0.5 * (tabs[0][0][i] * tabs[1][0][j] + tabs[0][0][j] * tabs[1][0][i])
        S = S * 0.5 * (tabs[0][1][i] * tabs[1][1][j] + tabs[0][1][j] * tabs[1][1][i])
    flips = [word.count(c) % 2 == 1 for c in 'xyz'[:ndim]] if sym else [False] * ndim
    Q = np.empty(len(idx))
    cache = {}   # power tables of the mapped points: the same points come back for every chunk of monomials

    def tables(x):
        x = np.asarray(x, dtype=float)
        hit = cache.get('x')
        if hit is not None and hit.shape == x.shape and np.array_equal(hit, x):
            return cache['P']
        P = []
        for c in range(ndim):
            xc = x if ndim == 1 else x[c]
            if flips[c]:
                xc = (box[2 * c] + box[2 * c + 1]) - xc
            P.append(powers(xc, max(deg, 0)))
        cache['x'], cache['P'] = x.copy(), P
        npts = P[0].shape[1]
        cache['b1'], cache['b2'] = np.empty((CHUNK, npts)), np.empty((CHUNK, npts))
        return P

    try:
        for lo in range(0, len(idx), CHUNK):
            part = idx[lo:lo + CHUNK]

            def f(x, part=part):
                P = tables(x)
                m = len(part)
                b1, b2 = cache['b1'][:m], cache['b2'][:m]
                np.take(P[0], part[:, 0], axis=0, out=b1)
                if ndim == 1:
                    return b1
                if sym:
                    np.take(P[1], part[:, 1], axis=0, out=b2)
                    np.multiply(b1, b2, out=b1)
                    np.take(P[0], part[:, 1], axis=0, out=b2)
                    t = P[1][part[:, 0]]
                    np.multiply(b2, t, out=b2)
                    np.add(b1, b2, out=b1)
                    np.multiply(b1, 0.5, out=b1)
                    lo_c = 2
                else:
                    lo_c = 1
                for c in range(lo_c, ndim):
                    np.take(P[c], part[:, c], axis=0, out=b2)
                    np.multiply(b1, b2, out=b1)
                return b1

            Q[lo:lo + CHUNK] = scheme.integrate(f, *box)
    except Exception as ex:  # noqa
        acc.fail(sname, variant, word, 'raised', float('inf'),
                 '{} {} word={!r} on base {}: integrate over {} raised {!r}'.format(sname, variant, word, spec[0], box, ex),
                 {'base': list(spec[:3]), 'scheme': sname, 'variant': variant, 'word': word, 'box': list(box)})
        return None
    acc.count('monomial', len(idx))
    rel = np.abs(Q - E) / S
    w = int(np.argmax(rel))
    acc.err('monomial:' + sname, rel[w])
    if len(acc.samples) < 1 and word and deg >= 2:
        acc.samples.append({'base': spec[0], 'scheme': sname, 'variant': variant, 'mirror_word': word, 'box': list(box),
                            'monomials_checked': len(idx), 'max_total_degree': deg, 'worst_exponents': idx[w].tolist(),
                            'value': float(Q[w]), 'exact': float(E[w]), 'rel_err': float(rel[w])})
    nbad = int(np.sum(~(rel <= TOL)))
    if nbad:
        acc.fail(sname, variant, word, 'monomial', rel[w],
                 '{} {} word={!r} on base {} (degree {}), box {}: {} of {} monomials of total degree <= {} off; worst exponents {} '
                 'Q={!r} exact={!r} rel.err={:.3e}'.format(sname, variant, word, spec[0], spec[3], box, nbad, len(idx), deg,
                                                         idx[w].tolist(), float(Q[w]), float(E[w]), float(rel[w])),
                 {'base': list(spec[:3]), 'scheme': sname, 'variant': variant, 'word': word, 'box': list(box),
                  'mono': idx[w].tolist(), 'deg': deg, 'sym': sym})
    return Q, E, S, idx


def check_mirror_structure(acc, spec, s0, sname, variant, words, ndim):
    """mirror-points / involution clauses for every word."""
    p0 = np.atleast_2d(s0.points)
    for word in words:
        if not word:
            continue
        try:
            s = apply_word(s0, word)
        except Exception as ex:  # noqa
            acc.fail(sname, variant, word, 'raised', float('inf'), '{} {} on base {}: mirror word {!r} raised {!r}'.format(
                sname, variant, spec[0], word, ex), {'base': list(spec[:3]), 'scheme': sname, 'variant': variant, 'word': word})
            continue
        clause = 'involution' if (len(word) == 2 and word[0] == word[1]) else 'mirror-points'
        acc.count(clause)
        p = np.atleast_2d(s.points)
        ok = p.shape == p0.shape and np.array_equal(np.asarray(s.weights), np.asarray(s0.weights))
        dev = 0.0
        msg = 'weights or shape differ' if not ok else ''
        if ok:
            for ci, c in enumerate('xyz'[:ndim]):
                n = word.count(c) if ndim > 1 else len(word)
                if n == 0:
                    good = np.array_equal(p[ci], p0[ci])
                    d = 0.0 if good else float(np.max(np.abs(p[ci] - p0[ci])))
                elif n % 2 == 1:
                    d = float(np.max(np.abs(p[ci] - (1.0 - p0[ci]))))
                    good = d <= EPS53
                else:
                    d = float(np.max(np.abs(p[ci] - p0[ci])))
                    good = d <= EPS53
                    if d == 0.0:
                        acc.count('involution-bitwise-coordinates')
                dev = max(dev, d)
                if not good:
                    ok = False
                    msg += ' coordinate {} deviates by {:.3e}'.format(c, d)
        acc.err(clause, dev)
        if not ok:
            acc.fail(sname, variant, word, clause, dev if dev else 1.0,
                     '{} {} on base {}: after mirror word {!r}:{}'.format(sname, variant, spec[0], word, msg),
                     {'base': list(spec[:3]), 'scheme': sname, 'variant': variant, 'word': word, 'structure': True})


def check_weight_sum(acc, spec, s, sname, variant, word, expect=1.0):
    acc.count('weight-sum')
    v = float(np.sum(s.weights))
    e = abs(v - expect) / abs(expect)
    acc.err('weight-sum', e)
    if not e <= TOL:
        acc.fail(sname, variant, word, 'weight-sum', e, '{} {} word={!r} on base {}: sum of weights {!r}, expected {!r}'.format(
            sname, variant, word, spec[0], v, expect), {'base': list(spec[:3]), 'scheme': sname, 'variant': variant, 'word': word,
                                                        'weightsum': True})


def derived(spec, base, sname, variant):
    import src.quadrature as q
    if sname == 'QuadScheme1D':
        return base
    if sname == 'ProductScheme2D':
        if variant == 'same':
            return q.ProductScheme2D(base)
        g = q.gauss_quadrature_scheme(3)
        return q.ProductScheme2D(base, g) if variant == 'base-x-GL3' else q.ProductScheme2D(g, base)
    if sname == 'DuffyScheme2D':
        return q.DuffyScheme2D(q.ProductScheme2D(base), variant == 'symmetric=True')
    if sname == 'ProductScheme3D':
        return q.ProductScheme3D(base)
    if sname == 'DuffySchemeIdentical3D':
        return q.DuffySchemeIdentical3D(q.ProductScheme3D(base), variant == 'symmetric_xy=True')
    if sname == 'DuffySchemeTouch3D':
        return q.DuffySchemeTouch3D(q.ProductScheme3D(base))
    raise common.HarnessError('unknown scheme ' + sname)


GROUPS = {
    '1d': [('QuadScheme1D', '-')],
    '2d': [('ProductScheme2D', 'same'), ('ProductScheme2D', 'base-x-GL3'), ('ProductScheme2D', 'GL3-x-base'),
           ('DuffyScheme2D', 'symmetric=False'), ('DuffyScheme2D', 'symmetric=True')],
    '3dprod': [('ProductScheme3D', '-')],
    '3did': [('DuffySchemeIdentical3D', 'symmetric_xy=False')],
    '3didsym': [('DuffySchemeIdentical3D', 'symmetric_xy=True')],
    '3dtouch': [('DuffySchemeTouch3D', '-')],
}


def stated_degree(sname, variant, D):
    if sname in ('QuadScheme1D', 'ProductScheme3D'):
        return D
    if sname == 'ProductScheme2D':
        return D if variant == 'same' else min(D, 3)
    if sname == 'DuffyScheme2D':
        return D - 1
    return D - 2


def check_shared_base_histories(acc, spec, base, ndim):
    """Construction histories on SHARED intermediate objects: one tensor scheme is built from the base and every ordering of
    the derived-scheme constructors is applied to that same object.  After every step the base and the tensor scheme must be
    bitwise what they were (constructors must not write into their arguments), and the constructed scheme must be bitwise the
    one obtained from a fresh intermediate."""
    import itertools
    import src.quadrature as q
    if ndim == 2:
        mk = q.ProductScheme2D
        ctors = [('DuffyScheme2D', 'symmetric=False', lambda P: q.DuffyScheme2D(P, False)),
                 ('DuffyScheme2D', 'symmetric=True', lambda P: q.DuffyScheme2D(P, True))]
    else:
        mk = q.ProductScheme3D
        ctors = [('DuffySchemeIdentical3D', 'symmetric_xy=False', lambda P: q.DuffySchemeIdentical3D(P, False)),
                 ('DuffySchemeIdentical3D', 'symmetric_xy=True', lambda P: q.DuffySchemeIdentical3D(P, True)),
                 ('DuffySchemeTouch3D', '-', lambda P: q.DuffySchemeTouch3D(P))]
    try:
        fresh = [f(mk(base)) for _, _, f in ctors]
    except Exception:  # noqa (reported by the ordinary construction clause)
        return
    for perm in itertools.permutations(range(len(ctors))):
        b0 = (np.array(base.points, copy=True), np.array(base.weights, copy=True))
        P = mk(base)
        p0 = (np.array(P.points, copy=True), np.array(P.weights, copy=True))
        for step, i in enumerate(perm):
            sname, variant, f = ctors[i]
            acc.count('shared-base-history')
            try:
                sch = f(P)
                untouched = (np.array_equal(P.points, p0[0]) and np.array_equal(P.weights, p0[1])
                             and np.array_equal(base.points, b0[0]) and np.array_equal(base.weights, b0[1]))
                same = np.array_equal(sch.points, fresh[i].points) and np.array_equal(sch.weights, fresh[i].weights)
                bad = None
                if not (untouched and same):
                    acc.count('shared-base-history-bitwise-changes')  # observation; the verdict is on the property clauses:
                    # the tensor scheme that was handed in must still have weights summing to the measure and integrate the
                    # coordinate functions, and the derived scheme must do so as well (where its stated degree allows)
                    D = spec[3]
                    wsP = float(np.sum(P.weights))
                    if abs(wsP - 1.0) > TOL or (D >= 1 and any(abs(float(np.dot(P.points[c], P.weights)) - 0.5) > TOL for c in range(ndim))):
                        bad = 'the tensor scheme passed to the constructor no longer preserves measure / first moments (sum of weights {!r})'.format(wsP)
                    deg = stated_degree(sname, variant, D)
                    wsS = float(np.sum(sch.weights))
                    if bad is None and deg >= 0 and abs(wsS - 1.0) > TOL:
                        bad = 'derived scheme built on a shared tensor scheme has weights summing to {!r}'.format(wsS)
                    if bad is None and deg >= 1 and any(abs(float(np.dot(sch.points[c], sch.weights)) - 0.5) > TOL for c in range(ndim)):
                        bad = 'derived scheme built on a shared tensor scheme does not integrate the coordinate functions'
            except Exception as ex:  # noqa
                bad = 'raised {!r}'.format(ex)
            if bad:
                acc.fail(sname, variant, 'order' + ''.join(map(str, perm[:step + 1])), 'shared-base-history', float('inf'),
                         '{} {} as step {} of construction order {} on ONE shared {} built from base {}: {}'.format(
                             sname, variant, step + 1, [ctors[j][0] + ' ' + ctors[j][1] for j in perm], mk.__name__, spec[0], bad),
                         {'base': list(spec[:3]), 'scheme': sname, 'variant': variant, 'word': '', 'shared_base': ndim})
                return


def run_task(task):
    spec, group, tier = task
    cfg = CFG[tier]
    acc = Acc(spec[0])
    try:
        base = build_base(spec)
        if base is None or not hasattr(base, 'points'):
            raise TypeError('constructor returned {!r}'.format(base))
    except BaseException as ex:  # noqa
        return {'base': spec[0], 'unavailable': repr(ex), 'group': group}
    D, wrule = spec[3], spec[4]
    for sname, variant in GROUPS[group]:
        deg = stated_degree(sname, variant, D)
        try:
            s0 = derived(spec, base, sname, variant)
        except Exception as ex:  # noqa
            acc.fail(sname, variant, '', 'raised', float('inf'), '{} {} on base {} raised {!r}'.format(sname, variant, spec[0], ex),
                     {'base': list(spec[:3]), 'scheme': sname, 'variant': variant, 'word': ''})
            continue
        ndim = 1 if sname == 'QuadScheme1D' else (2 if '2D' in sname else 3)
        sym = variant.endswith('=True')
        if ndim == 1:
            words = ['', 'm', 'mm']
            check_mirror_structure(acc, spec, s0, sname, variant, words, 1)
            for word in words:
                s = apply_word(s0, word)
                if wrule is None:
                    if deg >= 0:
                        check_weight_sum(acc, spec, s, sname, variant, word)
                    for a, b in cfg['i1']:
                        check_monomials(acc, spec, s, sname, variant, word, (a, b), deg)
                else:
                    if deg >= 0:
                        check_weight_sum(acc, spec, s, sname, variant, word, float(tab_rules.moment('w', 0, wrule)))
                    mirrored = len(word) % 2 == 1
                    for a, b in cfg['i1']:
                        acc.configs += 1
                        acc.nontrivial += 1 if deg >= 1 else 0
                        for k in range(deg + 1):
                            ex, sc = weighted_exact(wrule, a, b, k, mirrored)
                            try:
                                v = float(s.integrate(lambda x, k=k: x ** k, a, b))
                            except Exception as exn:  # noqa
                                acc.fail(sname, variant, word, 'raised', float('inf'), '{} on base {} integrate raised {!r}'.format(
                                    sname, spec[0], exn), {'base': list(spec[:3]), 'scheme': sname, 'variant': variant, 'word': word,
                                                           'box': [a, b]})
                                break
                            acc.count('monomial')
                            e = abs(v - ex) / sc
                            acc.err('monomial:' + sname + '(weighted)', e)
                            if not e <= TOL:
                                acc.fail(sname, variant, word, 'monomial', e,
                                         '{} word={!r} on weighted base {} interval [{},{}]: x^{} gives {!r}, exact {!r}, rel.err={:.3e}'.format(
                                             sname, word, spec[0], a, b, k, v, ex, e),
                                         {'base': list(spec[:3]), 'scheme': sname, 'variant': variant, 'word': word, 'box': [a, b],
                                          'mono': [k], 'weighted': wrule})
            continue
        if wrule is not None or D < 0:
            continue  # not usable as a polynomial 1-D base
        words = cfg['w2'] if ndim == 2 else cfg['w3']
        if (sname, variant) in (('DuffyScheme2D', 'symmetric=False'), ('DuffySchemeIdentical3D', 'symmetric_xy=False')):
            check_shared_base_histories(acc, spec, base, ndim)
        check_mirror_structure(acc, spec, s0, sname, variant, words, ndim)
        boxes = (cfg['sq2'] if sym else cfg['b2']) if ndim == 2 else (cfg['sq3'] if sym else cfg['b3'])
        for word in words:
            try:
                s = apply_word(s0, word)
            except Exception:  # noqa  (already reported by check_mirror_structure)
                continue
            if deg >= 0:
                check_weight_sum(acc, spec, s, sname, variant, word)
            for box in boxes:
                check_monomials(acc, spec, s, sname, variant, word, box, deg, sym=sym)
        # symmetric == non-symmetric on symmetric integrands
        if sym and deg >= 0:
            try:
                other = derived(spec, base, sname, variant.replace('True', 'False'))
            except Exception:  # noqa
                continue
            for box in boxes:
                r1 = check_monomials(Acc(''), spec, s0, sname, variant, '', box, deg, sym=True)
                r2 = check_monomials(Acc(''), spec, other, sname, variant, '', box, deg, sym=True)
                if r1 is None or r2 is None:
                    continue
                acc.count('sym-vs-nonsym', len(r1[0]))
                rel = np.abs(r1[0] - r2[0]) / r1[2]
                w = int(np.argmax(rel))
                acc.err('sym-vs-nonsym', rel[w])
                if not np.all(rel <= TOL):
                    acc.fail(sname, 'both', '', 'sym-vs-nonsym', rel[w],
                             '{} on base {} box {}: symmetric {!r} vs non-symmetric {!r} on symmetrised monomial {} (rel {:.3e})'.format(
                                 sname, spec[0], box, float(r1[0][w]), float(r2[0][w]), r1[3][w].tolist(), float(rel[w])),
                             {'base': list(spec[:3]), 'scheme': sname, 'variant': variant, 'word': '', 'box': list(box),
                              'mono': r1[3][w].tolist(), 'deg': deg, 'sym': True, 'compare': True})
    return acc.result()


# ---- log-singular convergence ----------------------------------------------------------------------------------------
def closed_forms():
    """Closed forms over the unit square / cube, verified against mpmath quadrature at 30 digits on every run."""
    import mpmath as mp
    mp.mp.dps = 30
    pi, l2, l5 = mp.pi, mp.log(2), mp.log(5)
    I1 = mp.mpf(-3) / 2
    I2 = 2 * l2 - mp.mpf(3) / 2
    I3 = -(mp.mpf(11) / 3 - 2 * pi / 3 - 2 * l2 / 3)
    I4 = -mp.mpf(11) / 3 + 2 * pi / 3 - 2 * l2 / 3 + mp.mpf(11) / 6 * l5 - 2 * mp.atan(2) / 3

    def inner(s):  # int_0^1 log(s^2 + z^2) dz
        return mp.log(1 + s * s) - 2 + 2 * s * mp.atan(1 / s)

    chk = {
        'I1': 2 * mp.quad(lambda u: (1 - u) * mp.log(u), [0, 1]),
        'I2': mp.quad(lambda s: s * mp.log(s), [0, 1]) + mp.quad(lambda s: (2 - s) * mp.log(s), [1, 2]),
        'I3': 2 * mp.quad(lambda u: (1 - u) * inner(u), [0, 1]),
        'I4': mp.quad(lambda s: s * inner(s), [0, 1]) + mp.quad(lambda s: (2 - s) * inner(s), [1, 2]),
        # inner() itself against direct quadrature at two points
        'inner': mp.quad(lambda z: mp.log(mp.mpf('0.3') ** 2 + z * z), [0, 1]) - inner(mp.mpf('0.3')),
    }
    vals = {'I1': I1, 'I2': I2, 'I3': I3, 'I4': I4, 'inner': mp.mpf(0)}
    for k, v in chk.items():
        if abs(v - vals[k]) > mp.mpf(10) ** -22:
            raise common.HarnessError('closed form {} not confirmed by mpmath: {} vs {}'.format(k, vals[k], v))
    return {k: float(v) for k, v in vals.items() if k != 'inner'}


LOG_CASES = [
    # (name, scheme, variant, integrand, closed form id, power of h, log h multiplier, origin kind)
    ('log|x-y|', 'DuffyScheme2D', 'symmetric=False', 'I1'), ('log|x-y|', 'DuffyScheme2D', 'symmetric=True', 'I1'),
    ('log(x+y)', 'DuffyScheme2D', 'symmetric=False', 'I2'), ('log(x+y)', 'DuffyScheme2D', 'symmetric=True', 'I2'),
    ('log((x-y)^2+z^2)', 'DuffySchemeIdentical3D', 'symmetric_xy=False', 'I3'),
    ('log((x-y)^2+z^2)', 'DuffySchemeIdentical3D', 'symmetric_xy=True', 'I3'),
    ('log((x+y)^2+z^2)', 'DuffySchemeTouch3D', '-', 'I4'),
]
LOG_F = {
    'log|x-y|': lambda x: np.log(np.abs(x[0] - x[1])),
    'log(x+y)': lambda x: np.log(x[0] + x[1]),
    'log((x-y)^2+z^2)': lambda x: np.log((x[0] - x[1]) ** 2 + x[2] ** 2),
    'log((x+y)^2+z^2)': lambda x: np.log((x[0] + x[1]) ** 2 + x[2] ** 2),
}
LOG_ORDERS = list(range(2, 13))  # as in the repo tests; for n < 2 the 3-D Duffy schemes are not exact for constants (stated degree n-2 < 0)
LOG_H = [1.0, 0.5, 3.0]


def log_value(name, sname, variant, n, h):
    import src.quadrature as q
    base = q.log_quadrature_scheme(n, n)
    spec = ('log', 'log_quadrature_scheme', (n, n), n, None, '')
    s = derived(spec, base, sname, variant)
    if '2D' in sname:
        return float(s.integrate(LOG_F[name], 0.0, h, 0.0, h))
    return float(s.integrate(LOG_F[name], 0.0, h, 0.0, h, 0.0, h))


def log_exact(cf, name, cid, h):
    if name in ('log|x-y|', 'log(x+y)'):
        return h * h * (math.log(h) + cf[cid])
    return h ** 3 * (2 * math.log(h) + cf[cid])


def log_convergence(ctx):
    import src.quadrature_rules as qr
    cf = closed_forms()
    have = set(tuple(p) for p in qr.LOG_QUAD_RULES)
    orders = [n for n in LOG_ORDERS if (n, n) in have]
    if len(orders) < 5:
        raise common.HarnessError('order list for the log-convergence clause has only {} entries'.format(len(orders)))
    n_seq, samples, evals = 0, [], 0
    seqs = {}
    for name, sname, variant, cid in LOG_CASES:
        for h in LOG_H:
            ex = log_exact(cf, name, cid, h)
            errs = []
            for n in orders:
                try:
                    v = log_value(name, sname, variant, n, h)
                except Exception as exn:  # noqa
                    ctx.violation({'scheme': sname, 'variant': variant, 'clause': 'raised', 'integrand': name},
                                  '{} {} with log_quadrature_scheme({},{}) on {} raised {!r}'.format(sname, variant, n, n, name, exn),
                                  {'log': True, 'integrand': name, 'scheme': sname, 'variant': variant, 'h': h, 'id': cid})
                    errs = None
                    break
                errs.append(abs(v - ex) / abs(ex))
                evals += 1
            if errs is None:
                continue
            n_seq += 1
            seqs[(name, sname, variant, h)] = errs
            bad = [(orders[i + 1], errs[i], errs[i + 1]) for i in range(len(errs) - 1)
                   if not (errs[i + 1] <= errs[i] or errs[i + 1] <= TOL)]
            if bad or not errs[-1] <= TOL:
                ctx.violation({'scheme': sname, 'variant': variant, 'clause': 'log-convergence', 'integrand': name},
                              '{} {} on {} over [0,{}]^d, base log_quadrature_scheme(n,n), n={}: relative errors {} - {}'.format(
                                  sname, variant, name, h, orders, ['%.2e' % e for e in errs],
                                  'increase at n={} ({:.2e} -> {:.2e})'.format(*bad[0]) if bad else
                                  'final error {:.2e} above 1e-12'.format(errs[-1])),
                              {'log': True, 'integrand': name, 'scheme': sname, 'variant': variant, 'h': h, 'id': cid})
            if len(samples) < 3 and h == 1.0 and variant.endswith('False'):
                samples.append({'integrand': name, 'scheme': sname, 'variant': variant, 'orders': orders,
                                'relative_errors': [float('%.3e' % e) for e in errs]})
    # symmetric == non-symmetric on the (symmetric) log integrands, every order
    n_cmp = 0
    for name, sname, cid in (('log|x-y|', 'DuffyScheme2D', 'I1'), ('log(x+y)', 'DuffyScheme2D', 'I2'),
                            ('log((x-y)^2+z^2)', 'DuffySchemeIdentical3D', 'I3')):
        vt = 'symmetric=' if '2D' in sname else 'symmetric_xy='
        for h in LOG_H:
            a, b = seqs.get((name, sname, vt + 'True', h)), seqs.get((name, sname, vt + 'False', h))
            if a is None or b is None:
                continue
            ex = log_exact(cf, name, cid, h)
            for i, n in enumerate(orders):
                va, vb = log_value(name, sname, vt + 'True', n, h), log_value(name, sname, vt + 'False', n, h)
                n_cmp += 1
                if not abs(va - vb) <= TOL * abs(ex):
                    ctx.violation({'scheme': sname, 'variant': 'both', 'clause': 'sym-vs-nonsym', 'integrand': name},
                                  '{} n={} on {} h={}: symmetric {!r} vs non-symmetric {!r}'.format(sname, n, name, h, va, vb),
                                  {'log': True, 'integrand': name, 'scheme': sname, 'variant': vt + 'True', 'h': h, 'id': cid,
                                   'compare_n': n})
    if n_seq == 0:
        raise common.HarnessError('no log-convergence sequence was evaluated')
    return {'sequences': n_seq, 'orders': orders, 'evaluations': evals + 2 * n_cmp, 'sym_vs_nonsym_comparisons': n_cmp,
            'samples': samples, 'closed_forms': cf}


# ---- driver ----------------------------------------------------------------------------------------------------------
def run(ctx):
    specs = base_specs()
    cfg = CFG[ctx.tier]
    tasks = []
    for spec in specs:
        for g in GROUPS:
            if g != '1d' and (spec[4] is not None or spec[3] < 0):
                continue
            tasks.append((spec, g, ctx.tier))
    # heavy tasks first for load balance
    def weight(t):
        return -(t[0][3] + 2) ** 3 * {'1d': 0.01, '2d': 0.1, '3dprod': 1, '3did': 6, '3didsym': 3, '3dtouch': 3}[t[1]]
    tasks.sort(key=weight)
    results = common.pmap(run_task, tasks, ctx.jobs, chunksize=1)

    counts, maxerr, fails = {}, {}, {}
    fam_cases = {}
    unavailable = {}
    configs = nontrivial = 0
    run_samples = {}
    for (spec, g, _), r in zip(tasks, results):
        for sm in r.get('samples', []):
            run_samples.setdefault(sm['scheme'] + sm['variant'], sm)
        if 'unavailable' in r:
            unavailable[spec[0]] = r['unavailable']
            continue
        configs += r['configs']
        nontrivial += r['nontrivial']
        n_here = sum(v for k, v in r['counts'].items())
        fam_cases[spec[5]] = fam_cases.get(spec[5], 0) + n_here
        for k, v in r['counts'].items():
            counts[k] = counts.get(k, 0) + v
        for k, v in r['maxerr'].items():
            maxerr[k] = max(maxerr.get(k, 0.0), v)
        for k, v in r['fails'].items():
            fails.setdefault(k, []).append((spec[0], ) + tuple(v))
    for fam in list(tab_rules.FAMILIES) + ['gauss_legendre']:
        if not fam_cases.get(fam):
            raise common.HarnessError('family {} yields zero cases ({})'.format(fam, {k: v for k, v in unavailable.items()}))
    for clause in ('monomial', 'weight-sum', 'mirror-points', 'involution', 'sym-vs-nonsym'):
        if not counts.get(clause):
            raise common.HarnessError('clause {} yields zero cases'.format(clause))
    for k, v in unavailable.items():
        ctx.note('base {} unavailable (reported under C05, not a C15 verdict): {}'.format(k, v))

    for (sname, variant, word, clause), lst in sorted(fails.items()):
        lst.sort(key=lambda t: -t[1] if t[1] == t[1] else 0)
        basename, relerr, what, replay, n = lst[0]
        key = {'scheme': sname, 'variant': variant, 'word': word, 'clause': clause}
        if len(lst) == 1:
            key['base'] = basename
        ctx.violation(key, '[{} of {} bases fail this class] {}'.format(len(lst), len(specs), what), replay)

    lg = log_convergence(ctx)
    samples = list(run_samples.values())[:8] + lg['samples']
    if not samples:
        raise common.HarnessError('no sample case recorded')
    cov = {
        'evaluations': int(sum(counts.values()) + lg['evaluations']),
        'distinct_nontrivial': int(nontrivial + lg['sequences']),
        'rule': 'bases = every key of the seven tables through its constructor + Gauss-Legendre 1,3,..,23; schemes = 1-D map, '
                'ProductScheme2D (same / base x GL3 / GL3 x base), DuffyScheme2D (both), ProductScheme3D, DuffySchemeIdentical3D '
                '(both), DuffySchemeTouch3D; mirror words = {} (2-D) / {} (3-D); boxes = {} (1-D) {} (2-D) {} (3-D), symmetric '
                'variants on boxes square in (x,y); every monomial of total degree <= stated degree. distinct_nontrivial counts '
                'distinct (base, scheme, variant, word, box) configurations whose monomial set reaches degree >= 1, plus the '
                'log-convergence sequences; evaluations counts single comparisons'.format(cfg['w2'], cfg['w3'], len(cfg['i1']), len(cfg['b2']),
                                                                                          len(cfg['b3'])),
        'samples': samples, 'exhaustive': True,
        'bases': len(specs), 'bases_unavailable': unavailable, 'tasks': len(tasks), 'configurations': configs,
        'comparisons_per_clause': counts, 'cases_per_family': fam_cases, 'largest_relative_error': maxerr,
        'log_convergence': {k: v for k, v in lg.items() if k != 'samples'},
        'mirror_words_3d': cfg['w3'], 'mirror_words_2d': cfg['w2'],
    }
    return ctx.finish('exploration', cov, [
        'tolerance 1e-12 relative to the integral of |monomial| over the box (equals |exact| unless the box straddles 0)',
        'double mirror: points within 2^-53 absolute (rounding of 1-(1-p)), weights bitwise',
        'log-convergence: non-increasing error unless already <= 1e-12 relative; order list log_quadrature_scheme(n,n), n=2..12',
        'weighted Gauss families only through the 1-D map and mirror (they do not integrate plain polynomials)',
        'mirror words: all of length <= 2 and xyz (quick), all of length <= 3 (thorough); thorough adds three boxes / two intervals'])


def replay(ctx, data):
    if data.get('log'):
        cf = closed_forms()
        ok = True
        errs = []
        for n in LOG_ORDERS:
            v = log_value(data['integrand'], data['scheme'], data['variant'], n, data['h'])
            ex = log_exact(cf, data['integrand'], data['id'], data['h'])
            errs.append(abs(v - ex) / abs(ex))
        print('relative errors n=2..12:', ['%.2e' % e for e in errs])
        for i in range(len(errs) - 1):
            ok = ok and (errs[i + 1] <= errs[i] or errs[i + 1] <= TOL)
        ok = ok and errs[-1] <= TOL
        if 'compare_n' in data:
            vt = data['variant'].split('=')[0] + '='
            va = log_value(data['integrand'], data['scheme'], vt + 'True', data['compare_n'], data['h'])
            vb = log_value(data['integrand'], data['scheme'], vt + 'False', data['compare_n'], data['h'])
            print('symmetric', va, 'non-symmetric', vb)
            ok = ok and abs(va - vb) <= TOL * abs(log_exact(cf, data['integrand'], data['id'], data['h']))
        return ok
    name, ctor, args = data['base']
    spec = None
    for s in base_specs():
        if s[0] == name:
            spec = s
    if spec is None:
        raise common.HarnessError('unknown base ' + name)
    base = build_base(spec)
    acc = Acc(name)
    sname, variant, word = data['scheme'], data['variant'], data['word']
    try:
        s0 = derived(spec, base, sname, variant)
        apply_word(s0, word)
        if 'box' not in data and not data.get('structure') and not data.get('weightsum'):
            print('construction and mirror word succeed')
            return True
    except Exception as ex:  # noqa
        print('raised', repr(ex))
        return False
    ndim = 1 if sname == 'QuadScheme1D' else (2 if '2D' in sname else 3)
    if data.get('shared_base'):
        check_shared_base_histories(acc, spec, base, data['shared_base'])
        for k, v in acc.fails.items():
            print(v[1])
        return not acc.fails
    if data.get('structure'):
        check_mirror_structure(acc, spec, s0, sname, variant, [word], ndim)
    elif data.get('weightsum'):
        check_weight_sum(acc, spec, apply_word(s0, word), sname, variant, word,
                         float(tab_rules.moment('w', 0, spec[4])) if spec[4] else 1.0)
    elif data.get('weighted'):
        k = data['mono'][0]
        a, b = data['box']
        ex, sc = weighted_exact(spec[4], a, b, k, len(word) % 2 == 1)
        v = float(apply_word(s0, word).integrate(lambda x: x ** k, a, b))
        print('x^{} on [{},{}]: {!r} exact {!r} rel {:.3e}'.format(k, a, b, v, ex, abs(v - ex) / sc))
        return abs(v - ex) / sc <= TOL
    elif data.get('compare'):
        other = derived(spec, base, sname, variant.replace('True', 'False'))
        r1 = check_monomials(acc, spec, s0, sname, variant, '', tuple(data['box']), data['deg'], sym=True)
        r2 = check_monomials(acc, spec, other, sname, variant, '', tuple(data['box']), data['deg'], sym=True)
        rel = np.abs(r1[0] - r2[0]) / r1[2]
        print('largest symmetric/non-symmetric deviation {:.3e}'.format(float(np.max(rel))))
        return bool(np.all(rel <= TOL))
    else:
        check_monomials(acc, spec, apply_word(s0, word), sname, variant, word, tuple(data['box']), data['deg'],
                        sym=bool(data.get('sym')))
    for k, v in acc.fails.items():
        print(k, v[1])
    print('largest errors:', acc.maxerr)
    return not acc.fails
