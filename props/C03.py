"""C03 - Galerkin orthogonality: the estimator's residual integrates to zero over every element.

Universe: the 12 problem x domain combinations accepted by the driver x both values of the straight-panel switch x
every leaf-set-distinct mesh state of the bisection BFS graph rooted at the driver's initial mesh (depth bound per
tier and combination) x EVERY leaf.  Matrix, load vector, solve and residual come from the driver's own statements
(mc/driver.py executes them from example.py's AST).  For every leaf E, int_E r and int_E |r| are computed with an
independent tensor rule on each cell of the partition of E by all mesh lines (12 geometric levels towards both time
ends - r has sqrt kinks at every time line -, 4 levels towards both space ends, keeping the documented 1e-5 distance
from element end points).  Criterion exactly as stated: |int_E r| <= 5e-5 * int_E |r| + 1e-12."""
import numpy as np

from mc import common, driver, meshmc, oracle, universe
from mc.common import pmap
from mc.meshmc import find_leaf, leaf6

ASPECT = 32.0
_D = {}


def rule1d(levels, sigma, n):
    x, w = oracle.graded(n, levels, sigma)
    return np.concatenate([x / 2, 1 - x / 2]), np.concatenate([w / 2, w / 2])


XT, WT = rule1d(12, 0.15, 6)
_XS = {l: rule1d(l, 0.15, 5) for l in (1, 2, 3, 4)}


def space_rule(width):
    """Both-end graded 5-point rule whose nodes keep the documented distance (> 1e-5, here >= 2e-5) from the cell ends."""
    for l in (4, 3, 2, 1):
        x, w = _XS[l]
        if width * float(x.min()) >= 2e-5:
            return x, w
    raise common.HarnessError('cell of width {} too small for the interval rule precondition'.format(width))


def setup(problem, domain, exact, h, life=False):
    """life=False: mesh refined first, operators created on the final mesh.  life=True: the driver's own lifecycle - operators
    and estimator are created on the INITIAL mesh and serve one full loop iteration there (assemble, solve, residual, which
    re-registers the elements with the operator); the bisection history is applied afterwards and the SAME objects serve the
    refined mesh."""
    key = (problem, domain, exact, h, life)
    if key in _D:
        return _D[key]
    _D.clear()
    drv = driver.Driver()
    ns = drv.namespace(problem, domain, exact)
    mesh = drv.make_mesh(ns)
    if life:
        drv.setup_operators(ns)
        drv.solve(ns)
    first = list(mesh.leaf_elements)
    for rect, ax in h:
        mesh.refine_axis(find_leaf(mesh, rect), ax)
    if life == 2:
        # ... and every single-layer operator of the driver has, in between, assembled a block of the FINAL shape for another
        # element list (the elements of the first mesh, all in one slab, repeated) - as an estimator working on the same object does
        N = len(mesh.leaf_elements)
        X = (first * N)[:N]
        for op in [v for v in list(ns.values()) if type(v).__name__ == 'SingleLayerOperator']:
            op.bilform_matrix(X, X)
    if not life:
        drv.setup_operators(ns)
    drv.solve(ns)
    _D[key] = ns
    return ns


def task(item):
    problem, domain, exact, h, idx = item[:5]
    life = item[5] if len(item) > 5 else False
    out = {'n': 0, 'viol': None, 'ratio': 0.0, 'skipped': 0}
    try:
        ns = setup(problem, domain, exact, h, life)
    except Exception as ex:
        import traceback
        out['viol'] = ('driver-raised', {'exc': repr(ex), 'tb': traceback.format_exc()[-600:]})
        return out
    el = ns['elems']
    if any(universe.aspect(e) > ASPECT for e in el):
        out['skipped'] = 1
        return out
    res = ns['residual']
    e = el[idx]
    tl = sorted(set(v for x in el for v in x.time_interval))
    xl = sorted(set(v for x in el for v in x.space_interval))
    ts = [v for v in tl if e.time_interval[0] <= v <= e.time_interval[1]]
    xs = [v for v in xl if e.space_interval[0] <= v <= e.space_interval[1]]
    I = A = 0.0
    try:
        for i in range(len(ts) - 1):
            for j in range(len(xs) - 1):
                T = ts[i] + (ts[i + 1] - ts[i]) * XT
                XS, WS = space_rule(xs[j + 1] - xs[j])
                Xh = xs[j] + (xs[j + 1] - xs[j]) * XS
                TT, XX = np.meshgrid(T, Xh, indexing='ij')
                WW = np.outer(WT, WS) * (ts[i + 1] - ts[i]) * (xs[j + 1] - xs[j])
                r = res(TT.ravel(), XX.ravel(), e.gamma_space)
                I += float(np.sum(WW.ravel() * r))
                A += float(np.sum(WW.ravel() * np.abs(r)))
    except Exception as ex:
        out['viol'] = ('residual-raised', {'exc': repr(ex), 'elem': leaf6(e)})
        return out
    out['n'] = 1
    out['ratio'] = abs(I) / A if A > 0 else 0.0
    if not abs(I) <= 5e-5 * A + 1e-12:
        out['viol'] = ('residual-mean-not-zero', {'elem': leaf6(e), 'int_r': I, 'int_abs_r': A, 'ratio': out['ratio'], 'N': len(el),
                                                  'Phi': [float(p) for p in ns['Phi']][:12]})
    return out


def history_task(item):
    """Call history in ONE fresh process: set up and solve combination A with the driver's statements (its operators stay alive
    and have served their load vector), then set up, solve and check combination B on every leaf of the driver's initial mesh.
    State leaking between operators / domains / problems shows up as a non-zero residual mean in B."""
    (pa, da, ea), (pb, db, eb) = item
    out = []
    try:
        keep = dict(setup(pa, da, ea, ()))  # noqa: F841  (keeps A's operators alive)
    except Exception as ex:
        return [('history-first-problem-raised', {'exc': repr(ex)}, 0, 0.0)]
    nb = len(meshmc.build(meshmc.CFGS[driver.DOMAIN_CFG[db]], ()).leaf_elements)
    for idx in range(nb):
        r = task((pb, db, eb, (), idx))
        out.append((r['viol'][0], r['viol'][1], r['n'], r['ratio']) if r['viol'] else (None, None, r['n'], r['ratio']))
    return out


PLAN = {
    # (combination filter, depth) - every leaf-set-distinct state up to the depth
    'quick': [(lambda p, d: p == 'Dirichlet' and d in ('UnitSquare', 'Circle'), 1), (lambda p, d: True, 0)],
    'thorough': [(lambda p, d: p == 'Dirichlet', 2), (lambda p, d: True, 1)],
}


def run(ctx):
    drv = driver.Driver()  # fails loudly if the driver's statements cannot be located
    items = []
    meshes = {}
    seen = set()
    for filt, depth in PLAN[ctx.tier]:
        for problem, domain in driver.COMBOS:
            if not filt(problem, domain):
                continue
            cfgname = driver.DOMAIN_CFG[domain]
            hs = meshmc.all_states(ctx, cfgname, depth, key='leaf')
            if ctx.tier == 'thorough' and depth == 2:
                hs = hs[::1]
            for exact in (False, True):
                for h in hs:
                    if (problem, domain, exact, h) in seen:
                        continue
                    seen.add((problem, domain, exact, h))
                    n_leaves = len(meshmc.build(meshmc.CFGS[cfgname], h).leaf_elements)
                    meshes['{}/{}/exact={}'.format(problem, domain, exact)] = meshes.get('{}/{}/exact={}'.format(problem, domain, exact), 0) + 1
                    for idx in range(n_leaves):
                        items.append((problem, domain, exact, h, idx))
    # directed deep roots (graded towards t = 0 and a corner / the seam): three and more time slabs with space levels
    # differing by two and more between non-adjacent slabs (nested panels without a common end point)
    deep_plan = [('Dirichlet', 'UnitSquare')] if ctx.tier == 'quick' else [('Dirichlet', d) for d in ('UnitSquare', 'PiSquare', 'LShape', 'Circle')] + [('Singular', 'UnitSquare'), ('MildSingular', 'Circle')]
    for problem, domain in deep_plan:
        cfgname = driver.DOMAIN_CFG[domain]
        roots = meshmc.deep_histories(cfgname, 3)
        for name in (('corner', ) if ctx.tier == 'quick' else ('corner', 't0', 'seamL', 'seamR')):
            h = roots[name]
            for exact in (False, True):
                if (problem, domain, exact, h) in seen:
                    continue
                seen.add((problem, domain, exact, h))
                n_leaves = len(meshmc.build(meshmc.CFGS[cfgname], h).leaf_elements)
                meshes['{}/{}/exact={}'.format(problem, domain, exact)] = meshes.get('{}/{}/exact={}'.format(problem, domain, exact), 0) + 1
                for idx in range(n_leaves):
                    items.append((problem, domain, exact, h, idx))
    # the driver's lifecycle (operators created before the refinement) on every depth-1 state (thorough: depth <= 2) of selected
    # combinations, incl. one with initial data
    life_plan = [('Dirichlet', 'UnitSquare', False), ('MildSingular', 'Circle', False), ('Singular', 'UnitSquare', False)] if ctx.tier == 'quick' else \
        [(p_, d_, e_) for p_, d_ in (('Dirichlet', 'UnitSquare'), ('Dirichlet', 'LShape'), ('MildSingular', 'Circle'), ('Singular', 'UnitSquare'), ('Smooth', 'PiSquare')) for e_ in (False, True)]
    n_life = 0
    for problem, domain, exact in life_plan:
        cfgname = driver.DOMAIN_CFG[domain]
        hs = [h for h in meshmc.all_states(ctx, cfgname, 1 if (ctx.tier == 'quick' or problem in ('Singular', 'Smooth')) else 2, key='leaf') if h]
        for h in hs:
            n_leaves = len(meshmc.build(meshmc.CFGS[cfgname], h).leaf_elements)
            n_life += 1
            for idx in range(n_leaves):
                items.append((problem, domain, exact, h, idx, True))
    # lifecycle with an assembly of the final shape in between (mode 2): every leaf of the first mesh bisected in time twice (four
    # slabs, 16 and more leaves: the serial assembly path, acausal pairs where the intermediate block had causal ones)
    for problem, domain, exact in life_plan[:2 if ctx.tier == 'quick' else len(life_plan)]:
        cfgname = driver.DOMAIN_CFG[domain]
        mm = meshmc.build(meshmc.CFGS[cfgname], ())
        h = ()
        for _ in range(2):
            h = h + tuple((meshmc.rect_of(e), 0) for e in mm.leaf_elements)
            mm = meshmc.build(meshmc.CFGS[cfgname], h)
        n_life += 1
        for idx in range(len(mm.leaf_elements)):
            items.append((problem, domain, exact, h, idx, 2))
    # keep items of one mesh adjacent (setup is cached per worker) but spread meshes over workers
    res = pmap(task, items, ctx.jobs, chunksize=max(1, len(items) // (ctx.jobs * 12)))
    n = skipped = 0
    worst = {}
    for it, r in zip(items, res):
        n += r['n']
        skipped += r['skipped']
        k = '{}/{}/exact={}'.format(it[0], it[1], it[2])
        worst[k] = max(worst.get(k, 0.0), r['ratio'])
        if r['viol']:
            tag, v = r['viol']
            life = len(it) > 5 and it[5]
            ctx.violation({'tag': tag + ('|operators-created-before-refinement' if life else ''), 'problem': it[0], 'domain': it[1], 'exact': it[2]},
                          '{} for {} on {} (switch {}) after history {}{}: {}'.format(tag, it[0], it[1], it[2], list(it[3]), (' applied AFTER the operators were created and had served the initial mesh' + (' (and a block of the final shape for other elements)' if life == 2 else '')) if life else '', v),
                          {'problem': it[0], 'domain': it[1], 'exact': it[2], 'history': [[list(r_), ax] for r_, ax in it[3]], 'idx': it[4], 'lifecycle': (life if life else False)})
    # call histories across problems / domains in one process (all ordered pairs of the combinations with initial data, plus
    # one Dirichlet partner each)
    m0 = [c for c in driver.COMBOS if c[0] in ('Smooth', 'Singular')]
    hitems = [((a[0], a[1], False), (b[0], b[1], False)) for a in m0 for b in m0 if a != b]
    hitems += [(('Dirichlet', 'UnitSquare', True), ('Dirichlet', 'LShape', False)), (('Dirichlet', 'Circle', False), ('MildSingular', 'PiSquare', True))]
    if ctx.tier == 'quick':
        hitems = [h for h in hitems if h[0][1] != h[1][1]]  # different domains only
    resH = common.pmap_fresh(history_task, hitems, ctx.jobs)
    nH = 0
    for it, rows in zip(hitems, resH):
        for tag, v, cnt, ratio in rows:
            nH += cnt
            k = '{}/{}/exact={}'.format(*it[1])
            worst[k] = max(worst.get(k, 0.0), ratio)
            if tag:
                ctx.violation({'tag': 'history:' + tag, 'problem': it[1][0], 'domain': it[1][1], 'after': '{}/{}'.format(it[0][0], it[0][1])},
                              '{} for {} on {} in a process that served {} on {} before: {}'.format(tag, it[1][0], it[1][1], it[0][0], it[0][1], v),
                              {'problem': it[1][0], 'domain': it[1][1], 'exact': it[1][2], 'history': [], 'idx': 0, 'after': list(it[0])})
    n += nH
    if n < 20:
        raise common.HarnessError('vacuous C03 run')
    cov = {'evaluations': n, 'distinct_nontrivial': n,
           'rule': 'one case = (problem, domain, switch, leaf-set-distinct mesh state, leaf); distinct by construction; meshes containing a leaf of aspect > 32 skipped',
           'meshes_per_combination': meshes, 'worst_ratio_abs_int_r_over_int_abs_r': {k: float('%.3g' % v) for k, v in sorted(worst.items())},
           'elements_skipped_by_aspect': skipped, 'meshes_served_by_operators_created_before_refinement': n_life, 'cross_problem_histories_in_fresh_processes': len(hitems), 'history_leaf_checks': nH, 'rule_points_per_cell': [len(XT), 'space: 5-point, 1-4 geometric levels per side chosen so that nodes stay >= 2e-5 from the cell ends'],
           'samples': [{'problem': items[0][0], 'domain': items[0][1], 'exact': items[0][2], 'history': list(items[0][3]), 'leaf_index': items[0][4]},
                       {'problem': items[-1][0], 'domain': items[-1][1], 'exact': items[-1][2], 'history': list(items[-1][3]), 'leaf_index': items[-1][4]}],
           'exhaustive': True}
    return ctx.finish('exploration', cov, ['driver statements executed from example.py via mc/driver.py with a serial stand-in for the process pool (schedules: C17)',
                                           'depth bounds per tier in PLAN'])


def replay(ctx, data):
    h = tuple((tuple(r), ax) for r, ax in data['history'])
    r = task((data['problem'], data['domain'], data['exact'], h, data['idx'], (2 if data.get('lifecycle') == 2 else bool(data.get('lifecycle')))))
    print(r)
    return r['viol'] is None
