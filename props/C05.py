"""C05 - every tabulated quadrature rule is exact for its advertised class (complete enumeration of the tables).

Deciding steps (all over the complete finite space, nothing sampled):
  returned     every key of every if/elif chain `return`s its value (source text) and the real function returns the
               doubles of exactly these literals (run time)
  structure    #weights == #nodes, nodes strictly in (0,1), weights of one sign (exact rationals and doubles)
  source-1e-30 every function of the advertised class, interval arithmetic (mpmath.iv, 100 digits) on the literals
               as printed:   |Q - I| <= 1e-30 |I|
  double-1e-13 the same on the literals rounded to double (the rounded values are exact rationals, the sum is again
               enclosed by interval arithmetic):  |Q - I| <= 1e-13 |I|
  exported-list every pair of LOG_QUAD_RULES / LOG_LOG_QUAD_RULES / SQRT_QUAD_RULES / SQRTINV_QUAD_RULES resolves
  constructor  every scheme constructor of src/quadrature.py, for every requested degree (-1..70, pairs -1..20) that
               it maps to a present key (observed through a recorder around the rule function), returns a
               QuadScheme1D carrying that table entry
The advertised class of the three Gauss families is the one of the rule docstring ("Gauss rule of N pts", degree
2N-1); what the extra nodes of some entries deliver beyond that, and what the constructors' docstrings promise
for even degrees, is measured and recorded as an observation, never a verdict.
"""
from fractions import Fraction

import numpy as np

from mc import common, tab_rules
from mc.tab_rules import FAMILIES, GAUSS_FAMILIES

DPS = 100
TOL_SRC = Fraction(1, 10 ** 30)
TOL_DBL = Fraction(1, 10 ** 13)


# ---- interval evaluation -----------------------------------------------------------------------------------------
def _iv():
    from mpmath import iv
    iv.dps = DPS
    return iv


def ivq(iv, fr):
    fr = Fraction(fr)
    return iv.mpf(fr.numerator) / iv.mpf(fr.denominator)


def basis_value(iv, kind, k, x):
    p = x ** k if k else iv.mpf(1)
    if kind in ('poly', 'w'):
        return p
    if kind == 'xlog':
        return p * iv.log(x)
    if kind == 'xlog1m':
        return p * iv.log(1 - x)
    if kind == 'xsqrt':
        return p * iv.sqrt(x)
    if kind == 'xsqrtinv':
        return p / iv.sqrt(x)
    raise common.HarnessError('unknown kind ' + kind)


def rel_error_interval(iv, xs, ws, kind, k, exact):
    q = iv.mpf(0)
    for x, w in zip(xs, ws):
        q += w * basis_value(iv, kind, k, x)
    ex = ivq(iv, exact)
    return abs(q - ex) / abs(ex)


def decide(err, tol):
    """-> True (certainly within), False (certainly outside); undecidable enclosures are a harness failure."""
    from mpmath import mpf
    t = mpf(tol.numerator) / mpf(tol.denominator)
    if err.b <= t * (1 - mpf(10) ** -40):
        return True
    if err.a > t * (1 + mpf(10) ** -40):
        return False
    raise common.HarnessError('interval enclosure [{}, {}] straddles the tolerance'.format(err.a, err.b))


def check_entry(item):
    """Worker: all moment clauses of one table entry. Returns a plain dict."""
    fn, key, nodes, weights = item
    import mpmath
    iv = _iv()
    mpmath.mp.dps = DPS
    out = {'fn': fn, 'key': key, 'n_nodes': len(nodes), 'n_weights': len(weights), 'moments': [], 'struct': []}
    nd = [Fraction(float(x)) for x in nodes]
    wd = [Fraction(float(x)) for x in weights]
    for tag, ns, ws in (('source', nodes, weights), ('double', nd, wd)):
        if not all(0 < x < 1 for x in ns):
            out['struct'].append((tag, 'nodes not strictly inside (0,1): {}'.format(
                [float(x) for x in ns if not 0 < x < 1][:4])))
        if not (all(w > 0 for w in ws) or all(w < 0 for w in ws)):
            out['struct'].append((tag, 'weights of mixed sign or zero'))
    if len(nodes) != len(weights):
        out['struct'].append(('source', '#nodes {} != #weights {}'.format(len(nodes), len(weights))))
        return out
    if not all(0 < x < 1 for x in list(nodes) + nd):
        return out  # log / sqrt undefined; already reported
    ixs, iws = [ivq(iv, x) for x in nodes], [ivq(iv, w) for w in weights]
    dxs, dws = [ivq(iv, x) for x in nd], [ivq(iv, w) for w in wd]
    cls = tab_rules.function_class(fn, key)
    extra = []
    if fn in GAUSS_FAMILIES:
        extra = [('w', k) for k in range(2 * key, 2 * len(nodes))]
    for kind, k, adv in [(a, b, True) for a, b in cls] + [(a, b, False) for a, b in extra]:
        ex = tab_rules.moment(kind, k, fn)
        es = rel_error_interval(iv, ixs, iws, kind, k, ex)
        ed = rel_error_interval(iv, dxs, dws, kind, k, ex)
        rec = {'kind': kind, 'k': k, 'advertised': adv,
               'src_hi': float(es.b), 'src_lo': float(es.a), 'dbl_hi': float(ed.b), 'dbl_lo': float(ed.a)}
        if adv:
            rec['src_ok'] = decide(es, TOL_SRC)
            rec['dbl_ok'] = decide(ed, TOL_DBL)
        else:  # measurement only
            rec['src_ok'] = bool(es.b <= 1e-30)
            rec['dbl_ok'] = bool(ed.b <= 1e-13)
        out['moments'].append(rec)
    return out


# ---- run time clauses --------------------------------------------------------------------------------------------
def runtime_value(fn, key):
    import src.quadrature_rules as qr
    f = getattr(qr, fn)
    try:
        return 'value', (f(*key) if isinstance(key, tuple) else f(key))
    except AssertionError as ex:
        return 'assert', repr(ex)
    except Exception as ex:  # noqa
        return 'raised', repr(ex)


def runtime_value_kw(fn, key, form):
    """The same request written with parameter names (form 'kw': all named; 'mixed': first positional, rest named; names taken
    from the function's own signature).  Returns ('skip', why) when the signature does not offer that form."""
    import inspect
    import src.quadrature_rules as qr
    f = getattr(qr, fn)
    try:
        ps = [p_ for p_ in inspect.signature(f).parameters.values()]
    except (TypeError, ValueError) as ex:
        return 'skip', repr(ex)
    args = key if isinstance(key, tuple) else (key, )
    if len(ps) != len(args) or any(p_.kind != p_.POSITIONAL_OR_KEYWORD for p_ in ps):
        return 'skip', 'signature {}'.format([str(p_) for p_ in ps])
    npos = 0 if form == 'kw' else 1
    if form == 'mixed' and len(args) < 2:
        return 'skip', 'one parameter'
    try:
        return 'value', f(*args[:npos], **{p_.name: a_ for p_, a_ in list(zip(ps, args))[npos:]})
    except AssertionError as ex:
        return 'assert', repr(ex)
    except Exception as ex:  # noqa
        return 'raised', repr(ex)


def same_as_entry(val, e):
    import numpy as np
    try:
        n, w = val
        n = np.atleast_1d(np.asarray(n, dtype=float))
        w = np.atleast_1d(np.asarray(w, dtype=float))
    except Exception:
        return False
    en = np.array([float(x) for x in e.nodes])
    ew = np.array([float(x) for x in e.weights])
    return n.shape == en.shape and w.shape == ew.shape and bool(np.all(n == en)) and bool(np.all(w == ew))


def constructor_cases(entries):
    """Enumerate requested degrees, observe which key each constructor asks the table for."""
    import src.quadrature as q
    cases = []
    for ctor, rule in tab_rules.CONSTRUCTORS.items():
        if not hasattr(q, ctor):
            raise common.HarnessError('src.quadrature has no ' + ctor)
        real = getattr(q, rule)
        if rule in GAUSS_FAMILIES:
            args = [(n, ) for n in range(-1, 71)]
        else:
            args = [(p, l) for p in range(-1, 21) for l in range(-1, 21)]
        for a in args:
            seen = []

            def recorder(*k, _real=real, _seen=seen):
                _seen.append(k[0] if len(k) == 1 else tuple(k))
                return _real(*k)

            setattr(q, rule, recorder)
            try:
                try:
                    res, exc = getattr(q, ctor)(*a), None
                except BaseException as ex:  # noqa
                    res, exc = None, ex
            finally:
                setattr(q, rule, real)
            if len(seen) != 1 or (rule, seen[0]) not in entries:
                continue  # refused before the table (parity assertion) or key not present
            cases.append((ctor, a, rule, seen[0], res, exc))
    return cases


# ---- reporting ---------------------------------------------------------------------------------------------------
def vkey(fn, key, clause):
    d = {'rule': fn, 'key': list(key) if isinstance(key, tuple) else key, 'clause': clause}
    if fn in GAUSS_FAMILIES:
        d['N'] = key
    return d


def run(ctx):
    import src.quadrature as q
    import src.quadrature_rules as qr
    entries, order, dead = tab_rules.parse_tables()
    if tab_rules.PROBED[0]:
        ctx.note('the rule tables are no longer if/elif chains of literals: entries were PROBED at run time (the doubles the code uses); '
                 'the clause about the literals as written (1e-30) is not decidable in this mode and was skipped')
    fam_keys = {f: [k for (fn, k) in order if fn == f] for f in FAMILIES}
    for f in FAMILIES:
        if not fam_keys[f]:
            raise common.HarnessError('family {} yields no table entries'.format(f))
    counts = {f: {'keys': len(fam_keys[f]), 'moment_checks_source': 0, 'moment_checks_double': 0,
                  'structure_checks': 0, 'beyond_advertised_measured': 0} for f in FAMILIES}
    evaluations = 0
    distinct = set()
    samples = []
    worst = {f: {'source': 0.0, 'double': 0.0} for f in FAMILIES}

    # -- returned / run-time agreement
    n_returned = 0
    for (fn, key) in order:
        e = entries[(fn, key)]
        evaluations += 1
        status, val = runtime_value(fn, key)
        if not e.returned or status != 'value' or val is None:
            ctx.violation(vkey(fn, key, 'returned'),
                          '{}({}) does not return its table entry: source branch at line {} {}; run time: {}'.format(
                              fn, key, e.lineno, 'has a return' if e.returned else 'is a bare expression (no return)',
                              'None' if status == 'value' else status + ' ' + str(val)),
                          {'kind': 'returned', 'rule': fn, 'key': key})
            continue
        if not same_as_entry(val, e):
            raise common.HarnessError('{}({}): run-time value differs from the parsed source literals'.format(fn, key))
        n_returned += 1

    # -- request forms: the same key written with parameter names (all named / first positional) - every key of every table in
    # table order, then every key again in reverse order; whichever way a key is written, the rule returned is its table entry
    n_forms = 0
    forms_skipped = {}
    for pass_, seq in (('table order', order), ('reverse order', order[::-1])):
        for (fn, key) in seq:
            e = entries[(fn, key)]
            if not e.returned:
                continue
            for form in ('kw', 'mixed'):
                status, val = runtime_value_kw(fn, key, form)
                if status == 'skip':
                    forms_skipped[fn + ':' + form] = val
                    continue
                evaluations += 1
                n_forms += 1
                if status != 'value' or val is None or not same_as_entry(val, e):
                    ctx.violation(dict(vkey(fn, key, 'request-form'), form=form),
                                  '{}({}) requested by parameter name ({}, {}) does not return its table entry: {}'.format(
                                      fn, key, form, pass_, 'another rule / None' if status == 'value' else status + ' ' + str(val)[:80]),
                                  {'kind': 'request-form', 'rule': fn, 'key': key, 'form': form})

    # -- moments / structure (parallel over entries)
    items = [(fn, key, entries[(fn, key)].nodes, entries[(fn, key)].weights) for (fn, key) in order]
    results = common.pmap(check_entry, items, ctx.jobs, chunksize=1)
    observed_degree = {}
    for r in results:
        fn, key = r['fn'], r['key']
        c = counts[fn]
        c['structure_checks'] += 1
        evaluations += 1
        for tag, msg in r['struct']:
            ctx.violation(vkey(fn, key, 'structure'), '{}({}) [{} values]: {}'.format(fn, key, tag, msg),
                          {'kind': 'entry', 'rule': fn, 'key': key})
        bad = {'source-1e-30': [], 'double-1e-13': []}
        good_upto = -1
        for m in r['moments']:
            if m['advertised']:
                c['moment_checks_source'] += 1
                c['moment_checks_double'] += 1
                evaluations += 2
                distinct.add((fn, key, m['kind'], m['k']))
                worst[fn]['source'] = max(worst[fn]['source'], m['src_hi'])
                worst[fn]['double'] = max(worst[fn]['double'], m['dbl_hi'])
                if not m['src_ok'] and not tab_rules.PROBED[0]:
                    bad['source-1e-30'].append(m)
                if not m['dbl_ok']:
                    bad['double-1e-13'].append(m)
                if len(samples) < 6 and m['k'] == (key if fn in GAUSS_FAMILIES else max(key)):
                    samples.append({'rule': fn, 'key': key, 'function': tab_rules.label(m['kind'], m['k'], fn),
                                    'nodes': r['n_nodes'], 'rel_err_source_upper': m['src_hi'],
                                    'rel_err_double_upper': m['dbl_hi']})
            else:
                c['beyond_advertised_measured'] += 1
            if fn in GAUSS_FAMILIES and m['dbl_ok'] and m['k'] == good_upto + 1:
                good_upto = m['k']
        if fn in GAUSS_FAMILIES:
            observed_degree['{}({})'.format(fn, key)] = {'nodes': r['n_nodes'], 'advertised_degree': 2 * key - 1,
                                                         'measured_degree_double_1e-13': good_upto}
        for clause, ms in bad.items():
            if not ms:
                continue
            fld = 'src_lo' if clause.startswith('source') else 'dbl_lo'
            w = max(ms, key=lambda m: m[fld])
            ctx.violation(vkey(fn, key, clause),
                          '{}({}), {} nodes: {} of {} advertised functions miss {}; worst {} with relative error >= {:.3e}; '
                          'failing: {}'.format(fn, key, r['n_nodes'], len(ms), sum(1 for m in r['moments'] if m['advertised']),
                                               clause, tab_rules.label(w['kind'], w['k'], fn), w[fld],
                                               [(m['kind'], m['k'], float('%.2e' % m[fld])) for m in ms][:70]),
                          {'kind': 'moment', 'rule': fn, 'key': key, 'clause': clause, 'func': [w['kind'], w['k']]})

    # -- exported lists
    n_list = 0
    list_counts = {}
    for lname, fn in tab_rules.EXPORTED_LISTS.items():
        if not hasattr(qr, lname):
            raise common.HarnessError('src.quadrature_rules has no ' + lname)
        pairs = list(getattr(qr, lname))
        if not pairs:
            raise common.HarnessError(lname + ' is empty')
        list_counts[lname] = len(pairs)
        for pr in pairs:
            pr = tuple(pr)
            evaluations += 1
            n_list += 1
            distinct.add((lname, pr))
            status, val = runtime_value(fn, pr)
            ok = status == 'value' and val is not None and (fn, pr) in entries and same_as_entry(val, entries[(fn, pr)])
            if not ok:
                ctx.violation({'list': lname, 'rule': fn, 'key': list(pr), 'clause': 'exported-list'},
                              '{} names {} but {}{} gives {}'.format(lname, pr, fn, pr,
                                                                     'None' if status == 'value' and val is None else
                                                                     (status + ' ' + str(val)[:80])),
                              {'kind': 'exported', 'list': lname, 'rule': fn, 'key': pr})
    unlisted = sorted(str((fn, k)) for (fn, k) in order if fn in tab_rules.EXPORTED_LISTS.values()
                      and k not in [tuple(p) for l, f in tab_rules.EXPORTED_LISTS.items() if f == fn for p in getattr(qr, l)])

    # -- constructors
    ctor_counts = {}
    ctor_obs = []
    # two passes in this one process: the second after 120 further distinct schemes (Gauss-Legendre orders 1, 3, ..., 239) have been
    # requested - a convergence study in one process; every request must still return the table entry it asks for
    first_pass = [(c_ + ('first pass', )) for c_ in constructor_cases(entries)]
    n_sweep = 0
    for ctor_, args_, *_rest in first_pass:  # plain requests first (no wrapper), then the order sweep
        try:
            getattr(q, ctor_)(*args_)
        except BaseException:  # noqa
            pass
    for n_ in range(1, 240, 2):
        sch = q.gauss_quadrature_scheme(n_)
        n_sweep += 1
        if len(sch.points) != (n_ + 1) // 2 or abs(float(np.sum(sch.weights)) - 1.0) > 1e-13:
            ctx.violation({'rule': 'gauss_quadrature_scheme', 'clause': 'constructor', 'N': n_},
                          'gauss_quadrature_scheme({}) returns {} nodes with weight sum {!r}'.format(n_, len(sch.points), float(np.sum(sch.weights))),
                          {'kind': 'constructor', 'ctor': 'gauss_quadrature_scheme', 'args': [n_]})
    def plain_pass(label):
        # the constructors are called WITHOUT the recording wrapper here (a wrapper is a new function object per call, which
        # would defeat any memo keyed by the rule function); the key each request maps to is known from the first pass
        out_ = []
        for ctor, args, rule, key, _res, _exc, _p in first_pass:
            try:
                r_, x_ = getattr(q, ctor)(*args), None
            except BaseException as ex_:  # noqa
                r_, x_ = None, ex_
            out_.append((ctor, args, rule, key, r_, x_, label))
        return out_
    second_pass = plain_pass('plain request after all constructor requests and {} Gauss-Legendre orders in this process'.format(n_sweep))
    for ctor, args, rule, key, res, exc, pass_ in first_pass + second_pass:
        evaluations += 1
        if pass_ != 'first pass':
            if exc is None and isinstance(res, q.QuadScheme1D) and same_as_entry((getattr(res, 'points', None), getattr(res, 'weights', None)), entries[(rule, key)]):
                continue
            ctx.violation({'rule': ctor, 'args': list(args), 'table': rule, 'clause': 'constructor-history'},
                          '{}{} ({}) maps to the present key {}({}) but {}'.format(ctor, args, pass_, rule, key, 'raised ' + repr(exc) if exc is not None else
                                                                                   'returned a scheme with {} nodes not carrying the table entry'.format(len(getattr(res, 'points', [])))),
                          {'kind': 'constructor', 'ctor': ctor, 'args': list(args), 'sweep': n_sweep})
            continue
        distinct.add((ctor, args))
        ctor_counts[ctor] = ctor_counts.get(ctor, 0) + 1
        e = entries[(rule, key)]
        ok = (exc is None and isinstance(res, q.QuadScheme1D)
              and same_as_entry((getattr(res, 'points', None), getattr(res, 'weights', None)), e))
        if not ok:
            ctx.violation({'rule': ctor, 'args': list(args), 'table': rule, 'key': list(key) if isinstance(key, tuple) else key,
                           'clause': 'constructor'},
                          '{}{} maps to the present key {}({}) but {}'.format(
                              ctor, args, rule, key, 'raised ' + repr(exc) if exc is not None else
                              'returned {} not carrying the table entry'.format(type(res).__name__)),
                          {'kind': 'constructor', 'ctor': ctor, 'args': list(args)})
        elif rule in GAUSS_FAMILIES:
            od = observed_degree.get('{}({})'.format(rule, key))
            if od and od['measured_degree_double_1e-13'] < args[0]:
                ctor_obs.append('{}({}) -> key {} delivers degree {}'.format(ctor, args[0], key,
                                                                           od['measured_degree_double_1e-13']))
                # a rule requested BY DEGREE through a constructor must be exact up to that degree (1e-13 in double)
                ctx.violation({'rule': ctor, 'clause': 'constructor-degree', 'parity': 'even' if args[0] % 2 == 0 else 'odd'},
                              '{}({}) asks the table for key {} and gets a rule that is exact (1e-13, double) only up to degree {} '
                              'against its weight, not up to the requested degree {}'.format(ctor, args[0], key,
                                                                                              od['measured_degree_double_1e-13'], args[0]),
                              {'kind': 'constructor', 'ctor': ctor, 'args': list(args)})
    for ctor in tab_rules.CONSTRUCTORS:
        if not ctor_counts.get(ctor):
            raise common.HarnessError('constructor {} was never observed reaching a present key'.format(ctor))
    if ctor_obs:
        ctx.note('constructor requests whose rule falls short of the requested degree: '
                 + '; '.join(ctor_obs[:40]))
    for f in FAMILIES:
        if counts[f]['moment_checks_source'] == 0:
            raise common.HarnessError('family {} yields no moment checks'.format(f))
        ctx.note('{}: {} worst_rel_err source<={:.2e} double<={:.2e}'.format(f, counts[f], worst[f]['source'],
                                                                             worst[f]['double']))
    empty_class = [str(k) for k in order if not tab_rules.function_class(*k)]
    cov = {
        'evaluations': evaluations, 'distinct_nontrivial': len(distinct),
        'rule': 'every key of every if/elif chain of the seven *_quadrature_rule functions (parsed with ast from the '
                'source text) x every function of its advertised class x {source literals, doubles}; plus every pair of '
                'the four exported lists and every (constructor, requested degree) that reaches a present key; distinct = '
                'distinct (family, key, function) / (list, pair) / (constructor, degree) tuples, all non-trivial '
                '(non-zero exact moment)',
        'samples': samples, 'exhaustive': True, 'table_entries': len(order), 'entries_returned_and_matching_runtime': n_returned, 'requests_by_parameter_name': n_forms, 'request_forms_not_offered_by_signature': forms_skipped,
        'unreachable_duplicate_branches': len(dead), 'per_family': counts, 'exported_list_pairs': list_counts,
        'constructor_cases': ctor_counts, 'worst_relative_error_upper_bounds': worst,
        'table_keys_not_in_exported_lists': unlisted, 'entries_with_empty_advertised_class': empty_class,
        'gauss_measured_degrees': observed_degree,
        'interval_digits': DPS,
    }
    return ctx.finish('exploration', cov, [
        'advertised class = docstring of the rule function; for the Gauss families degree 2N-1 for key N',
        'mpmath.iv encloses log, sqrt and rational arithmetic rigorously',
        'the literal text is what the Python compiler reads (cross-checked: float(text) == compiled constant == run-time value)'])


def replay(ctx, data):
    import mpmath
    entries, order, dead = tab_rules.parse_tables()
    kind = data['kind']
    key = data.get('key')
    key = tuple(key) if isinstance(key, list) else key
    if kind in ('returned', 'exported'):
        status, val = runtime_value(data['rule'], key)
        e = entries.get((data['rule'], key))
        print('{}({}): run time -> {} {}; source branch {}'.format(
            data['rule'], key, status, 'None' if val is None else str(val)[:100],
            'missing' if e is None else ('returns' if e.returned else 'bare expression, no return (line %d)' % e.lineno)))
        return status == 'value' and val is not None and e is not None and e.returned
    if kind == 'constructor':
        import src.quadrature as q
        if data.get('sweep'):  # history: all constructor requests once, the order sweep, then the request itself
            for ctor_, args_, *_r in constructor_cases(entries):
                try:
                    getattr(q, ctor_)(*args_)
                except BaseException:  # noqa
                    pass
            for n_ in range(1, 2 * int(data['sweep']), 2):
                q.gauss_quadrature_scheme(n_)
        try:
            res = getattr(q, data['ctor'])(*data['args'])
        except BaseException as ex:  # noqa
            print('{}{} raised {!r}'.format(data['ctor'], tuple(data['args']), ex))
            return False
        print('{}{} -> {} with {} points'.format(data['ctor'], tuple(data['args']), type(res).__name__, len(res.points)))
        return isinstance(res, q.QuadScheme1D)
    e = entries[(data['rule'], key)]
    r = check_entry((e.fn, e.key, e.nodes, e.weights))
    for tag, msg in r['struct']:
        print('structure [{}]: {}'.format(tag, msg))
    ok = not r['struct']
    want = tuple(data['func']) if data.get('func') else None
    adv = [m for m in r['moments'] if m['advertised']]
    bad = [m for m in adv if not (m['src_ok'] and m['dbl_ok'])]
    show = [m for m in adv if (m['kind'], m['k']) == want] + bad[:4]
    for m in show:
        print('{}({}) {}: source rel err in [{:.3e},{:.3e}] ({}), double in [{:.3e},{:.3e}] ({})'.format(
            e.fn, e.key, tab_rules.label(m['kind'], m['k'], e.fn), m['src_lo'], m['src_hi'],
            'ok' if m['src_ok'] else '> 1e-30', m['dbl_lo'], m['dbl_hi'], 'ok' if m['dbl_ok'] else '> 1e-13'))
    print('{} of {} advertised functions outside tolerance'.format(len(bad), len(adv)))
    return ok and not bad
